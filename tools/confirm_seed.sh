#!/bin/bash
# confirm_seed.sh <ID_k> : confirm a seeded change produced by a sub-agent, file it under /verif/seeded, remove the worktree
set -u
ID="$1"
OUT=/tmp/seedout/$ID
WT=/tmp/seedwt_$ID
DST=/verif/seeded/$ID
[ -f "$OUT/patch.diff" ] || { echo "$ID: no patch"; exit 1; }
if [ ! -d "$WT" ]; then
  git -C /repo worktree add --detach "$WT" HEAD >/dev/null 2>&1 || exit 1
  git -C "$WT" apply "$OUT/patch.diff" || { echo "$ID: patch does not apply"; exit 1; }
fi
# patch must only touch Lib/
if git -C "$WT" diff --name-only | grep -v '^Lib/fontTools/' | grep -q .; then echo "$ID: touches files outside Lib/fontTools"; fi
git -C "$WT" diff > /tmp/seedout/$ID/patch.confirmed.diff
cd /tmp
PYTHONPATH=/repo/Lib timeout 900 /venv/bin/python "$OUT/demo.py" >/tmp/seedout/$ID/demo_repo.log 2>&1; R0=$?
PYTHONPATH=$WT/Lib timeout 900 /venv/bin/python "$OUT/demo.py" >/tmp/seedout/$ID/demo_wt.log 2>&1; R1=$?
cd "$WT" && PYTHONPATH=$WT/Lib timeout 1800 /venv/bin/python -m pytest -q -p no:cacheprovider -n 6 --timeout=900 Tests >/tmp/seedout/$ID/pytest.log 2>&1; RT=$?
TL=$(tail -1 /tmp/seedout/$ID/pytest.log)
echo "$ID demo_on_repo=$R0 demo_on_change=$R1 pytest_exit=$RT :: $TL"
if [ $R0 -eq 0 ] && [ $R1 -ne 0 ] && [ $RT -eq 0 ]; then
  mkdir -p "$DST"
  cp /tmp/seedout/$ID/patch.confirmed.diff "$DST/patch.diff"
  cp "$OUT/demo.py" "$DST/demo.py"
  python3 - "$ID" "$TL" <<'PY'
import json,sys
i,tl=sys.argv[1],sys.argv[2]
m=json.load(open('/tmp/seedout/%s/meta.json'%i))
m['confirmed_by_requester']={'demo_exit_on_unchanged_repo':0,'demo_exit_with_change':'non-zero','full_test_suite_with_change':tl,
  'commands':['PYTHONPATH=/repo/Lib /venv/bin/python demo.py','PYTHONPATH=<worktree>/Lib /venv/bin/python demo.py','cd <worktree> && PYTHONPATH=<worktree>/Lib /venv/bin/python -m pytest -q -p no:cacheprovider -n 6 --timeout=900 Tests']}
m['demo_output_with_change']=open('/tmp/seedout/%s/demo_wt.log'%i).read()[-600:]
json.dump(m,open('/verif/seeded/%s/meta.json'%i,'w'),indent=1)
PY
  echo "$ID KEPT"
else
  echo "$ID REJECTED"
fi
cd /tmp && git -C /repo worktree remove --force "$WT" && git -C /repo worktree prune
