#!/bin/bash
# run every claimed check (quick tier) on the current /repo tree; print one line each
cd /verif
TIER="${1:-quick}"
for P in $(python3 -c "import json; print(' '.join(c['property_id'] for c in json.load(open('MANIFEST.json'))['checks']))"); do
  S=$(date +%s); OUT=$(bin/vcheck $TIER $P 2>&1); RC=$?; E=$(date +%s)
  echo "$P exit=$RC $((E-S))s :: $(echo "$OUT" | tail -1)"
  [ $RC -ne 0 ] && echo "$OUT" | grep -E "^(VIOLATION|UNDECIDED|CHECKER|CONTRACT)" | head -5
done
exit 0
