#!/usr/bin/env python3-vt
"""Markdown inventory of contracts per property (from the live registry)."""
import os, sys
V = os.path.dirname(os.path.dirname(os.path.abspath(__file__)))
sys.path.insert(0, V)
os.environ.setdefault("VERIF_REPO", "/repo")
sys.path.insert(0, "/repo/Lib")
from pyvc.run import load_contracts
reg = load_contracts()
props = {}
for key, c in sorted(reg.items()):
    for p in c.props:
        props.setdefault(p, []).append((key, c))
for p in sorted(props):
    print("**%s**" % p)
    print()
    for key, c in props[p]:
        tgt = ("%s.%s" % (c.module.replace("fontTools.", ""), c.qualname)) if c.module else "(lemma)"
        try:
            ens = [cl.name for cl in c.ensures]
        except Exception:
            ens = []
        extra = []
        if c.cuts:
            extra.append("loop cut")
        if c.raises:
            extra.append("raises " + "/".join(getattr(t, "__name__", str(t)) for t in c.raises))
        nv = len(c.variants) if not hasattr(c, "variants_for") else len(c.variants_for("quick"))
        print("* `%s` — %s%s; %d variant(s); clauses: %s%s" % (tgt, c.level, " (" + ", ".join(extra) + ")" if extra else "", nv,
                                                             ", ".join(ens) or "only-raises", ""))
    print()
