#!/usr/bin/env python3
"""Regenerate MANIFEST.json from contracts/PROPERTIES_META.json (single source for claims)."""
import json, os
V = os.path.dirname(os.path.dirname(os.path.abspath(__file__)))
meta = json.load(open(os.path.join(V, "contracts", "PROPERTIES_META.json")))
props = [json.loads(l) for l in open(os.path.join(V, "properties.jsonl"))]
checks, na = [], []
for p in props:
    pid = p["id"]
    m = meta.get(pid)
    if not m or m.get("not_applicable"):
        na.append({"property_id": pid, "reason": (m or {}).get("not_applicable", "no check built yet in this round")})
        continue
    checks.append({
        "property_id": pid,
        "quick_cmd": "bin/vcheck quick %s" % pid,
        "thorough_cmd": "bin/vcheck thorough %s" % pid,
        "evidence_file": "evidence/%s.json" % pid,
        "replay_cmd_template": "bin/vcheck replay {path}",
        "engine": "pyvc",
        "level_claimed": {"category": m["level"], "text": m["claim"], "design_ref": m.get("design_ref", "DESIGN.md section 4, " + pid)},
        "level_note": m["note"],
        "technique": m["technique"],
    })
man = {
    "version": 1,
    "setup_cmd": "bin/setup",
    "hooks": {"guard": "FONTTOOLS_VERIF_MONITOR", "enable": "no source hooks: contracts are sidecar files in /verif keyed to the real functions; FONTTOOLS_VERIF_MONITOR=1 only switches on the /verif pytest plugin used by the bounded run-time stand-ins",
              "baseline_off_cmd": "cd /repo && /venv/bin/python -m pytest -ra -q -p no:cacheprovider --timeout=900 --continue-on-collection-errors",
              "source_commits": [], "add_only": True},
    "engines": [{"name": "pyvc", "path": "pyvc/", "serves_properties": [c["property_id"] for c in checks],
                 "kind_free_text": "self-built contract verifier for Python: CPython executes the real function (re-read from /repo on every run) on z3-backed proxy values, all paths explored, each contract clause discharged by z3 (cvc5 / z3-4.8 second opinion); counter-models replayed natively; bounded stand-ins (enumeration, CrossHair, run-time monitor) labelled bounded"}],
    "checks": checks,
    "not_applicable": na,
    "notes": "Technique family: contract-based deductive verification of the real code. See DESIGN.md. exit 0 held / 1 violation / 2 undecided / 3 checker error.",
}
json.dump(man, open(os.path.join(V, "MANIFEST.json"), "w"), indent=1)
print("claimed:", [c["property_id"] for c in checks])
