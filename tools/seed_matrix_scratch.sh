#!/bin/bash
# seed_matrix_scratch.sh [tier] [glob] : like seed_matrix.sh but every seeded change is applied to its own
# scratch copy of /repo/Lib (VERIF_REPO), four at a time; /repo is never touched.
TIER="${1:-quick}"; GLOB="${2:-C*_*}"
cd /verif
export VERIF_NO_EVIDENCE=1 TIER
one() {
  ID="$1"; PROP="${ID%%_*}"
  D=$(mktemp -d /tmp/seedscrXXXX); cp -r /repo/Lib "$D/Lib"; ln -s /repo/Tests "$D/Tests"
  (cd "$D" && patch -s -p1 < "/verif/seeded/$ID/patch.diff") || { rm -rf "$D"; echo "$ID apply-failed"; return; }
  RES=$(VERIF_REPO="$D" /verif/bin/vcheck "$TIER" "$PROP" 2>&1); RC=$?
  rm -rf "$D"
  V=$(echo "$RES" | grep -c '^VIOLATION')
  FIRST=$(echo "$RES" | grep '^VIOLATION' | head -1 | sed 's/.*obligation=//' | cut -c1-150)
  echo "$ID $PROP exit=$RC violations=$V $FIRST"
}
export -f one
ls -d seeded/$GLOB | xargs -n1 basename | xargs -P 4 -I{} bash -c 'one {}' | sort
