#!/bin/bash
# mut.sh <file-relative-to-Lib/fontTools> <python-regex-from> <to> <prop> [vcheck args...] : run a check against a one-line mutant in a scratch copy
F="$1"; FROM="$2"; TO="$3"; PROP="$4"; shift 4
D=$(mktemp -d /tmp/mutXXXX); cp -r /repo/Lib "$D/Lib"
python3 - "$D/Lib/fontTools/$F" "$FROM" "$TO" <<'PY' || { rm -rf "$D"; exit 9; }
import sys,re
p,a,b=sys.argv[1:4]
s=open(p).read()
n=s.count(a)
if n<1: print("pattern not found"); sys.exit(1)
s=s.replace(a,b,1)
open(p,'w').write(s)
PY
VERIF_REPO="$D" /verif/bin/vcheck quick "$PROP" "$@" | grep -v "^UNDECIDED.*LEDGER" | tail -6
rm -rf "$D"
