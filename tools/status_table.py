#!/usr/bin/env python3
"""Print a per-property status table (markdown) from MANIFEST.json, evidence/*.json and seeded/MATRIX.quick.txt."""
import json, os, glob
V = os.path.dirname(os.path.dirname(os.path.abspath(__file__)))
man = json.load(open(os.path.join(V, "MANIFEST.json")))
matrix = {}
mp = os.path.join(V, "seeded", "MATRIX.quick.txt")
if os.path.exists(mp):
    for l in open(mp):
        parts = l.split()
        if len(parts) >= 3 and not l.startswith("#"):
            matrix[parts[0]] = " ".join(parts[2:])[:140]
print("| id | level | obligations discharged | functions under contract | bounded stand-ins (evaluations) | known findings | solver s | wall s |")
print("|----|-------|------------------------|--------------------------|--------------------------------|----------------|----------|--------|")
for c in man["checks"]:
    pid = c["property_id"]
    ev = os.path.join(V, "evidence", pid + ".json")
    if not os.path.exists(ev):
        print("| %s | %s | (no evidence yet) | | | | | |" % (pid, c["level_claimed"]["category"]))
        continue
    e = json.load(open(ev))
    cov = e["coverage"]
    fns = {f["name"] for f in cov.get("functions_under_contract", [])}
    b = cov.get("bounded", {})
    bev = sum((v.get("evaluations") or 0) for v in b.values())
    st = sum(v.get("solver_s", 0) for v in cov.get("by_backend", {}).values())
    print("| %s | %s | %s/%s | %d | %d (%d) | %s | %.1f | %.0f |" % (pid, e["level"], cov.get("discharged"), cov.get("obligations"), len(fns), len(b), bev,
                                                       ", ".join(cov.get("known_findings_reported", [])) or "-", st, e["wall_s"]))
print()
print("| seed | result of the property's quick check with the change applied |")
print("|------|---------------------------------------------------------------|")
for k in sorted(matrix):
    print("| %s | %s |" % (k, matrix[k]))
