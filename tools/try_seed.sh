#!/bin/bash
# try_seed.sh <seed-id> [tier] : apply a kept seeded change to /repo, run the property's check, undo it
ID="$1"; TIER="${2:-quick}"; PROP="${ID%%_*}"
cd /verif
export VERIF_NO_EVIDENCE=1
[ -z "$(git -C /repo status --porcelain)" ] || { echo "/repo not clean"; exit 3; }
git -C /repo apply "/verif/seeded/$ID/patch.diff" || exit 3
bin/vcheck "$TIER" "$PROP" "${@:3}"; RC=$?
git -C /repo checkout -- . 
echo "seed $ID tier $TIER -> exit $RC"
