#!/bin/bash
# seed_matrix.sh [tier] : run every kept seeded change against its property's check; writes seeded/MATRIX.txt
TIER="${1:-quick}"
cd /verif
export VERIF_NO_EVIDENCE=1
OUT=seeded/MATRIX.$TIER.txt
: > $OUT.tmp
[ -z "$(git -C /repo status --porcelain)" ] || { echo "/repo not clean"; exit 3; }
for d in seeded/C*_*; do
  ID=$(basename $d); PROP="${ID%%_*}"
  grep -q "\"$PROP\"" MANIFEST.json || { echo "$ID $PROP not-claimed" >> $OUT.tmp; continue; }
  python3 -c "import json,sys; m=json.load(open('MANIFEST.json')); sys.exit(0 if any(c['property_id']=='$PROP' for c in m['checks']) else 1)" || { echo "$ID $PROP not-claimed" >> $OUT.tmp; continue; }
  git -C /repo apply "/verif/$d/patch.diff" || { echo "$ID apply-failed" >> $OUT.tmp; continue; }
  RES=$(bin/vcheck $TIER $PROP 2>&1); RC=$?
  git -C /repo checkout -- .
  V=$(echo "$RES" | grep -c '^VIOLATION')
  FIRST=$(echo "$RES" | grep '^VIOLATION' | head -1 | sed 's/.*obligation=//')
  echo "$ID $PROP exit=$RC violations=$V $FIRST" >> $OUT.tmp
done
mv $OUT.tmp $OUT
cat $OUT
