#!/bin/bash
# try_seed_scratch.sh <seed-id|patch-file> <prop> [vcheck args] : apply a patch to a scratch copy of /repo/Lib
# (never to /repo) and run the property's quick check against the copy
ID="$1"; PROP="$2"; shift 2
P="$ID"; [ -f "$P" ] || P="/verif/seeded/$ID/patch.diff"; [ -f "$P" ] || P="/tmp/seedout/$ID/patch.diff"
D=$(mktemp -d /tmp/seedscrXXXX); cp -r /repo/Lib "$D/Lib"; ln -s /repo/Tests "$D/Tests"
(cd "$D" && patch -s -p1 < "$P") || { rm -rf "$D"; echo "patch failed"; exit 9; }
VERIF_NO_EVIDENCE=1 VERIF_REPO="$D" /verif/bin/vcheck "${TIER:-quick}" "$PROP" "$@" | grep -E "^(VIOLATION|UNDECIDED|CHECKER|CONTRACT|vcheck)" | cut -c1-260 | tail -8
rm -rf "$D"
