#!/usr/bin/env python3
"""Regenerate the generated parts of DESIGN.md section 8 (between <!-- BEGIN x --> / <!-- END x -->
markers) from MANIFEST.json, evidence/*.json, seeded/MATRIX.quick.txt, known_findings.json and
the live contract registry.  Run after a clean `tools/all_quick.sh` and `tools/seed_matrix_scratch.sh`."""
import json, os, re, subprocess, sys
V = os.path.dirname(os.path.dirname(os.path.abspath(__file__)))


def run(cmd):
    return subprocess.run(cmd, cwd=V, stdout=subprocess.PIPE, stderr=subprocess.DEVNULL, text=True).stdout


status = run(["python3", "tools/status_table.py"])
inventory = run(["python3-vt", "tools/inventory.py"])
k = json.load(open(os.path.join(V, "known_findings.json")))
fl = ["Repaired (one `fix:` commit each in /repo; the existing suite, unedited, passes: 4834 passed):", ""]
fl += ["* " + e for e in k["fixed"]]
fl += ["", "Listed as known findings (each check prints `KNOWN-FINDING:` for the ones it meets and exits 0; anything else is a VIOLATION):", ""]
for f in k["findings"]:
    props = ", ".join(f.get("properties") or [f["property"]])
    fl.append("* **%s** (%s): %s — *not repaired because:* %s" % (f["id"], props, f["what"], f.get("why_not_fixed", "-")))
findings = "\n".join(fl) + "\n"
parts = {"status": status, "inventory": inventory, "findings": findings}
p = os.path.join(V, "DESIGN.md")
s = open(p).read()
for name, text in parts.items():
    pat = re.compile(r"(<!-- BEGIN %s -->\n).*?(<!-- END %s -->)" % (name, name), re.S)
    if not pat.search(s):
        print("marker %s missing" % name)
        sys.exit(1)
    s = pat.sub(lambda m: m.group(1) + text + m.group(2), s)
open(p, "w").write(s)
print("DESIGN.md regenerated: %d findings, %d fixed" % (len(k["findings"]), len(k["fixed"])))
