"""C20(b) "text inputs are data, never code": a syntactic frame obligation over ALL of
Lib/fontTools - the set of call sites of eval / exec / compile / __import__ /
importlib.import_module / pickle / marshal / os.system / os.popen / subprocess equals the
committed allow-list (keyed by file, enclosing function, callee - so moving or reformatting
a listed call is harmless).  A new site anywhere is a violation naming file:line; so is a
listed eval/exec site whose argument now mentions a parameter of an enclosing
fromXML/xmlRead/read*/parse*/load* function.  Also: safeEval must be ast.literal_eval."""
import ast
import json
import os

from pyvc.bounded import bounded
from pyvc import loader

ALLOW = os.path.join(os.path.dirname(os.path.dirname(os.path.abspath(__file__))), "contracts", "effect_allowlist.json")
DANGEROUS_NAMES = {"eval", "exec", "compile", "__import__"}
DANGEROUS_ATTRS = {("importlib", "import_module"), ("pickle", "load"), ("pickle", "loads"), ("marshal", "load"),
                   ("marshal", "loads"), ("os", "system"), ("os", "popen"), ("subprocess", "*"), ("os", "execv"),
                   ("os", "execl"), ("os", "spawnl"), ("os", "spawnv"), ("builtins", "eval"), ("builtins", "exec")}
INPUT_FUNCS = ("fromXML", "xmlRead", "read", "parse", "load", "fromString", "decompile")


def scan():
    root = os.path.join(loader.LIB, "fontTools")
    sites = []
    for dp, dn, fn in os.walk(root):
        for f in fn:
            if not f.endswith(".py"):
                continue
            path = os.path.join(dp, f)
            rel = os.path.relpath(path, loader.LIB)
            try:
                tree = ast.parse(open(path, encoding="utf-8").read())
            except SyntaxError:
                continue
            stack = []

            def visit(node):
                is_def = isinstance(node, (ast.FunctionDef, ast.AsyncFunctionDef, ast.ClassDef))
                if is_def:
                    stack.append(node)
                if isinstance(node, ast.Call):
                    callee = None
                    fnode = node.func
                    if isinstance(fnode, ast.Name) and fnode.id in DANGEROUS_NAMES:
                        callee = fnode.id
                    elif isinstance(fnode, ast.Attribute) and isinstance(fnode.value, ast.Name):
                        for mod, attr in DANGEROUS_ATTRS:
                            if fnode.value.id == mod and (attr == "*" or fnode.attr == attr):
                                callee = "%s.%s" % (mod, fnode.attr)
                    if callee:
                        qual = ".".join(n.name for n in stack) or "<module>"
                        tainted = []
                        if callee in ("eval", "exec", "builtins.eval", "builtins.exec", "__import__", "importlib.import_module"):
                            params = set()
                            for d in stack:
                                if isinstance(d, (ast.FunctionDef, ast.AsyncFunctionDef)) and d.name.startswith(INPUT_FUNCS):
                                    params |= {a.arg for a in d.args.args + d.args.kwonlyargs if a.arg not in ("self", "cls")}
                            used = {n.id for a in node.args for n in ast.walk(a) if isinstance(n, ast.Name)}
                            tainted = sorted(params & used)
                        sites.append({"file": rel, "function": qual, "callee": callee, "line": node.lineno, "tainted_by": tainted})
                for ch in ast.iter_child_nodes(node):
                    visit(ch)
                if is_def:
                    stack.pop()

            visit(tree)
    return sites


def key(s):
    return "%s::%s::%s" % (s["file"], s["function"], s["callee"])


def summarize(sites):
    out = {}
    for s in sites:
        d = out.setdefault(key(s), {"count": 0, "tainted_by": []})
        d["count"] += 1
        d["tainted_by"] = sorted(set(d["tainted_by"]) | set(s["tainted_by"]))
    return out


@bounded(props=["C20"], kind="static", bound="all *.py under Lib/fontTools (syntactic scan, exhaustive over the tree)", quick=True)
def effect_scan(tier, seed):
    sites = scan()
    cur = summarize(sites)
    with open(ALLOW) as f:
        allow = json.load(f)
    violations = []
    for k, d in cur.items():
        a = allow.get(k)
        first = [s for s in sites if key(s) == k][0]
        if a is None or d["count"] > a["count"]:
            violations.append({"what": "new dynamic-code / process call site", "site": k, "line": first["line"],
                               "file": first["file"]})
        elif set(d["tainted_by"]) - set(a["tainted_by"]):
            violations.append({"what": "argument of a listed site now mentions an input parameter", "site": k,
                               "line": first["line"], "params": d["tainted_by"]})
    # safeEval must be ast.literal_eval
    tt = ast.parse(loader.source_of("fontTools.misc.textTools"))
    ok = False
    for n in ast.walk(tt):
        if isinstance(n, ast.Assign) and any(isinstance(t, ast.Name) and t.id == "safeEval" for t in n.targets):
            ok = isinstance(n.value, ast.Attribute) and n.value.attr == "literal_eval" and isinstance(n.value.value, ast.Name) and n.value.value.id == "ast"
    if not ok:
        violations.append({"what": "fontTools.misc.textTools.safeEval is not ast.literal_eval", "site": "misc/textTools.py::safeEval"})
    return {"evaluations": len(sites), "distinct_nontrivial": len(cur), "exhaustive": True,
            "rule": "one case per call site of a dynamic-code/process primitive found by the AST scan; distinct = (file, function, callee)",
            "samples": [sites[0]] if sites else [], "violations": violations}


if __name__ == "__main__":
    loader.ensure_repo_on_path()
    print(json.dumps(summarize(scan()), indent=1, sort_keys=True))
