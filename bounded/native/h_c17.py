"""C17: renumbering glyphs (ttLib.reorderGlyphs) or rescaling the em (ttLib.scaleUpem) changes
nothing else.  Every observation is made on the SAVED font through HarfBuzz (nominal glyphs,
advances, outlines, MATH/COLR queries, shaping) and compared per glyph NAME before vs after."""
import io
import os
from fractions import Fraction

from harness import check, Result
from _common import REPO

TESTS = os.path.join(REPO, "Tests")
PUA = 0xF0000


# ----------------------------------------------------------------------------- font helpers

def _save(font):
    b = io.BytesIO()
    font.save(b)
    return b.getvalue()


_BYTES = {}


def _corpus_bytes(rel):
    """Binary font for a corpus file (TTX sources are compiled once with the tree under test)."""
    from fontTools.ttLib import TTFont

    if rel not in _BYTES:
        path = os.path.join(TESTS, rel)
        if rel.endswith((".ttx", ".otx")):
            f = TTFont()
            f.importXML(path)
            _BYTES[rel] = _save(f)
        else:
            with open(path, "rb") as fh:
                _BYTES[rel] = fh.read()
    return _BYTES[rel]


def _open(data):
    from fontTools.ttLib import TTFont

    return TTFont(io.BytesIO(data))


def _with_pua_cmap(data):
    """Same font with one extra (3,10) format-12 cmap subtable = best Unicode cmap + a private-use
    code point for every glyph that has none, so that every glyph (and so every lookup) can be
    reached from text.  Returns (bytes, {glyph name: code point})."""
    from fontTools.ttLib.tables._c_m_a_p import CmapSubtable

    f = _open(data)
    order = f.getGlyphOrder()
    best = dict(f["cmap"].getBestCmap() or {})
    have = set(best.values())
    for i, g in enumerate(order):
        if g not in have and i:             # (a mapping to glyph 0 is dropped by the cmap compiler)
            best[PUA + i] = g
    if "OS/2" in f:
        f["OS/2"].version       # recompile: usLastCharIndex etc. are recalculated from the cmap
    st = CmapSubtable.newSubtable(12)
    st.platformID, st.platEncID, st.language, st.cmap = 3, 10, 0, best
    f["cmap"].tables = [t for t in f["cmap"].tables if (t.platformID, t.platEncID) != (3, 10)] + [st]
    char = {}
    for u, g in sorted(best.items()):
        char.setdefault(g, u)
    return _save(f), char


def _hb(data):
    import uharfbuzz as hb

    face = hb.Face(hb.Blob(data))
    return face, hb.Font(face)


def _outline(hbfont, gid):
    from fontTools.pens.recordingPen import RecordingPen

    pen = RecordingPen()
    hbfont.draw_glyph_with_pen(gid, pen)
    return tuple((op, tuple(pts)) for op, pts in pen.value)


SNAP_KINDS = ("h_advance", "v_advance", "outline", "extents", "v_origin", "cmap", "cmap variation sequences")


def _name(order, gid):
    # a cmap may point outside the font (AOTS cmap4_font4): such ids have no name to follow
    return order[gid] if gid is not None and gid < len(order) else "gid%r" % gid


def _glyph_snapshot(data, order, coords=None):
    """{name: h_advance}, {name: v_advance}, {name: outline}, {name: extents}, {name: vertical origin},
    {code point: name}, {(code point, selector): name}"""
    face, font = _hb(data)
    if coords:
        font.set_variations(coords)
    hadv, vadv, outl, ext, vorg = {}, {}, {}, {}, {}
    for gid, name in enumerate(order):
        hadv[name], vadv[name], outl[name] = font.get_glyph_h_advance(gid), font.get_glyph_v_advance(gid), _outline(font, gid)
        e = font.get_glyph_extents(gid)
        ext[name] = tuple(e) if e is not None else None
        vorg[name] = tuple(font.get_glyph_v_origin(gid) or ())
    cmap = {u: _name(order, font.get_nominal_glyph(u)) for u in face.unicodes}
    uvs = {}
    for vs in face.variation_selectors:
        for u in face.variation_unicodes(vs):
            uvs[(u, vs)] = _name(order, font.get_variation_glyph(u, vs))
    return hadv, vadv, outl, ext, vorg, cmap, uvs


def _layout_plans(font):
    """[(script tag, language tag or None)] and the feature dict enabling every feature."""
    scripts, feats = [], {}
    for tag in ("GSUB", "GPOS"):
        if tag not in font:
            continue
        t = font[tag].table
        if t.ScriptList:
            for sr in t.ScriptList.ScriptRecord:
                if (str(sr.ScriptTag), None) not in scripts:
                    scripts.append((str(sr.ScriptTag), None))
                for lr in sr.Script.LangSysRecord:
                    if (str(sr.ScriptTag), str(lr.LangSysTag)) not in scripts:
                        scripts.append((str(sr.ScriptTag), str(lr.LangSysTag)))
        if t.FeatureList:
            for fr in t.FeatureList.FeatureRecord:
                feats[str(fr.FeatureTag)] = True
    return scripts or [("DFLT", None)], feats


def _shape(hbfont, order, cps, script, lang, feats, direction="ltr", coords=None):
    import uharfbuzz as hb

    buf = hb.Buffer()
    buf.add_codepoints(list(cps))
    buf.direction = direction
    buf.script = hb.ot_tag_to_script(script) if script != "DFLT" else "Zyyy"
    if lang:
        buf.language = hb.ot_tag_to_language(lang)
    else:
        buf.language = "und"
    hb.shape(hbfont, buf, feats)
    return [(_name(order, i.codepoint), i.cluster, p.x_advance, p.y_advance, p.x_offset, p.y_offset)
            for i, p in zip(buf.glyph_infos, buf.glyph_positions)]


def _paint_events(hbfont, gid, order):
    """COLR paint-graph traversal by HarfBuzz with glyph ids replaced by names."""
    import uharfbuzz as hb

    ev = []
    pf = hb.PaintFuncs()

    def rec(kind):
        def fn(*a):
            a = a[:-1]
            if kind in ("push_clip_glyph", "color_glyph"):
                a = (_name(order, a[0]),)
            elif kind.endswith("gradient"):
                cl = a[0]
                a = (tuple((st.offset, tuple(st.color), st.is_foreground) for st in cl.color_stops), int(cl.extend)) + tuple(a[1:])
            elif kind == "color":
                a = (tuple(a[0]), a[1])
            elif kind == "pop_group":
                a = (int(a[0]),)
            ev.append((kind,) + tuple(a))
            return False if kind == "color_glyph" else None
        return fn

    for k in ("color", "color_glyph", "linear_gradient", "radial_gradient", "sweep_gradient", "pop_clip", "pop_group",
              "pop_transform", "push_clip_glyph", "push_clip_rectangle", "push_group", "push_transform"):
        getattr(pf, "set_%s_func" % k)(rec(k))
    hbfont.paint_glyph(gid, pf, None)
    return tuple(ev)


def _paint_geometry(events, outline_of):
    """The paint events with every transform applied: what is actually painted, in font units."""
    I = (1.0, 0.0, 0.0, 1.0, 0.0, 0.0)
    stack = [I]

    def mul(m, n):      # apply n first, then m; (xx, yx, xy, yy, dx, dy)
        return (m[0] * n[0] + m[2] * n[1], m[1] * n[0] + m[3] * n[1], m[0] * n[2] + m[2] * n[3], m[1] * n[2] + m[3] * n[3],
                m[0] * n[4] + m[2] * n[5] + m[4], m[1] * n[4] + m[3] * n[5] + m[5])

    def pt(m, x, y):
        return (m[0] * x + m[2] * y + m[4], m[1] * x + m[3] * y + m[5])

    out = []
    for e in events:
        kind, m = e[0], stack[-1]
        if kind == "push_transform":
            stack.append(mul(m, e[1:7]))
        elif kind == "pop_transform":
            stack.pop()
        elif kind == "push_clip_glyph":
            out.append(("clip glyph", e[1], tuple((op, tuple(pt(m, x, y) for x, y in pts)) for op, pts in outline_of(e[1]))))
        elif kind == "push_clip_rectangle":
            xmin, ymin, xmax, ymax = e[1:5]
            out.append(("clip rectangle", tuple(pt(m, x, y) for x, y in ((xmin, ymin), (xmax, ymin), (xmax, ymax), (xmin, ymax)))))
        elif kind == "linear_gradient":
            out.append(("linear", repr(e[1:3]), tuple(pt(m, e[i], e[i + 1]) for i in (3, 5, 7))))
        elif kind == "radial_gradient":
            sc = abs(m[0] * m[3] - m[1] * m[2]) ** 0.5
            out.append(("radial", repr(e[1:3]), pt(m, e[3], e[4]), e[5] * sc, pt(m, e[6], e[7]), e[8] * sc))
        elif kind == "sweep_gradient":
            out.append(("sweep", repr(e[1:3]), pt(m, e[3], e[4]), repr(e[5:])))
        elif kind != "color_glyph":
            out.append((kind, repr(e[1:])))
    return tuple(out)


def _extra_observables(data, order):
    """{key: value} of everything else that is addressed by glyph: GDEF classes (HarfBuzz), GDEF
    attachment points / ligature carets / mark glyph sets (by name), MATH queries and COLR layers
    and paint graphs (HarfBuzz)."""
    import uharfbuzz as hb

    face, font = _hb(data)
    out = {}
    if face.has_layout_glyph_classes:
        for gid, n in enumerate(order):
            out[("GDEF class", n)] = int(face.get_layout_glyph_class(gid))
    f = _open(data)
    f.setGlyphOrder(list(order))        # post format 3 fonts: the names are the ones we know
    if "GDEF" in f:
        t = f["GDEF"].table
        if getattr(t, "AttachList", None):
            for g, ap in zip(t.AttachList.Coverage.glyphs, t.AttachList.AttachPoint):
                out[("GDEF attach", g)] = tuple(ap.PointIndex)
        if getattr(t, "LigCaretList", None):
            for g, lg in zip(t.LigCaretList.Coverage.glyphs, t.LigCaretList.LigGlyph):
                out[("GDEF caret", g)] = tuple(("format %d" % c.Format, getattr(c, "Coordinate", None), "point %r" % getattr(c, "CaretValuePoint", None)) for c in lg.CaretValue)
        if getattr(t, "MarkGlyphSetsDef", None):
            for i, c in enumerate(t.MarkGlyphSetsDef.Coverage):
                out[("GDEF markset", i)] = frozenset(c.glyphs) if c is not None else None
    if face.has_math_data:
        for c in hb.OTMathConstant:
            out[("MATH const", c.name)] = font.get_math_constant(c)
        for d in ("ltr", "ttb"):
            out[("MATH overlap", d)] = font.get_math_min_connector_overlap(d)
        for gid, n in enumerate(order):
            v = [font.get_math_glyph_italics_correction(gid), font.get_math_glyph_top_accent_attachment(gid),
                 bool(face.is_glyph_extended_math_shape(gid))]
            for k in hb.OTMathKern:
                v.append(tuple(tuple(e) for e in font.get_math_glyph_kernings(gid, k)))
            u = []      # stored as plain uint16 font-unit fields, not MathValueRecords
            for d in ("ltr", "ttb"):
                u.append(tuple((_name(order, x.glyph), x.advance) for x in font.get_math_glyph_variants(gid, d)))
                parts, ic = font.get_math_glyph_assembly(gid, d)
                u.append(tuple((_name(order, x.glyph), x.start_connector_length, x.end_connector_length, x.full_advance, "flags %d" % int(x.flags)) for x in parts))
                v.append(ic)
            out[("MATH glyph", n)] = tuple(v)
            if any(u):
                out[("MATH glyph variants/parts", n)] = tuple(u)
    if face.has_color_layers or face.has_color_paint:
        for gid, n in enumerate(order):
            out[("COLR layers", n)] = tuple((_name(order, l.glyph), l.color_index) for l in face.get_glyph_color_layers(gid))
            if face.has_color_paint:
                ev = _paint_events(font, gid, order)
                out[("COLR paint", n)] = ev
                out[("COLR geometry", n)] = _paint_geometry(ev, lambda g: _outline(font, order.index(g)) if g in order else ())
            e = font.get_glyph_extents(gid)
            out[("COLR extents", n)] = tuple(e) if e is not None else None
    return out


# -------------------------------------------------------------- lookup-derived test sequences

def _pick(glyphs, rnd):
    glyphs = list(glyphs)
    return rnd.choice(glyphs) if glyphs else None


def _class_members(classdef, coverage_or_all, all_glyphs):
    """{class value: [glyphs]} including class 0 (= everything not listed)."""
    d = {}
    cd = classdef.classDefs if classdef is not None else {}
    for g in all_glyphs:
        d.setdefault(cd.get(g, 0), []).append(g)
    return d


def _subtable_seeds(st, all_glyphs, rnd):
    """Glyph-name sequences matching the input (with context) of one lookup subtable."""
    n = type(st).__name__
    out = []
    if n in ("ExtensionSubst", "ExtensionPos"):
        return _subtable_seeds(st.ExtSubTable, all_glyphs, rnd)
    if n in ("SingleSubst", "MultipleSubst"):
        out += [(g,) for g in st.mapping]
    elif n == "AlternateSubst":
        out += [(g,) for g in st.alternates]
    elif n == "LigatureSubst":
        for first, ligs in st.ligatures.items():
            out += [(first,) + tuple(l.Component) for l in ligs]
    elif n == "SinglePos":
        out += [(g,) for g in st.Coverage.glyphs]
    elif n == "PairPos" and st.Format == 1:
        for first, ps in zip(st.Coverage.glyphs, st.PairSet):
            out += [(first, pvr.SecondGlyph) for pvr in ps.PairValueRecord]
    elif n == "PairPos" and st.Format == 2:
        c2 = _class_members(st.ClassDef2, None, all_glyphs)
        for first in st.Coverage.glyphs:
            for k, members in sorted(c2.items()):
                out.append((first, rnd.choice(members)))
    elif n == "CursivePos":
        g = st.Coverage.glyphs
        out += [(a, b) for a in g[:6] for b in g[:6]] + [tuple(g[:5])]
    elif n in ("MarkBasePos", "MarkLigPos", "MarkMarkPos"):
        marks = (st.Mark1Coverage if n == "MarkMarkPos" else st.MarkCoverage).glyphs
        bases = (st.BaseCoverage if n == "MarkBasePos" else st.LigatureCoverage if n == "MarkLigPos" else st.Mark2Coverage).glyphs
        for b in bases[:8]:
            for m in marks[:8]:
                out.append((b, m))
                out.append((b, m, rnd.choice(marks)))
    elif n == "ReverseChainSingleSubst":
        for g in st.Coverage.glyphs:
            back = [_pick(c.glyphs, rnd) for c in st.BacktrackCoverage]
            ahead = [_pick(c.glyphs, rnd) for c in st.LookAheadCoverage]
            out.append(tuple(reversed(back)) + (g,) + tuple(ahead))
    elif n in ("ContextSubst", "ContextPos", "ChainContextSubst", "ChainContextPos"):
        chain = n.startswith("Chain")
        typ = "Sub" if n.endswith("Subst") else "Pos"
        pre = ("Chain" if chain else "") + typ
        if st.Format == 1:
            for first, rs in zip(st.Coverage.glyphs, getattr(st, pre + "RuleSet")):
                for rule in (getattr(rs, pre + "Rule") if rs else []):
                    back = tuple(reversed(rule.Backtrack)) if chain else ()
                    ahead = tuple(rule.LookAhead) if chain else ()
                    out.append(back + (first,) + tuple(rule.Input) + ahead)
        elif st.Format == 2:
            icd = st.InputClassDef if chain else st.ClassDef
            im = _class_members(icd, None, all_glyphs)
            bm = _class_members(st.BacktrackClassDef, None, all_glyphs) if chain else {}
            am = _class_members(st.LookAheadClassDef, None, all_glyphs) if chain else {}
            cov = set(st.Coverage.glyphs)
            for k, cs in enumerate(getattr(st, pre + "ClassSet")):
                firsts = [g for g in im.get(k, []) if g in cov]
                for rule in (getattr(cs, pre + "ClassRule") if cs else []):
                    if not firsts:
                        continue
                    try:
                        back = tuple(rnd.choice(bm[c]) for c in reversed(rule.Backtrack)) if chain else ()
                        ahead = tuple(rnd.choice(am[c]) for c in rule.LookAhead) if chain else ()
                        inp = tuple(rnd.choice(im[c]) for c in (rule.Input if chain else rule.Class))
                    except KeyError:
                        continue        # rule names an empty class: can never match
                    out.append(back + (rnd.choice(firsts),) + inp + ahead)
        elif st.Format == 3:
            covs = st.InputCoverage if chain else st.Coverage
            for _ in range(4):
                back = [_pick(c.glyphs, rnd) for c in st.BacktrackCoverage] if chain else []
                ahead = [_pick(c.glyphs, rnd) for c in st.LookAheadCoverage] if chain else []
                out.append(tuple(reversed(back)) + tuple(_pick(c.glyphs, rnd) for c in covs) + tuple(ahead))
    return [s for s in out if s and None not in s]


def _seed_sequences(font, rnd, limit=400):
    all_glyphs = font.getGlyphOrder()
    seeds = []
    for tag in ("GSUB", "GPOS"):
        if tag in font and font[tag].table.LookupList:
            for lookup in font[tag].table.LookupList.Lookup:
                for st in lookup.SubTable:
                    seeds += _subtable_seeds(st, all_glyphs, rnd)
    if "kern" in font:
        for kt in font["kern"].kernTables:
            if hasattr(kt, "kernTable"):
                seeds += list(kt.kernTable.keys())
    seeds = sorted(set(seeds))
    if len(seeds) > limit:
        seeds = rnd.sample(seeds, limit)
    return seeds


def _texts(font, char, rnd, n_random):
    """Code-point sequences: every lookup-derived seed alone and embedded, plus random strings."""
    order = font.getGlyphOrder()
    seeds = _seed_sequences(font, rnd)
    hot = sorted({g for s in seeds for g in s}) or order
    texts = []
    for s in seeds:
        texts.append(s)
        texts.append((rnd.choice(hot),) + s + (rnd.choice(order),))
    for _ in range(n_random):
        k = rnd.randint(1, 7)
        texts.append(tuple(rnd.choice(hot if rnd.random() < 0.7 else order) for _ in range(k)))
    if seeds:
        for _ in range(n_random // 2):
            texts.append(rnd.choice(seeds) + rnd.choice(seeds))
    return [tuple(char[g] for g in t) for t in texts if all(g in char for g in t)]


def _permutations(order, rnd, count):
    """Glyph orders keeping .notdef (glyph 0) first: reversal, rotation, adjacent swaps, shuffles."""
    rest = order[1:]
    if len(rest) < 2:
        return []
    perms = [list(reversed(rest)), rest[1:] + rest[:1]]
    sw = list(rest)
    for i in range(0, len(sw) - 1, 2):
        sw[i], sw[i + 1] = sw[i + 1], sw[i]
    perms.append(sw)
    while len(perms) < count + 3:
        perms.append(rnd.sample(rest, len(rest)))
    rnd.shuffle(perms)
    res = []
    for p in perms:
        if p != rest and p not in res:
            res.append(p)
    return [order[:1] + p for p in res[:count]]


def _locations(font):
    """Default location plus two non-default ones for variable fonts."""
    if "fvar" not in font:
        return [None]
    axes = font["fvar"].axes
    a = {x.axisTag: x.minValue + (x.maxValue - x.minValue) * 0.75 for x in axes}
    b = {x.axisTag: (x.minValue if i % 2 else x.maxValue) for i, x in enumerate(axes)}
    return [None, a, b]


def _shaping_plans(plans, feats):
    """(script, language, direction, features): every script/language and direction with all
    features on (and with alternates 2 and 3 selected), then each feature alone."""
    out = []
    all_on = tuple(sorted(feats.items()))
    for script, lang in plans[:4]:
        for direction in ("ltr", "rtl"):
            out.append((script, lang, direction, all_on))
    script, lang = plans[-1] if len(plans) > 1 else plans[0]
    if len(feats) > 1:
        for k in (2, 3):
            out.append((script, lang, "ltr", tuple(sorted((t, k) for t in feats))))
        for tag in sorted(feats):
            out.append((script, lang, "ltr", tuple(sorted((t, t == tag) for t in feats))))
    return out


def _compare_reorder(r, label, data, rnd, perms, n_random, extra=_extra_observables, lazy_modes=(None,)):
    """Reorder `data` by `perms` permutations and compare every HarfBuzz observable by name."""
    from fontTools.ttLib.reorderGlyphs import reorderGlyphs

    probe = _open(data)
    names = set(probe.getGlyphOrder())
    if any(g not in names for t in probe["cmap"].tables for g in t.cmap.values()):
        return 0        # cmap points outside the font (AOTS cmap4_font4): no glyph to follow by name
    data, char = _with_pua_cmap(data)
    unchar = {u: g for g, u in char.items()}
    before = _open(data)
    order = before.getGlyphOrder()
    before.ensureDecompiled()
    locations = _locations(before)
    snap0 = [_glyph_snapshot(data, order, loc) for loc in locations]
    plans, feats = _layout_plans(before)
    texts = _texts(before, char, rnd, n_random)
    _, hb0 = _hb(data)
    shaped0 = {}
    for script, lang, direction, fp in _shaping_plans(plans, feats):
        fd = dict(fp)
        for t in texts:
            shaped0[(script, lang, direction, fp, t)] = _shape(hb0, order, t, script, lang, fd, direction)
    extra0 = extra(data, order) if extra else None
    implicit_var = set()
    if "HVAR" in before and before["HVAR"].table.AdvWidthMap is None:
        implicit_var.add("h_advance")
    if "VVAR" in before and before["VVAR"].table.AdvHeightMap is None:
        implicit_var.add("v_advance")

    def one(new, touch, lazy=None):
        from fontTools.ttLib import TTFont
        font = TTFont(io.BytesIO(data), lazy=lazy)
        if touch:
            font["CFF2"].cff.topDictIndex[0].CharStrings
        try:
            reorderGlyphs(font, new)
        except Exception as e:
            # an optional (NULL-offset) Coverage, e.g. MathVariants with only vertical constructions
            null_cov = isinstance(e, AttributeError) and "'NoneType' object has no attribute 'glyphs'" in str(e)
            return [("reorderGlyphs raised %s: %s" % (type(e).__name__, str(e)[:120]), "C17-reorder-null-coverage" if null_cov else None)]
        if font.getGlyphOrder() != new:
            return [("getGlyphOrder() after reorderGlyphs is not the requested order", None)]
        fails = []
        data1 = _save(font)
        for loc, s0 in zip(locations, snap0):
            s1 = _glyph_snapshot(data1, new, loc)
            for what, a, b in zip(SNAP_KINDS, s0, s1):
                if a != b:
                    bad = sorted(k for k in set(a) | set(b) if a.get(k) != b.get(k))[:4]
                    # HVAR / VVAR without an advance DeltaSetIndexMap address their deltas by glyph ID
                    # (HarfBuzz derives the vertical origin from the advances when the font has none)
                    kid = None
                    fails.append(("%s at %s differs by name after reordering, e.g. %r" % (what, loc or "default", bad), kid))
        _, hb1 = _hb(data1)
        for (script, lang, direction, fp, t), want in shaped0.items():
            got = _shape(hb1, new, t, script, lang, dict(fp), direction)
            if got != want:
                on = [k for k, v in fp if v]
                fails.append(("shaping %s (%s/%s %s, features %s) changed after reordering: %r -> %r" % (
                    [unchar[u] for u in t], script, lang, direction, on if len(on) < 3 else "all", want, got), None))
                break
        if extra:
            e1 = extra(data1, new)
            if e1 != extra0:
                bad = sorted((k for k in set(e1) | set(extra0) if e1.get(k) != extra0.get(k)), key=repr)[:4]
                fails.append(("%r differ by name after reordering" % (bad,), None))
        return fails

    for new, lazy in [(n_, l_) for n_ in _permutations(order, rnd, perms) for l_ in lazy_modes]:
        r.case((label, tuple(new[1:4]), lazy))
        fails = one(new, False, lazy)
        if lazy is not None:
            fails = [("(TTFont lazy=%r) %s" % (lazy, m), k) for m, k in fails]
        for m, k in fails:
            r.fail("%s, order %s...: %s" % (label, new[:6], m), known_id=k)
    return len(shaped0)


# ----------------------------------------------------------------------------------- corpus

REORDER_CORPUS = [
    "ttLib/data/Test-Regular.ttf", "ttLib/data/TestVGID-Regular.otf", "ttLib/data/I.ttf", "ttLib/data/I.otf",
    "ttLib/data/duplicate_glyph_name.ttf", "ttLib/data/varc-ac00-ac01.ttf", "ttx/data/TestTTF.ttf", "ttx/data/TestOTF.otf",
    "subset/data/Lobster.subset.otf", "subset/data/TestCID-Regular.ttx", "subset/data/NotoSansCJKjp-Regular.subset.ttx",
    "subset/data/TestMATH-Regular.ttx", "subset/data/test_math_closure.ttx", "subset/data/TestCLR-Regular.ttx",
    "subset/data/BungeeColor-Regular.ttx", "subset/data/Andika-Regular.subset.ttx", "subset/data/TestContextSubstFormat3.ttx",
    "subset/data/layout_scripts.ttx", "subset/data/harfbuzz_repacker.ttx", "subset/data/cmap14_font1.ttx",
    "subset/data/TestBASE.ttx", "subset/data/TestHVVAR.ttx", "subset/data/TestGVAR.ttx",
    "subset/data/GPOS_PairPos_Format2_PR_2221.ttx", "subset/data/GPOS_SinglePos_no_value_issue_2312.ttx",
    "cffLib/data/TestFDSelect4.ttx", "cffLib/data/TestSparseCFF2VF.ttx", "cffLib/data/TestCFF2Widths.ttx",
    "merge/data/CFFFont2.ttx", "ttLib/tables/data/COLRv1-clip-boxes-glyf.ttx", "ttLib/tables/data/COLRv1-clip-boxes-cff.ttx",
    "qu2cu/data/NotoSansArabic-Regular.quadratic.subset.ttf", "ttLib/tables/data/NotoSans-VF-cubic.subset.ttf",
    "ttLib/tables/data/Amstelvar-avar2.subset.ttf", "varLib/data/MutatorSans_All_Variable.ttx",
    "varLib/data/master_ttx_varfont_otf/TestCFF2VF.ttx", "varLib/instancer/data/PartialInstancerTest2-VF.ttx",
    "varLib/instancer/data/CFF2Instancer-VF-1.ttx", "varLib/data/master_ttx_interpolatable_ttf/TestFamily4-Italic15.ttx",
    "voltLib/data/Nutso.ttf",
]
REORDER_CORPUS_THOROUGH = ["cffLib/data/LinLibertine_RBI.otf", "merge/data/CFFFont1.ttx", "varLib/instancer/data/PartialInstancerTest-VF.ttx",
                           "varLib/instancer/data/CFF2Instancer-VF-3.ttx", "ttLib/data/varc-6868.ttf", "ttLib/data/varc-ac01-conditional.ttf"]


def _aots():
    d = os.path.join(TESTS, "ttLib", "tables", "data", "aots")
    return sorted("ttLib/tables/data/aots/" + f for f in os.listdir(d) if f.endswith(".otf"))


@check("C17")
def reorder_corpus_fonts_by_name(tier, rnd):
    """For corpus fonts (TrueType, CFF, CID-keyed CFF, CFF2, variable, COLR, MATH, Arabic, every
    AOTS lookup-type font) and permutations of the glyph order keeping glyph 0: after
    reorderGlyphs + save, HarfBuzz reports for every glyph NAME the same advance and outline, the
    same cmap / variation-sequence mapping, and shapes every lookup-derived and random text (all
    features on, every script/language, both directions) to the same named glyphs, clusters and
    positions.  Every glyph is made reachable through an added private-use cmap subtable."""
    r = Result("corpus fonts x {reversal, rotation, adjacent swaps, seeded shuffles}; texts = inputs of every lookup subtable + random strings; distinct = (font, first glyphs of the new order)")
    aots = _aots()
    if tier == "quick":
        fonts = REORDER_CORPUS + [a for i, a in enumerate(aots) if "gsub" in a or "gpos" in a or "lookupflag" in a or "classdef" in a][::6]
        perms, n_random = 2, 30
    else:
        fonts = REORDER_CORPUS + REORDER_CORPUS_THOROUGH + aots
        perms, n_random = 5, 120
    n = 0
    for rel in fonts:
        data = _corpus_bytes(rel)
        n = _compare_reorder(r, rel, data, rnd, perms, n_random)
    r.sample({"fonts": len(fonts), "permutations_each": perms, "texts_last_font": n})
    return r


# ------------------------------------------------------------------------- generated fonts

def _rect_font(order, cmap, advances, upem=1000):
    """TrueType font whose glyph i is a distinct rectangle (so that outlines identify names)."""
    from fontTools.fontBuilder import FontBuilder
    from fontTools.pens.ttGlyphPen import TTGlyphPen

    fb = FontBuilder(upem, isTTF=True)
    fb.setupGlyphOrder(order)
    fb.setupCharacterMap(cmap)
    glyphs = {}
    for i, name in enumerate(sorted(order)):
        pen = TTGlyphPen(None)
        if name not in ("space", ".notdef"):
            w, h = 60 + 13 * i, 150 + 7 * i
            pen.moveTo((20, -5 * (i % 7)))
            pen.lineTo((20, h))
            pen.lineTo((20 + w, h))
            pen.lineTo((20 + w, -5 * (i % 7)))
            pen.closePath()
        glyphs[name] = pen.glyph()
    fb.setupGlyf(glyphs)
    fb.setupHorizontalMetrics({n: (advances[n], 20) for n in order})
    fb.setupHorizontalHeader(ascent=800, descent=-200)
    fb.setupNameTable({"familyName": "C17Gen", "styleName": "Regular"})
    fb.setupOS2(sTypoAscender=800, sTypoDescender=-200, usWinAscent=900, usWinDescent=250, sxHeight=480, sCapHeight=700)
    fb.setupPost(underlinePosition=-75, underlineThickness=50)
    return fb.font


def _layout_font(rnd, kern_table=False):
    """Random feature file over a shuffled glyph set using every GSUB (1-8) and GPOS (1-9) lookup
    type, lookup flags, mark filtering sets, extension lookups and a GDEF with attachment points
    and ligature carets; optionally a format-0 'kern' table instead of a GPOS kern feature."""
    from fontTools.feaLib.builder import addOpenTypeFeaturesFromString

    bases = ["g%02d" % i for i in range(26)]
    marks = ["mk%d" % i for i in range(6)]
    ligs = ["lig%d" % i for i in range(4)]
    alts = ["alt%d" % i for i in range(8)]
    rest = bases + marks + ligs + alts
    rnd.shuffle(rest)
    order = [".notdef", "space"] + rest
    cmap = {32: "space"}
    for i, g in enumerate(bases):
        cmap[0x41 + i] = g
    for i, g in enumerate(marks):
        cmap[0x300 + i] = g
    adv = {g: (0 if g in marks else rnd.randrange(300, 900)) for g in order}
    font = _rect_font(order, cmap, adv)

    def some(k, pool=bases):
        return rnd.sample(pool, k)

    def cls(gl):
        return "[" + " ".join(gl) + "]"

    def anchor():
        return "<anchor %d %d>" % (rnd.randrange(-50, 600), rnd.randrange(-200, 800))

    v = lambda: rnd.choice([-80, -35, -10, 15, 40, 120])
    top, bot = marks[:3], marks[3:]
    L = ["languagesystem DFLT dflt;", "languagesystem latn dflt;", "languagesystem latn TRK;"]
    for m in top:
        L.append("markClass %s %s @TOP;" % (m, anchor()))
    for m in bot:
        L.append("markClass %s %s @BOT;" % (m, anchor()))
    L.append("@TOPSET = %s; @BOTSET = %s;" % (cls(top), cls(bot)))
    a = some(2)
    L.append("table GDEF { GlyphClassDef %s, %s, %s, ; Attach %s 1 3; Attach %s 2; LigatureCaretByPos %s 300 600; LigatureCaretByPos %s 450; LigatureCaretByIndex %s 2; } GDEF;" % (
        cls(bases + alts), cls(ligs), cls(marks), a[0], a[1], ligs[0], ligs[2], ligs[1]))
    s = some(8)
    L.append("lookup SINGLE { sub %s by %s; sub %s by %s; sub %s by %s; } SINGLE;" % (s[0], s[1], s[2], s[3], s[4], alts[0]))
    s2 = some(6)
    L.append("lookup SINGLE2 { sub %s by %s; } SINGLE2;" % (cls(s2[:3]), cls(s2[3:])))
    m = some(7)
    L.append("lookup MULT { sub %s by %s %s; sub %s by %s %s %s; } MULT;" % tuple(m))
    t = some(3)
    L.append("lookup ALT { sub %s from %s; sub %s from %s; sub %s from %s; } ALT;" % (t[0], cls(alts[:3]), t[1], cls(alts[3:5]), t[2], cls(alts[5:])))
    g = some(9)
    L.append("lookup LIGA { sub %s %s by %s; sub %s %s %s by %s; sub %s %s by %s; sub %s %s by %s; } LIGA;" % (
        g[0], g[1], ligs[0], g[0], g[2], g[3], ligs[1], g[4], g[5], ligs[2], g[6], g[7], ligs[3]))
    rb, rc, ra, rs = some(3), some(4), some(2), some(4)
    L.append("lookup RSUB { rsub %s %s' %s by %s; } RSUB;" % (cls(rb), cls(rc), cls(ra), cls(rs)))
    rc2, rs2 = some(3), some(3, alts)
    L.append("lookup RSUB2 { lookupflag IgnoreMarks; rsub %s' by %s; } RSUB2;" % (cls(rc2), cls(rs2)))
    c = some(6)
    L.append("lookup CTXSUB { sub %s %s' lookup SINGLE2 %s' lookup SINGLE %s; sub %s' lookup SINGLE2 %s; } CTXSUB;" % (
        cls(c[:2]), cls(s2[:3]), cls([s[0], s[2]]), cls(c[2:4]), cls(s2[:2]), c[4]))
    L.append("lookup CTXSUB2 useExtension { lookupflag UseMarkFilteringSet @TOPSET; sub %s' lookup MULT %s; } CTXSUB2;" % (m[0], cls(c[:3])))
    # glyph-only rule sets (format 1 candidates), class rule sets (format 2), with and without context
    f1 = some(8)
    L.append("lookup CTXF1 { sub %s' lookup SINGLE2 %s; sub %s' lookup SINGLE %s; sub %s' lookup SINGLE2 %s %s; sub %s' lookup SINGLE %s; sub %s %s' lookup SINGLE2 %s; } CTXF1;" % (
        s2[0], f1[0], s[0], f1[1], s2[1], f1[2], f1[3], s[2], f1[0], f1[4], s2[2], f1[5]))
    L.append("lookup CTXF1N { sub %s' lookup SINGLE2 %s' lookup SINGLE; sub %s' lookup SINGLE %s'; sub %s' lookup SINGLE2 %s' %s'; } CTXF1N;" % (
        s2[0], s[0], s[2], f1[6], s2[1], f1[7], f1[0]))
    ca, cb, cc = some(3), some(3), some(2)
    ca, cb = [x for x in ca if x not in cc], [x for x in cb if x not in ca + cc]
    if ca and cb:
        L.append("lookup CTXF2 { sub %s' lookup SINGLE2 %s; sub %s' lookup SINGLE %s %s; sub %s %s' lookup SINGLE2; } CTXF2;" % (
            cls(ca), cls(cb), cls(cb), cls(cc), cls(ca), cls(cc), cls(ca)))
    else:
        L.append("lookup CTXF2 { sub %s' lookup SINGLE2 %s; } CTXF2;" % (cls(cc), cls(cc)))
    p = some(8)
    L.append("lookup SPOS { pos %s <%d %d %d 0>; pos %s <0 0 %d 0>; } SPOS;" % (p[0], v(), v(), v(), cls(p[1:3]), v()))
    L.append("lookup SPOS2 { pos %s <%d 0 0 0>; pos %s <0 %d %d 0>; pos %s %d; } SPOS2;" % (p[3], v(), p[4], v(), v(), p[5], v()))
    k = some(10)
    pair = "pos %s %s %d; pos %s <%d 0 %d 0> %s <0 0 %d 0>; pos %s %s %d; pos %s %s %d;" % (
        k[0], k[1], v(), k[0], v(), v(), k[2], v(), k[3], k[4], v(), k[5], k[1], v())
    pair += " " + " ".join("pos %s %s %d;" % (k[6], x, v()) for x in some(7))
    pair2 = "pos %s %s %d; pos %s %s %d;" % (cls(k[:3]), cls(k[3:6]), v(), cls(k[6:8]), cls(k[8:] + k[:1]), v())
    L.append("lookup PAIR { %s } PAIR;" % pair)
    L.append("lookup PAIRCLS { lookupflag IgnoreMarks; %s } PAIRCLS;" % pair2)
    cu = some(5)
    L.append("lookup CURS { %s } CURS;" % " ".join("pos cursive %s %s %s;" % (x, anchor(), anchor()) for x in cu))
    mb = some(6)
    L.append("lookup MARK { %s } MARK;" % " ".join("pos base %s %s mark @TOP %s mark @BOT;" % (x, anchor(), anchor()) for x in mb))
    L.append("lookup MLIG { pos ligature %s %s mark @TOP ligComponent %s mark @TOP; pos ligature %s %s mark @BOT ligComponent <anchor NULL> ligComponent %s mark @BOT; } MLIG;" % (
        ligs[0], anchor(), anchor(), ligs[1], anchor(), anchor()))
    L.append("lookup MKMK { lookupflag MarkAttachmentType @TOP; %s } MKMK;" % " ".join("pos mark %s %s mark @TOP;" % (x, anchor()) for x in top))
    L.append("lookup CTXPOS { pos %s' lookup SPOS %s' lookup SPOS2 %s; pos %s %s' lookup SPOS2; } CTXPOS;" % (
        cls(p[:3]), cls(p[3:6]), cls(p[6:]), cls(p[6:]), p[3]))
    L.append("lookup POSF1 { pos %s' lookup SPOS %s; pos %s' lookup SPOS2 %s; pos %s' lookup SPOS %s %s; pos %s %s' lookup SPOS2; } POSF1;" % (
        p[0], f1[0], p[3], f1[1], p[1], f1[2], f1[3], f1[4], p[4]))
    L.append("lookup POSF2 { pos %s' lookup SPOS %s; pos %s' lookup SPOS2 %s; } POSF2;" % (cls(p[:3]), cls(p[3:6]), cls(p[3:6]), cls(p[:3])))
    L.append("lookup CHAINPOS useExtension { pos %s %s' lookup PAIR %s' %s; } CHAINPOS;" % (cls(k[6:9]), k[0], cls(k[1:3]), cls(some(3))))
    feats = [("ss01", "SINGLE"), ("ss02", "SINGLE2"), ("ccmp", "MULT"), ("salt", "ALT"), ("liga", "LIGA"), ("rsb1", "RSUB"),
             ("rsb2", "RSUB2"), ("calt", "CTXSUB"), ("clig", "CTXSUB2"), ("cf01", "CTXF1"), ("cf02", "CTXF1N"), ("cf03", "CTXF2"), ("pf01", "POSF1"), ("pf02", "POSF2"), ("cpsp", "SPOS"), ("cps2", "SPOS2"),
             ("kern", "PAIR"), ("kern", "PAIRCLS"), ("curs", "CURS"), ("mark", "MARK"), ("mark", "MLIG"), ("mkmk", "MKMK"),
             ("cpos", "CTXPOS"), ("chps", "CHAINPOS")]
    if kern_table:
        feats = [("krn1" if f == "kern" else f, l) for f, l in feats]
    done = []
    for f, _ in feats:
        if f not in done:
            done.append(f)
            L.append("feature %s { %s } %s;" % (f, " ".join("lookup %s;" % l for ff, l in feats if ff == f), f))
    fea = "\n".join(L)
    addOpenTypeFeaturesFromString(font, fea)
    if kern_table:
        from fontTools.ttLib import newTable
        from fontTools.ttLib.tables._k_e_r_n import KernTable_format_0

        kern = font["kern"] = newTable("kern")
        kern.version = 0
        sub = KernTable_format_0()
        sub.version, sub.coverage, sub.apple, sub.tupleIndex = 0, 1, False, None
        sub.kernTable = {(x, y): v() for x in some(6) for y in some(5)}
        kern.kernTables = [sub]
    return _save(font), fea


@check("C17")
def reorder_generated_every_lookup_type(tier, rnd):
    """Fonts generated from random feature files that use every GSUB lookup type (incl. type 8
    ReverseChainSingleSubst with 3-4 covered glyphs and a parallel Substitute array, type 7
    extensions) and every GPOS type (single, pair glyph/class, cursive, mark-base/-ligature/-mark,
    chained context, extension), lookup flags, mark filtering sets, GDEF attachment points and
    ligature carets, and (every other font) a format-0 'kern' table instead of a GPOS kern feature:
    same contract as reorder_corpus_fonts_by_name, plus every feature shaped on its own."""
    r = Result("seeded random feature files over a shuffled 46-glyph set x {reversal, rotation, swaps, shuffles}; distinct = (font seed, first glyphs of the new order)")
    n_fonts, perms, n_random = (4, 3, 40) if tier == "quick" else (30, 5, 120)
    n = 0
    for i in range(n_fonts):
        data, fea = _layout_font(rnd, kern_table=bool(i % 2))
        n = _compare_reorder(r, "generated#%d%s" % (i, "+kern" if i % 2 else ""), data, rnd, perms, n_random, lazy_modes=(None, True, False))
    r.sample({"fonts": n_fonts, "permutations_each": perms, "shaping_runs_per_font": n, "feature_file_tail": fea[-300:]})
    return r


# --------------------------------------------------------------- CFF font dicts, by glyph name

_PRIVATE_KEYS = ("BlueValues", "OtherBlues", "FamilyBlues", "FamilyOtherBlues", "StdHW", "StdVW", "StemSnapH", "StemSnapV",
                 "defaultWidthX", "nominalWidthX")
_PRIVATE_UNSCALED = ("BlueScale", "BlueShift", "BlueFuzz", "ForceBold", "LanguageGroup", "ExpansionFactor", "vsindex")


def _freeze(v):
    return tuple(_freeze(x) for x in v) if isinstance(v, list) else v


def _cff_by_name(data, order=None):
    """{glyph name: ({private dict key: value}, width encoded in the charstring or None for CFF2)}
    read with the FDSelect / FDArray of the saved font."""
    from fontTools.misc.psCharStrings import T2WidthExtractor

    f = _open(data)
    if order is not None:
        f.setGlyphOrder(list(order))
    tag = "CFF " if "CFF " in f else "CFF2"
    td = f[tag].cff.topDictIndex[0]
    cs = td.CharStrings
    out = {}
    for name in td.charset:
        c = cs[name]
        c.decompile()
        priv = c.private
        width = None
        if tag == "CFF ":
            ex = T2WidthExtractor(getattr(priv, "Subrs", []), td.GlobalSubrs, priv.nominalWidthX, priv.defaultWidthX)
            ex.execute(c)
            width = ex.width
        d = {k: _freeze(getattr(priv, k)) for k in _PRIVATE_KEYS + _PRIVATE_UNSCALED if getattr(priv, k, None) is not None}
        out[name] = (d, width)
    return out


def _multi_fd_variant(data, rnd, n_fds=3):
    """From a CID-keyed CFF corpus font: the same outlines with new advances, but with `n_fds` font dicts
    whose Private dicts all differ (nominalWidthX, defaultWidthX, blues, stems) and glyphs dealt
    to them at random; every charstring's width operand is re-encoded for its new font dict."""
    import copy
    from fontTools.misc.psCharStrings import T2WidthExtractor

    f = _open(data)
    f["CFF "].cff.desubroutinize()       # local subroutines belong to one font dict
    td = f["CFF "].cff.topDictIndex[0]
    cs = td.CharStrings
    hmtx = f["hmtx"]
    order = list(td.charset)
    for c in cs.values():
        c.decompile()
    fda = td.FDArray
    while len(fda) < n_fds:
        fd = copy.deepcopy(fda[len(fda) - 1])
        fda.append(fd)
    for i, fd in enumerate(fda):
        p = fd.Private
        p.nominalWidthX = rnd.choice([0, 107, 480, 630, 999])
        p.defaultWidthX = rnd.choice([0, 500, 602, 1000])
        b = sorted(rnd.sample(range(-300, 1200), 6))
        p.BlueValues = b
        p.OtherBlues = sorted(rnd.sample(range(-600, -300), 2))
        p.StdHW, p.StdVW = rnd.randrange(20, 200), rnd.randrange(20, 200)
        p.StemSnapH = sorted({p.StdHW, rnd.randrange(20, 200)})
        p.StemSnapV = sorted({p.StdVW, rnd.randrange(20, 200)})
    sel = td.FDSelect
    for gid, name in enumerate(order):
        c = cs[name]
        old = c.private
        ex = T2WidthExtractor(getattr(old, "Subrs", []), td.GlobalSubrs, 0, "absent")
        ex.execute(c)
        had_width = ex.width != "absent"
        fd = rnd.randrange(len(fda)) if gid else 0
        sel[gid] = fd
        new = fda[fd].Private
        if had_width:
            c.program.pop(0)
        w = rnd.choice([250, 500, 602, 777, 1000, hmtx[name][0]])
        hmtx[name] = (w, hmtx[name][1])
        if w != new.defaultWidthX or rnd.random() < 0.3:
            c.program.insert(0, w - new.nominalWidthX)
        c.private = new
    return _save(f)


CID_FONTS = ["subset/data/TestCID-Regular.ttx", "subset/data/harfbuzz_repacker.ttx", "subset/data/NotoSansCJKjp-Regular.subset.ttx",
             "subset/data/NotdefWidthCID-Regular.ttx"]
CFF2_FD_FONTS = ["cffLib/data/TestSparseCFF2VF.ttx", "cffLib/data/TestFDSelect4.ttx", "varLib/instancer/data/CFF2Instancer-VF-1.ttx",
                 "varLib/data/variable_ttx_interpolatable_cff2/interpolatable-test.ttx"]


def _cid_cases(rnd, n_variants):
    """(label, bytes) of CID-keyed CFF fonts with several font dicts: corpus fonts as they are and
    variants with 2-4 pairwise different Private dicts and glyphs dealt to them at random."""
    out = []
    for rel in CID_FONTS:
        out.append((rel, _corpus_bytes(rel)))
    for i in range(n_variants):
        rel = CID_FONTS[i % 2]
        out.append(("%s~fd-variant%d" % (rel, i), _multi_fd_variant(_corpus_bytes(rel), rnd, n_fds=2 + i % 3)))
    return out


@check("C17")
def reorder_cff_font_dict_follows_name(tier, rnd):
    """CID-keyed CFF and CFF2 fonts whose FDArray has several font dicts: after reorderGlyphs +
    save every glyph NAME still selects a font dict with the same Private values (blues, stems,
    nominalWidthX/defaultWidthX, vsindex) and, for CFF, its charstring still encodes the same
    advance (which agrees with hmtx).  For CFF2 the TopDict is decompiled before the call as
    well as left lazy."""
    from fontTools.ttLib.reorderGlyphs import reorderGlyphs

    r = Result("CID corpus fonts + seeded multi-font-dict variants + CFF2 corpus fonts x permutations; distinct = (font, first glyphs of new order)")
    cases = _cid_cases(rnd, 4 if tier == "quick" else 24) + [(rel, _corpus_bytes(rel)) for rel in CFF2_FD_FONTS]
    for label, data in cases:
        f0 = _open(data)
        order = f0.getGlyphOrder()
        tag = "CFF " if "CFF " in f0 else "CFF2"
        before = _cff_by_name(data)
        if tag == "CFF ":
            bad = [n for n in order if before[n][1] != f0["hmtx"][n][0]]
            if bad:
                r.fail("%s: charstring width differs from hmtx before any change: %r" % (label, bad[:3]))
                continue
        for k, new in enumerate(_permutations(order, rnd, 3 if tier == "quick" else 8)):
            r.case((label, tuple(new[1:4])))
            font = _open(data)
            if tag == "CFF2" and k % 2:
                font["CFF2"].cff.topDictIndex[0].CharStrings          # top dict decompiled before the call for half of the cases, lazy for the rest
            reorderGlyphs(font, new)
            data1 = _save(font)
            after = _cff_by_name(data1, new)
            f1 = _open(data1)
            f1.setGlyphOrder(list(new))
            for n in order:
                if after[n][0] != before[n][0]:
                    diff = sorted(k for k in set(after[n][0]) | set(before[n][0]) if after[n][0].get(k) != before[n][0].get(k))
                    r.fail("%s, order %s...: glyph %s now uses a font dict whose Private differs in %s (FDSelect is indexed by glyph ID and was not permuted)" % (
                        label, new[:5], n, diff), known_id=None)
                    break
            for n in order:
                if tag == "CFF " and (after[n][1] != before[n][1] or after[n][1] != f1["hmtx"][n][0]):
                    r.fail("%s, order %s...: charstring of %s encodes advance %r (before %r, hmtx %r)" % (
                        label, new[:5], n, after[n][1], before[n][1], f1["hmtx"][n][0]), known_id=None)
                    break
    r.sample({"fonts": [c[0] for c in cases][:6]})
    return r


# ------------------------------------------------------------------------------- scale_upem

def _num(x):
    return isinstance(x, (int, float)) and not isinstance(x, bool)


def _scaled(a, b, k, tol):
    """b == k*a within tol on every number, identical structure and non-numeric leaves."""
    if _num(a) and _num(b):
        return abs(b - k * a) <= tol or (a == b and abs(a) >= 2 ** 31 - 1)     # INT_MAX sentinels
    if isinstance(a, (tuple, list)) and isinstance(b, (tuple, list)):
        return len(a) == len(b) and all(_scaled(x, y, k, tol) for x, y in zip(a, b))
    return a == b


def _contours(outline):
    out = []
    for op, pts in outline:
        if op == "moveTo":
            out.append([(op, pts)])
        elif op not in ("closePath", "endPath"):
            out[-1].append((op, pts))
    for i, c in enumerate(out):         # an explicit closing line back to the start point is redundant
        while len(c) > 1 and c[-1][0] == "lineTo" and c[-1][1][-1] == c[0][1][0]:
            c = c[:-1]
        out[i] = c
    return out


def _outline_scaled(a, b, k, tol0, grow):
    """Outlines with the same operators; the j-th point may be off by tol0 + grow*j (CFF deltas
    are rounded one by one, so the error of an absolute position accumulates along the path; for
    the same reason a contour that closed exactly may need a closing line of rounding size, or
    the reverse)."""
    ca, cb = _contours(a), _contours(b)
    if len(ca) != len(cb):
        return False
    big = tol0 + grow * sum(len(p) for c in ca for _, p in c)
    j = 0
    for c0, c1 in zip(ca, cb):
        for x, y, t in ((c0, c1, big), (c1, c0, big / k)):
            if len(y) == len(x) + 1 and y[-1][0] == "lineTo" and grow:
                (ex, ey), (sx, sy) = y[-1][1][-1], y[0][1][0]
                if abs(ex - sx) <= t and abs(ey - sy) <= t:
                    del y[-1]
        if len(c0) != len(c1):
            return False
        for (op0, p0), (op1, p1) in zip(c0, c1):
            if op0 != op1 or len(p0) != len(p1):
                return False
            for q0, q1 in zip(p0, p1):
                j += 1
                t = tol0 + grow * j
                if abs(q1[0] - k * q0[0]) > t or abs(q1[1] - k * q0[1]) > t:
                    return False
    return True


_UNSCALED_METRICS = ("HORIZONTAL_CARET_RISE", "HORIZONTAL_CARET_RUN", "VERTICAL_CARET_RISE", "VERTICAL_CARET_RUN")
_UNSCALED_FIELDS = {
    "OS/2": ("version", "usWeightClass", "usWidthClass", "fsType", "sFamilyClass", "ulUnicodeRange1", "ulUnicodeRange2",
             "ulUnicodeRange3", "ulUnicodeRange4", "achVendID", "fsSelection", "usFirstCharIndex", "usLastCharIndex",
             "ulCodePageRange1", "ulCodePageRange2", "usDefaultChar", "usBreakChar", "usMaxContext",
             "usLowerOpticalPointSize", "usUpperOpticalPointSize"),
    "head": ("fontRevision", "flags", "macStyle", "lowestRecPPEM", "fontDirectionHint", "glyphDataFormat", "created"),
    "hhea": ("caretSlopeRise", "caretSlopeRun", "metricDataFormat"),
    "vhea": ("caretSlopeRise", "caretSlopeRun", "metricDataFormat"),
    "post": ("formatType", "italicAngle", "isFixedPitch"),
    "maxp": ("numGlyphs",),
}
_UNSCALED_TABLES = ("name", "cmap", "fvar", "avar", "STAT", "GSUB", "CPAL", "meta", "gasp", "ltag")


def _font_metrics(hbfont):
    import uharfbuzz as hb

    d = {}
    for direction in ("ltr", "ttb"):
        e = hbfont.get_font_extents(direction)
        d[("extents", direction)] = (e.ascender, e.descender, e.line_gap)
    for t in hb.OTMetricsTag:
        d[t.name] = hbfont.get_metric_position(t)
    return d


def _variation_count(font):
    """Upper bound for the number of delta sets that can contribute to one interpolated value."""
    n = 0
    if "gvar" in font:
        n = max([len(v) for v in font["gvar"].variations.values()] + [0])
    for tag in ("HVAR", "VVAR", "MVAR", "GDEF"):
        store = getattr(font[tag].table, "VarStore", None) if tag in font else None
        if store is not None:
            n = max([n] + [d.VarRegionCount for d in store.VarData])
    if "CFF2" in font:
        store = getattr(font["CFF2"].cff.topDictIndex[0], "VarStore", None)
        if store is not None:
            n = max([n] + [d.VarRegionCount for d in store.otVarStore.VarData])
    return n


def _compare_scale(r, label, data, new_upem, rnd, n_random, known=None):
    """scale_upem(font, new_upem), save, and compare with the original through HarfBuzz."""
    from fontTools.ttLib.scaleUpem import scale_upem

    data, char = _with_pua_cmap(data)
    f0 = _open(data)
    order = f0.getGlyphOrder()
    upem = f0["head"].unitsPerEm
    k = Fraction(new_upem, upem)
    exact = k.denominator == 1
    kf = float(k)
    is_cff = "glyf" not in f0
    font = _open(data)
    try:
        scale_upem(font, new_upem)
        data1 = _save(font)
    except Exception as e:
        # COLR v1: a PaintScaleUniform of exactly 2.0 (new = 2 * old, or old = 2 * new for the
        # inverse wrappers) is emitted although F2Dot14 ends at 2 - 1/16384; compiling fails
        kid = known
        if isinstance(e, AssertionError) and "32768" in str(e) and "Paint" in str(e) and k in (2, Fraction(1, 2)):
            kid = "C17-scale-colr-scale-2-overflow"
        r.fail("%s -> %d upem: scale_upem/save raised %s: %s" % (label, new_upem, type(e).__name__, str(e)[:150]), known_id=kid)
        return
    f1 = _open(data1)
    where = "%s %d -> %d upem" % (label, upem, new_upem)

    def fail(msg, kid=None):
        r.fail("%s: %s" % (where, msg), known_id=kid or known)

    def math_kid(key, a, b):
        return None          # (plain uint16 MATH fields were a known finding until they got their visitor rows: commit 5bd08a1)

    if "avar" in f0 and getattr(getattr(f0["avar"], "table", None), "VarStore", None) is not None:
        # avar version 2: its ItemVariationStore holds normalized-coordinate deltas, not design
        # units.  Report a change of the table, then go on with the original avar so that every
        # other observable is still checked at the intended locations.
        a0, a1 = f0["avar"].compile(f0), f1["avar"].compile(f1)
        if a0 != a1:
            fail("table avar (version 2 variation store: axis-coordinate deltas) changed")
            f1 = _open(data1)
            f1["avar"] = _open(data)["avar"]
            data1 = _save(f1)
            f1 = _open(data1)

    if f1.getGlyphOrder() != order:
        fail("glyph order changed")
        return
    face1, hb1 = _hb(data1)
    face0, hb0 = _hb(data)
    if face1.upem != new_upem:
        fail("unitsPerEm is %d" % face1.upem)
    # -- per-glyph observables, at the default and two other locations for variable fonts
    # Error budget: `unit` per rounded font value that enters an observable (0 for integer
    # factors: everything must be exact), `eps` for HarfBuzz' own rounding of interpolated values.
    nvar = _variation_count(f0)
    # Boxes that HarfBuzz derives by rounding transformed geometry (components with a 2x2
    # transform, COLR paint graphs whose inverse scale is an F2Dot14) are rounded once more.
    fuzz = 0.0
    if "COLR" in f0 or ("glyf" in f0 and any(hasattr(c, "transform") for n in order for g in [f0["glyf"][n]] if g.isComposite() for c in g.components)):
        fuzz = 1.0 + kf
    for loc in _locations(f0):
        if loc is None:
            unit, eps = (0.0 if exact else 0.5), 1e-6
        else:
            unit, eps = (0.0 if exact else 0.5 * (1 + nvar)), 0.5 + kf / 2 + 1e-3
        s0, s1 = _glyph_snapshot(data, order, loc), _glyph_snapshot(data1, order, loc)
        for kind, a, b in zip(SNAP_KINDS, s0, s1):
            if kind.startswith("cmap"):
                if a != b:
                    fail("%s changed" % kind)
                continue
            if kind == "v_origin" and "vmtx" not in f0:
                continue            # synthesized by HarfBuzz from font and glyph extents, not font data
            for n in order:
                npts = sum(len(p) for _, p in s0[2][n])
                u = unit
                if is_cff and exact and loc is None and any(x != int(x) or y != int(y) for _, p in s0[2][n] for x, y in p):
                    u = 0.5         # fractional CFF operands (LinLibertine) are rounded even by integer factors
                if kind == "outline":
                    if is_cff:
                        ok = _outline_scaled(a[n], b[n], kf, eps + u, u)
                    else:
                        ok = _outline_scaled(a[n], b[n], kf, eps + 4 * unit, 0)     # component offsets + transformed points
                elif kind == "extents":
                    ok = _scaled(a[n], b[n], kf, 2 * eps + (u * (1 + npts) if is_cff else 8 * unit) + fuzz)
                else:
                    # (the x of a vertical origin is half the advance, rounded once more)
                    ok = _scaled(a[n], b[n], kf, eps + 2 * unit + (0.5 + kf / 2 if kind == "v_origin" else 0))
                if not ok:
                    fail("%s of %s at %s is not the original scaled by %s: %r -> %r" % (
                        kind, n, loc or "default", k, a[n] if kind != "outline" else a[n][:3], b[n] if kind != "outline" else b[n][:3]))
                    break
        hb0.set_variations(loc or {})
        hb1.set_variations(loc or {})
        m0, m1 = _font_metrics(hb0), _font_metrics(hb1)
        for key in m0:
            kk, tol = (1.0, 0) if key in _UNSCALED_METRICS else (kf, eps + unit)
            if not _scaled(m0[key], m1[key], kk, tol):
                fail("font metric %s at %s: %r -> %r" % (key, loc or "default", m0[key], m1[key]))
    hb0.set_variations({})
    hb1.set_variations({})
    # -- shaping: same glyphs and clusters, positions scaled
    plans, feats = _layout_plans(f0)
    f0.ensureDecompiled()
    texts = _texts(f0, char, rnd, n_random)
    for script, lang, direction, fp in _shaping_plans(plans, feats):
        bad = False
        for t in texts:
            a = _shape(hb0, order, t, script, lang, dict(fp), direction)
            b = _shape(hb1, order, t, script, lang, dict(fp), direction)
            if [x[:2] for x in a] != [x[:2] for x in b]:
                fail("shaping glyphs changed for %s: %r -> %r" % (t, [x[0] for x in a], [x[0] for x in b]))
                bad = True
            else:
                # (HarfBuzz gives each glyph of a 'kern'-table pair half of the value, rounded)
                # (and without GPOS it places marks from halved glyph extents)
                split = 0.5 + kf / 2 if "kern" in f0 else (1.0 + kf if "GPOS" not in f0 else 0.0)
                tol_adv = split + (1e-6 if exact else 3.0)
                tol_off = split + (1e-6 if exact else 3.0 * (1 + len(a)))
                for x, y in zip(a, b):
                    # offsets of a font without GPOS are HarfBuzz' fallback mark placement (glyph
                    # extents, em-proportional gaps, integer halving): shaper heuristics, not font data
                    if not (_scaled(x[2:4], y[2:4], kf, tol_adv) and ("GPOS" not in f0 or _scaled(x[4:6], y[4:6], kf, tol_off))):
                        fail("positions of %r (%s/%s %s) are not scaled by %s: %r -> %r" % (
                            [x[0] for x in a], script, lang, direction, k, [x[2:] for x in a], [x[2:] for x in b]))
                        bad = True
                        break
            if bad:
                break
    # -- everything else that is addressed by glyph or measured in font units: GDEF, MATH, COLR
    e0, e1 = _extra_observables(data, order), _extra_observables(data1, order)
    # CFF paths are stored as deltas that are rounded one by one: up to half a unit per point
    cff_slack = 0.5 * max(sum(len(p) for _, p in o) for o in _glyph_snapshot(data, order)[2].values()) if is_cff else 0.0
    for key in sorted(set(e0) | set(e1), key=repr):
        a, b, kind = e0.get(key), e1.get(key), key[0]
        if kind == "COLR paint":
            continue                # the graph itself is rewritten (scale wrappers); its geometry is compared
        if kind in ("GDEF class", "GDEF attach", "GDEF markset", "COLR layers") or (kind == "MATH const" and "PERCENT" in key[1]):
            ok = a == b
        elif kind == "COLR geometry":
            ok = _scaled(a, b, kf, 0.5 + (0 if exact else 2.0 + cff_slack))     # inverse scale is stored as F2Dot14 / 16.16
        elif kind == "MATH glyph":
            # (without an explicit top accent attachment HarfBuzz reports half the advance, truncated)
            ok = _scaled(a, b, kf, 0.5 + kf / 2 + (0 if exact else 0.51))
        else:
            ok = _scaled(a, b, kf, (1.01 + fuzz + (0 if exact else cff_slack)) if kind == "COLR extents" else (1e-6 if exact else 0.51))
        if not ok:
            fail("%s %s is not the original scaled by %s: %r -> %r" % (kind, key[1], k, a, b), math_kid(key, a, b))
    # -- nothing else changes
    for tag, fields in _UNSCALED_FIELDS.items():
        if tag in f0:
            for fld in fields:
                v0, v1 = getattr(f0[tag], fld, None), getattr(f1[tag], fld, None)
                if (tag, fld) == ("head", "flags") and not exact:
                    v0, v1 = v0 & ~2, v1 & ~2   # 'lsb == xMin for all glyphs' is recomputed from separately rounded values
                if v0 != v1:
                    fail("%s.%s changed: %r -> %r" % (tag, fld, getattr(f0[tag], fld, None), getattr(f1[tag], fld, None)))
    for tag in _UNSCALED_TABLES:
        if (tag in f0) != (tag in f1) or (tag in f0 and f0[tag].compile(f0) != f1[tag].compile(f1)):
            fail("table %s changed" % tag)
    if sorted(f0.keys()) != sorted(f1.keys()):
        fail("set of tables changed: %s" % sorted(set(f0.keys()) ^ set(f1.keys())))
    return data, data1, order, k


SCALE_CORPUS = [
    "ttLib/data/Test-Regular.ttf", "ttLib/data/TestVGID-Regular.otf", "ttLib/data/I.ttf", "ttLib/data/I.otf",
    "ttx/data/TestTTF.ttf", "ttx/data/TestOTF.otf", "subset/data/Lobster.subset.otf", "subset/data/TestCID-Regular.ttx",
    "subset/data/NotoSansCJKjp-Regular.subset.ttx", "subset/data/Andika-Regular.subset.ttx", "subset/data/layout_scripts.ttx",
    "subset/data/harfbuzz_repacker.ttx", "subset/data/TestHVVAR.ttx", "subset/data/TestGVAR.ttx", "subset/data/TestBASE.ttx",
    "subset/data/GPOS_PairPos_Format2_PR_2221.ttx", "cffLib/data/TestFDSelect4.ttx", "cffLib/data/TestSparseCFF2VF.ttx",
    "cffLib/data/TestCFF2Widths.ttx", "merge/data/CFFFont2.ttx", "qu2cu/data/NotoSansArabic-Regular.quadratic.subset.ttf",
    "ttLib/tables/data/NotoSans-VF-cubic.subset.ttf", "ttLib/tables/data/Amstelvar-avar2.subset.ttf",
    "varLib/data/MutatorSans_All_Variable.ttx", "varLib/data/master_ttx_varfont_otf/TestCFF2VF.ttx",
    "varLib/instancer/data/PartialInstancerTest2-VF.ttx", "varLib/instancer/data/PartialInstancerTest-VF.ttx",
    "varLib/instancer/data/CFF2Instancer-VF-1.ttx", "varLib/data/variable_ttx_interpolatable_cff2/interpolatable-test.ttx",
    "varLib/data/master_ttx_interpolatable_ttf/TestFamily4-Italic15.ttx", "voltLib/data/Nutso.ttf",
    "varLib/data/master_vvar_cff2/TestVVAR.0.ttx",          # per-glyph vertical origins in VORG
]


def _new_upems(upem, rnd, count):
    """Integer up-scaling (exact), halving, and non-integer ratios in both directions."""
    fixed = [upem * 2, upem * 3, upem // 2 if upem % 2 == 0 else upem * 4, 2048 if upem != 2048 else 1000, 750 if upem != 750 else 1000]
    extra = [rnd.choice([256, 500, 999, 1024, 1500, 2000, 2500, 4096, 720]) for _ in range(8)]
    out = []
    for u in fixed + extra:
        if u != upem and u not in out:
            out.append(u)
    return out[:count]


@check("C17")
def scale_upem_corpus_fonts(tier, rnd):
    """For corpus fonts (glyf, CFF, CID-keyed CFF, CFF2, gvar/HVAR/MVAR/VVAR variable fonts at
    three locations, GPOS/kern positioning, Arabic) and new units-per-em values (integer multiples,
    halving, non-integer ratios up and down): after scale_upem + save HarfBuzz reports every
    outline coordinate, advance, extent, vertical origin, font-wide metric and shaping position
    scaled by new/old - EXACTLY for integer factors at the default location, within rounding
    otherwise (one unit half per rounded operand; CFF path deltas accumulate) - while glyph order,
    cmap, shaped glyph sequence, unscaled header fields and name/fvar/avar/STAT/GSUB/CPAL tables
    stay identical."""
    r = Result("corpus fonts x {2x, 3x, 1/2, 2048, 750, seeded others}; texts = inputs of every lookup subtable + random strings; distinct = (font, new upem)")
    fonts = SCALE_CORPUS if tier == "quick" else SCALE_CORPUS + [a for a in _aots() if "gpos" in a][::3] + ["cffLib/data/LinLibertine_RBI.otf"]
    for i, rel in enumerate(fonts):
        data = _corpus_bytes(rel)
        upem = _open(data)["head"].unitsPerEm
        cands = _new_upems(upem, rnd, 8)
        big = len(data) > 100000
        for new in ([cands[i % 3], cands[3 + i % 2]] if tier == "quick" else cands[:3] if big else cands[:6]):
            r.case((rel, new))
            _compare_scale(r, rel, data, new, rnd, 20 if tier == "quick" else 50)
    r.sample({"fonts": len(fonts)})
    return r


@check("C17")
def scale_upem_varc_transform_only_variations(tier, rnd):
    """VARC fonts in which a component's TRANSFORM varies while its axis values do not (legal:
    transformVarIndex set, axisValuesVarIndex absent) - for the first variable component of the
    font, for every one, and for every second one: scale_upem + save works and everything
    HarfBuzz reports is the original scaled by new/old."""
    from fontTools.ttLib.tables import otTables
    from fontTools.ttLib.scaleUpem import scale_upem
    r = Result("3 corpus VARC fonts x {first, all, alternate} components stripped of their axis-value variation x 2 new upem values; distinct = (font, which, new upem)")
    for rel in ("ttLib/data/varc-ac00-ac01.ttf", "ttLib/data/varc-6868.ttf", "ttLib/data/varc-ac01-conditional.ttf"):
        for which in ("first", "all", "alternate"):
            font = _open(_corpus_bytes(rel))
            k = 0
            for g in font["VARC"].table.VarCompositeGlyphs.VarCompositeGlyph:
                for c in g.components:
                    if c.transformVarIndex == otTables.NO_VARIATION_INDEX:
                        continue
                    if which == "all" or (which == "first" and k == 0) or (which == "alternate" and k % 2 == 0):
                        c.axisValuesVarIndex = otTables.NO_VARIATION_INDEX
                    k += 1
            if not k:
                continue
            data = _save(font)
            f0 = _open(data)
            upem, order = f0["head"].unitsPerEm, f0.getGlyphOrder()
            for new in (upem * 2, 750 if upem != 750 else 1500):
                r.case((rel, which, new))
                label = "%s (%s transform-only components) %d -> %d upem" % (rel, which, upem, new)
                f1 = _open(data)
                try:
                    scale_upem(f1, new)
                    data1 = _save(f1)
                except Exception as e:
                    r.fail("%s: scale_upem/save raised %s: %s" % (label, type(e).__name__, str(e)[:150]))
                    continue
                k = new / upem
                (_, h0), (_, h1) = _hb(data), _hb(data1)
                # a non-integer factor rounds every delta of every active region: compared at the default only
                for loc in (_locations(f0) if new % upem == 0 else [None]):
                    if loc:
                        h0.set_variations(loc)
                        h1.set_variations(loc)
                    for gid, name in enumerate(order):
                        a, b = _outline(h0, gid), _outline(h1, gid)
                        # component offsets are rounded after scaling and then pass through the component's own
                        # 2x2 transform; HarfBuzz composes VARC transforms in single precision
                        ok = len(a) == len(b) and all(o0 == o1 and len(p0) == len(p1) and all(abs(q1[i] - k * q0[i]) <= 2.0 + 1e-3 * abs(k * q0[i]) for q0, q1 in zip(p0, p1) for i in (0, 1))
                                                      for (o0, p0), (o1, p1) in zip(a, b))
                        if not ok:
                            r.fail("%s: outline of %s at %s is not the original scaled by %g (tolerance 2 units): %s -> %s" % (label, name, loc or "default", k, a[:3], b[:3]))
                            break
                        a, b = h0.get_glyph_h_advance(gid), h1.get_glyph_h_advance(gid)
                        if abs(b - k * a) > 1:
                            r.fail("%s: advance of %s at %s: %r -> %r" % (label, name, loc or "default", a, b))
                            break
    return r


@check("C17")
def scale_upem_cff_font_dicts(tier, rnd):
    """CID-keyed CFF fonts (corpus + generated variants with 2-4 pairwise different Private dicts)
    and CFF2 fonts with several font dicts: after scale_upem + save, for every glyph the Private
    dict it selects has BlueValues/OtherBlues/Family*, StdHW/StdVW, StemSnapH/V, defaultWidthX and
    nominalWidthX scaled (each number within half a unit; exactly for integer factors; blend
    lists element-wise), the other Private keys unchanged, and - for CFF - the advance encoded in
    its charstring (nominalWidthX + operand, or defaultWidthX) still agrees with the scaled hmtx
    (exactly for integer factors, within one unit otherwise).  Outlines/advances/metrics are
    checked through HarfBuzz as in scale_upem_corpus_fonts."""
    r = Result("CID corpus fonts + seeded multi-font-dict variants + CFF2 corpus fonts x new upem values; distinct = (font, new upem)")
    from fontTools.ttLib.scaleUpem import scale_upem

    cases = _cid_cases(rnd, 4 if tier == "quick" else 24) + [(rel, _corpus_bytes(rel)) for rel in CFF2_FD_FONTS]
    for i, (label, data) in enumerate(cases):
        f0 = _open(data)
        upem = f0["head"].unitsPerEm
        before = _cff_by_name(data)
        cands = _new_upems(upem, rnd, 8)
        for new in ([cands[i % 3], cands[3 + i % 2]] if tier == "quick" else cands):
            r.case((label, new))
            k = Fraction(new, upem)
            exact = k.denominator == 1
            if "~" in label:            # generated variants are not covered by scale_upem_corpus_fonts
                _compare_scale(r, label, data, new, rnd, 5)
            font = _open(data)
            scale_upem(font, new)
            data1 = _save(font)
            after = _cff_by_name(data1, f0.getGlyphOrder())
            f1 = _open(data1)
            where = "%s %d -> %d upem" % (label, upem, new)
            for n, (p0, w0) in before.items():
                p1, w1 = after[n]
                bad = [key for key in set(p0) | set(p1)
                       if not (_scaled(p0.get(key), p1.get(key), float(k), 0 if exact else 0.5) if key in _PRIVATE_KEYS else p0.get(key) == p1.get(key))]
                if bad:
                    # CFF2 blend lists [default, delta_1 .. delta_n] in a Private dict: the last delta is
                    # left alone (charstring blend lists end with the blend count, these do not)
                    last_only = all(
                        isinstance(p0.get(b), tuple) and isinstance(p1.get(b), tuple) and len(p0[b]) == len(p1[b]) and all(
                            isinstance(x, tuple) and isinstance(y, tuple) and len(x) == len(y) and x[-1] == y[-1]
                            and _scaled(x[:-1], y[:-1], float(k), 0 if exact else 0.5) for x, y in zip(p0[b], p1[b]))
                        for b in bad)
                    r.fail("%s: Private dict of %s: %s not scaled by %s: %r -> %r" % (where, n, bad, k, {b: p0.get(b) for b in bad}, {b: p1.get(b) for b in bad}),
                           known_id="C17-scale-cff2-private-blend-last-delta" if last_only else None)
                    break
                if w0 is not None:
                    h1 = f1["hmtx"][n][0]
                    if w0 == f0["hmtx"][n][0] and abs(w1 - h1) > (0 if exact else 1):
                        r.fail("%s: charstring of %s encodes advance %r but hmtx says %r (before: both %r)" % (where, n, w1, h1, w0))
                        break
    r.sample({"fonts": [c[0] for c in cases][:8]})
    return r


@check("C17")
def scale_upem_layout_math_colr(tier, rnd):
    """Generated fonts with every GPOS lookup type (and a 'kern' table), MATH corpus fonts and COLR
    v0/v1 corpus fonts under scale_upem: shaping positions, GDEF ligature carets, every MATH
    constant / italics correction / top accent / kern / variant / assembly value reported by
    HarfBuzz, COLR clip boxes and the painted geometry (glyph clips and gradients with all
    transforms applied) are the original scaled by new/old; glyph classes, attachment points, mark
    sets, percent-valued MATH constants and COLR layer lists are unchanged."""
    r = Result("seeded generated layout fonts (+kern table) and MATH/COLR corpus fonts x new upem values; distinct = (font, new upem)")
    cases = [("generated#%d%s" % (i, "+kern" if i % 2 else ""), _layout_font(rnd, kern_table=bool(i % 2))[0]) for i in range(2 if tier == "quick" else 10)]
    for rel in ("subset/data/TestMATH-Regular.ttx", "subset/data/test_math_partial.ttx", "subset/data/test_math_closure.ttx",
                "subset/data/TestCLR-Regular.ttx", "subset/data/BungeeColor-Regular.ttx", "ttLib/tables/data/COLRv1-clip-boxes-glyf.ttx",
                "ttLib/tables/data/COLRv1-clip-boxes-cff.ttx", "varLib/data/master_ttx_varcolr_ttf/TestVariableCOLR-Regular.ttx"):
        cases.append((rel, _corpus_bytes(rel)))
    for i, (label, data) in enumerate(cases):
        upem = _open(data)["head"].unitsPerEm
        cands = _new_upems(upem, rnd, 8)
        for new in ([cands[i % 3], cands[3 + i % 2]] if tier == "quick" else cands):
            r.case((label, new))
            _compare_scale(r, label, data, new, rnd, 30 if tier == "quick" else 60)
    r.sample({"fonts": [c[0] for c in cases]})
    return r
