"""Native bounded stand-ins (B-enum / B-run): executable contracts evaluated on the real code
over enumerated or generated inputs.  Usage: harness.py <property> <tier> <seed>.
Each check returns evaluations, distinct_nontrivial, violations (each optionally tagged with a
known-finding id), a rule text and samples.  Bounded, never counted as proved."""
import importlib
import io
import os
import random
import sys
import time
import traceback

sys.path.insert(0, os.path.dirname(os.path.abspath(__file__)))
from _common import REPO, check_tree, emit  # noqa: E402

check_tree()

CHECKS = {}      # property -> [(name, fn, quick?)]


def check(prop, quick=True):
    def deco(fn):
        CHECKS.setdefault(prop, []).append((fn.__name__, fn, quick))
        return fn
    return deco


class Result:
    def __init__(self, rule):
        self.rule = rule
        self.evaluations = 0
        self.distinct = set()
        self.violations = []
        self.samples = []
        self.exhaustive = False

    def case(self, key=None):
        self.evaluations += 1
        if key is not None:
            self.distinct.add(key)

    def fail(self, what, known_id=None, **kw):
        if len([v for v in self.violations if v.get("known_id") == known_id]) < 5:
            d = {"what": what, "known_id": known_id}
            d.update(kw)
            self.violations.append(d)

    def sample(self, s):
        if len(self.samples) < 3:
            self.samples.append(s)


def main():
    prop, tier, seed = sys.argv[1], sys.argv[2], int(sys.argv[3])
    only = sys.argv[4] if len(sys.argv) > 4 else None
    out0_undecided = []
    modname = "h_" + prop.lower()
    if os.path.exists(os.path.join(os.path.dirname(os.path.abspath(__file__)), modname + ".py")):
        try:
            importlib.import_module(modname)      # only this property's checks are loaded
        except Exception as e:
            out0_undecided.append("%s failed to import: %s: %s" % (modname, type(e).__name__, str(e)[:200]))
    out = {"evaluations": 0, "distinct_nontrivial": 0, "violations": [], "samples": [], "rule": [], "checks": {}, "undecided": out0_undecided}
    import harness as _H          # the h_* modules registered with the module named `harness`, not __main__

    for name, fn, quick in _H.CHECKS.get(prop, []):
        if tier == "quick" and not quick:
            continue
        if only and only not in name:
            continue
        t0 = time.time()
        try:
            r = fn(tier, random.Random(seed))
        except Exception as e:
            out["undecided"].append("%s crashed: %s: %s | %s" % (name, type(e).__name__, str(e)[:200], traceback.format_exc()[-400:]))
            continue
        out["evaluations"] += r.evaluations
        out["distinct_nontrivial"] += len(r.distinct)
        for v in r.violations:
            v["check"] = name
            out["violations"].append(v)
        out["samples"].extend({"check": name, "case": s} for s in r.samples[:1])
        out["rule"].append("%s: %s" % (name, r.rule))
        out["checks"][name] = {"evaluations": r.evaluations, "distinct": len(r.distinct), "violations": len(r.violations),
                               "exhaustive": r.exhaustive, "wall_s": round(time.time() - t0, 2)}
    out["rule"] = " || ".join(out["rule"])
    emit(out)


if __name__ == "__main__":
    main()
