"""C15 enumerations: text-level and run-length codecs (strings are outside the verifier)."""
import itertools
import string

from harness import check, Result

PRINTABLE = [chr(c) for c in range(32, 127)]


@check("C15")
def tag_identifier_roundtrip(tier, rnd):
    """identifierToTag(tagToIdentifier(t)) == t for 4-character printable-ASCII tags; the
    identifier is a Python identifier over [A-Za-z0-9_] (it is handed to __import__)."""
    from fontTools.ttLib.ttFont import tagToIdentifier, identifierToTag
    import re

    r = Result("all 95^3 tags 'xyz ' + all 4-char tags over a class-representative alphabet (quick) / all 95^4 (thorough); distinct = character-class pattern of the tag")
    ok_ident = re.compile(r"^[A-Za-z0-9_]+$")

    def one(t):
        cls = "".join("s" if c == " " else "l" if c.islower() else "u" if c.isupper() else "d" if c.isdigit() else "_" if c == "_" else "p" for c in t)
        r.case(cls)
        ident = tagToIdentifier(t)
        back = identifierToTag(ident)
        if back != t:
            r.fail("identifierToTag(tagToIdentifier(%r)) == %r" % (t, back), tag=t)
        if not ok_ident.match(ident) or "." in ident:
            r.fail("tagToIdentifier(%r) = %r is not [A-Za-z0-9_]+" % (t, ident), tag=t)

    if tier == "thorough":
        for t in itertools.product(PRINTABLE, repeat=4):
            one("".join(t))
        r.exhaustive = True
    else:
        for t in itertools.product(PRINTABLE, repeat=3):
            one("".join(t) + " ")
        reps = " aZ09_/+~"
        for t in itertools.product(reps, repeat=4):
            one("".join(t))
        for _ in range(20000):
            one("".join(rnd.choice(PRINTABLE) for _ in range(4)))
    r.sample({"tag": "OS/2", "identifier": tagToIdentifier("OS/2")})
    return r


@check("C15")
def tag_xml_roundtrip(tier, rnd):
    from fontTools.ttLib.ttFont import tagToXML, xmlToTag
    import re

    r = Result("same tag sets as tag_identifier_roundtrip for tagToXML/xmlToTag; distinct = character-class pattern")

    def one(t):
        cls = "".join("s" if c == " " else "a" if c.isalnum() else "_" if c == "_" else "p" for c in t)
        r.case(cls)
        x = tagToXML(t)
        back = xmlToTag(x)
        if back != t:
            # known, format-level ambiguity: a mangled name of <= 4 characters is indistinguishable
            # from a raw tag (tags with <= 2 significant characters that are not identifiers)
            kid = "C15-tagToXML-short-mangled" if len(x) <= 4 else None
            r.fail("xmlToTag(tagToXML(%r)) == %r (xml name %r)" % (t, back, x), known_id=kid, tag=t)

    if tier == "thorough":
        for t in itertools.product(PRINTABLE, repeat=4):
            one("".join(t))
        r.exhaustive = True
    else:
        for t in itertools.product(PRINTABLE, repeat=2):
            one("".join(t) + "  ")
            one("".join(t) + "a ")
        reps = " aZ09_/+~"
        for t in itertools.product(reps, repeat=4):
            one("".join(t))
        for _ in range(20000):
            one("".join(rnd.choice(PRINTABLE) for _ in range(4)))
    return r


@check("C15")
def fixed_to_str_roundtrip(tier, rnd):
    """strToFixed(fixedToStr(k)) == k for all 65536 F2Dot14 values (exhaustive) and the text is
    the shortest decimal that round-trips; 16.16 at boundaries + samples."""
    from fontTools.misc.fixedTools import fixedToStr, strToFixed, fixedToFloat, floatToFixed, floatToFixedToFloat

    r = Result("all 65536 F2Dot14 values (exhaustive) + 16.16 boundaries and seeded samples; distinct = value")
    for k in range(-32768, 32768):
        r.case(("2.14", k))
        s = fixedToStr(k, 14)
        if strToFixed(s, 14) != k:
            r.fail("strToFixed(fixedToStr(%d,14)=%r) != %d" % (k, s, k))
        if floatToFixed(fixedToFloat(k, 14), 14) != k:
            r.fail("floatToFixed(fixedToFloat(%d)) != %d" % (k, k))
        # shortest: dropping the last digit must not round-trip
        if "." in s and len(s.split(".")[1]) > 1:
            shorter = s[:-1]
            if strToFixed(shorter, 14) == k:
                r.fail("fixedToStr(%d,14)=%r is not the shortest representation (%r also works)" % (k, s, shorter))
    vals = [0, 1, -1, 65535, 65536, 65537, -65536, 2 ** 31 - 1, -2 ** 31, 32768, 98304] + [rnd.randrange(-2 ** 31, 2 ** 31) for _ in range(20000 if tier == "quick" else 400000)]
    for k in vals:
        r.case(("16.16", k))
        s = fixedToStr(k, 16)
        if strToFixed(s, 16) != k:
            r.fail("strToFixed(fixedToStr(%d,16)=%r) != %d" % (k, s, k))
    r.exhaustive = True
    r.sample({"k": 8192, "text": fixedToStr(8192, 14)})
    return r


@check("C15")
def encode_float_roundtrip(tier, rnd):
    """CFF real operands: decode(encodeFloat(f)) == float('%.8G' % f), nibble stream well formed."""
    from fontTools.misc.psCharStrings import encodeFloat, read_realNumber

    r = Result("mantissa/exponent grid incl. 1e-05, 123000, +-0.0x, 9.9999999e+-k, and seeded samples; distinct = (sign, digit count, exponent)")
    cases = [0.0, -0.0, 1.0, -1.0, 0.5, -0.5, 1e-05, 123000.0, 1234567.0, 0.00012345678, 9.9999999e10, 9.9999999e-10,
             1e10, 1e-10, 1.5e300, 2.5e-300, 100.0, 1000.0, 0.001, 0.1, 123456789.0, 0.000001, 65536.0, -32768.5]
    for m in (1, 12, 123, 1234, 12345678, 99999999, 10000001, 5, 50, 500):
        for e in range(-12, 13):
            for sgn in (1, -1):
                cases.append(sgn * m * 10.0 ** e)
    for _ in range(5000 if tier == "quick" else 200000):
        cases.append(rnd.choice((1, -1)) * rnd.random() * 10 ** rnd.randint(-12, 12))
    for f in cases:
        want = float("%.8G" % f)
        r.case((f < 0, len(("%.8G" % f).replace("-", "").replace(".", "").split("E")[0]), ("%.8E" % f).split("E")[1]))
        try:
            enc = encodeFloat(f)
            if enc[0] != 30:
                r.fail("encodeFloat(%r) does not start with operator byte 30" % f)
                continue
            got, idx = read_realNumber(None, 30, enc, 1)
            if idx != len(enc):
                r.fail("encodeFloat(%r): decoder stopped at %d of %d bytes" % (f, idx, len(enc)))
            if got != want:
                r.fail("decode(encodeFloat(%r)) == %r, expected %r" % (f, got, want))
        except Exception as e:
            r.fail("encodeFloat/read_realNumber(%r) raised %s: %s" % (f, type(e).__name__, e))
    r.sample({"f": 0.00012345678, "bytes": encodeFloat(0.00012345678).hex()})
    return r


@check("C15")
def packed_points_and_deltas(tier, rnd):
    """gvar packed point numbers and delta runs: decompile(compile(x)) == x; run headers legal."""
    from fontTools.ttLib.tables.TupleVariation import TupleVariation, decompileSharedTuples
    TV = TupleVariation
    r = Result("all subsets of a 12-point universe + engineered 127/128/129-point, 255/256 gap sets; delta lists around 63/64/65 runs, 0 / byte / word / long values; distinct = (kind, size, value class)")
    import itertools
    universe = list(range(12))
    n = 0
    for size in range(0, 13):
        for pts in itertools.combinations(universe, size):
            n += 1
            if tier == "quick" and n % 3:
                continue
            num = 20
            pts = list(pts)
            r.case(("points", size))
            data = TV.compilePoints(set(pts))
            got, pos = TV.decompilePoints_(num, data, 0, "gvar")
            if list(got) != (pts if pts else list(range(num))) and not (not pts and list(got) == list(range(num))):
                if not (len(pts) == 0):
                    r.fail("decompilePoints(compilePoints(%r)) == %r" % (pts, list(got)))
            if pos != len(data):
                r.fail("decompilePoints consumed %d of %d bytes for %r" % (pos, len(data), pts))
    eng = [list(range(127)), list(range(128)), list(range(129)), list(range(0, 600, 2)), [0, 255, 256, 511, 512, 65535],
           list(range(0, 65536, 257)), [5] , [65535]]
    for pts in eng:
        r.case(("points-eng", len(pts)))
        data = TV.compilePoints(set(pts))
        got, pos = TV.decompilePoints_(65536, data, 0, "gvar")
        if list(got) != pts or pos != len(data):
            r.fail("decompilePoints(compilePoints(engineered %d points)) mismatch" % len(pts))
    vals = [0, 1, -1, 127, -128, 128, -129, 255, 256, 32767, -32768, 32768, -32769, 2 ** 31 - 1, -2 ** 31]
    lists = [[v] * k for v in vals for k in (1, 2, 63, 64, 65, 128, 129)]
    for _ in range(400 if tier == "quick" else 5000):
        lists.append([rnd.choice(vals + [0, 0, 0, 3, -7, 300]) for _ in range(rnd.randint(1, 140))])
    for optimize in (True, False):
        for deltas in lists:
            r.case(("deltas", len(deltas) // 32, optimize))
            try:
                data = TV.compileDeltaValues_(deltas, optimizeSize=optimize)
            except TypeError:
                data = TV.compileDeltaValues_(deltas)
            got, pos = TV.decompileDeltas_(len(deltas), bytes(data), 0)
            if list(got) != deltas or pos != len(data):
                r.fail("decompileDeltas(compileDeltaValues(%r...)) mismatch (optimizeSize=%s)" % (deltas[:6], optimize))
    return r


@check("C15")
def misc_codecs(tier, rnd):
    """hexStr/deHexStr, num2binary/binary2num, bit_indices, sparse bit sets, AGL, timestamps."""
    from fontTools.misc.textTools import hexStr, deHexStr, num2binary, binary2num
    from fontTools.misc.intTools import bit_indices
    from fontTools.misc import iftSparseBitSet
    from fontTools.misc.timeTools import timestampToString, timestampFromString
    from fontTools import agl

    r = Result("all 256 byte values and seeded strings for hex; 8/16/32-bit patterns for binary; all subsets of small universes per branch factor for sparse sets; every AGL entry; LONGDATETIME samples; distinct = (codec, class)")
    for b in range(256):
        r.case(("hex", b))
        if deHexStr(hexStr(bytes([b, 255 - b]))) != bytes([b, 255 - b]):
            r.fail("deHexStr(hexStr) mismatch for byte %d" % b)
    for bits in (8, 16, 32):
        for v in [0, 1, 2 ** bits - 1, 2 ** (bits - 1)] + [rnd.randrange(2 ** bits) for _ in range(300)]:
            r.case(("bin", bits))
            if binary2num(num2binary(v, bits)) != v:
                r.fail("binary2num(num2binary(%d,%d)) mismatch" % (v, bits))
            if sum(1 << i for i in bit_indices(v)) != v:
                r.fail("bit_indices(%d) does not reconstruct" % v)
    import itertools
    for n in range(0, 9):
        for s in itertools.combinations(range(0, 40, 3), min(n, 5)):
            r.case(("sparse", n))
            try:
                enc = iftSparseBitSet.encode(set(s)); dec, used = iftSparseBitSet.decode(enc)
                if set(dec) != set(s) or used != len(enc):
                    r.fail("sparse bit set round trip mismatch for %r" % (s,))
            except Exception as e:
                r.fail("sparse bit set raised %s for %r" % (type(e).__name__, s))
    for _ in range(300 if tier == "quick" else 5000):
        s = {rnd.randrange(0, rnd.choice((8, 64, 4000, 70000))) for _ in range(rnd.randint(0, 12))}
        r.case(("sparse-rnd", len(s)))
        enc = iftSparseBitSet.encode(s); dec, used = iftSparseBitSet.decode(enc)
        if set(dec) != s or used != len(enc):
            r.fail("sparse bit set round trip mismatch for %r" % sorted(s))
    for name, uni in agl.AGL2UV.items():
        r.case(("agl", len(name) > 4))
        if agl.toUnicode(name) != chr(uni):
            r.fail("agl.toUnicode(%r) != U+%04X" % (name, uni))
    for uv, name in agl.UV2AGL.items():
        if agl.toUnicode(name) != chr(uv):
            r.fail("agl.toUnicode(UV2AGL[%04X]) mismatch" % uv)
    for v in [2082844800, 2082844801, 3000000000, 3600000000, 4294967295, 0, 1, 2082844799, 1000000000] + [rnd.randrange(0, 2 ** 32) for _ in range(500)]:
        r.case(("time", v >= 2082844800))
        try:
            back = timestampFromString(timestampToString(v))
        except Exception as e:
            r.fail("timestamp round trip raised %s for %d" % (type(e).__name__, v))
            continue
        if back != v:
            r.fail("timestampFromString(timestampToString(%d)) == %d" % (v, back),
                   known_id="C15-timestamp-before-1970" if v < 2082844800 else None)
    return r


@check("C15")
def sstruct_formats(tier, rnd):
    """Every sstruct format constant in Lib/fontTools: pack(unpack(d)) == d on random data (pad
    bytes excepted) and unpack(pack(v)) == v."""
    import ast, os
    from fontTools.misc import sstruct
    from _common import REPO

    r = Result("every module-level string constant in Lib/fontTools that parses as an sstruct format x 20 random records; distinct = format")
    root = os.path.join(REPO, "Lib", "fontTools")
    fmts = {}
    for dp, dn, fn in os.walk(root):
        for f in fn:
            if f.endswith(".py"):
                try:
                    tree = ast.parse(open(os.path.join(dp, f), encoding="utf-8").read())
                except SyntaxError:
                    continue
                for node in tree.body:
                    if isinstance(node, ast.Assign) and isinstance(node.value, ast.Constant) and isinstance(node.value.value, str) and ":" in node.value.value and "\n" in node.value.value:
                        try:
                            sstruct.getformat(node.value.value)
                            fmts[(f, node.targets[0].id if isinstance(node.targets[0], ast.Name) else "?")] = node.value.value
                        except Exception:
                            pass
    for key, fmt in sorted(fmts.items()):
        size = sstruct.calcsize(fmt)
        formatstring, names, fixes = sstruct.getformat(fmt)
        has_pad = "x" in formatstring.replace(">", "").replace("<", "")
        for _ in range(20):
            r.case(key)
            data = bytes(rnd.randrange(256) for _ in range(size))
            try:
                d = sstruct.unpack(fmt, data)
                back = sstruct.pack(fmt, d)
            except Exception as e:
                if "f" in formatstring or "d" in formatstring or "s" in formatstring or "c" in formatstring or "p" in formatstring:
                    continue      # random bytes are not valid text / NaN payloads: out of the codec's domain
                r.fail("sstruct %s.%s raised %s on random data" % (key[0], key[1], type(e).__name__))
                continue
            if back != data and not has_pad and not any(c in formatstring for c in "fdscp"):
                r.fail("sstruct.pack(unpack(d)) != d for %s.%s" % key)
    r.sample({"formats": len(fmts)})
    return r


@check("C15")
def glyph_name_to_unicode_all_code_points(tier, rnd):
    """'glyph-name to Unicode mapping': the name TTFont._makeGlyphName gives a code point (AGL
    name, uniXXXX, uXXXXX[X]) decodes with agl.toUnicode to exactly that code point - for EVERY
    Unicode scalar value (surrogates excluded: not encodable in a name per the AGL spec)."""
    from fontTools.ttLib import TTFont
    from fontTools import agl

    r = Result("every Unicode scalar value 0..0x10FFFF except surrogates; distinct = (plane class, name form)")
    r.exhaustive = True
    for cp in range(0, 0x110000):
        if 0xD800 <= cp <= 0xDFFF:
            continue
        name = TTFont._makeGlyphName(cp)
        r.case((0 if cp < 0x10000 else 1 if cp < 0x20000 else 2, name[:3] if name.startswith("uni") else name[:1] if name[0] == "u" and len(name) > 4 else "agl"))
        back = agl.toUnicode(name)
        if back != chr(cp):
            r.fail("agl.toUnicode(TTFont._makeGlyphName(0x%X) = %r) == %r" % (cp, name, back), codepoint=cp)
            if len(r.violations) >= 5:
                break
    return r


@check("C15")
def type1_charstring_encryption_roundtrip(tier, rnd):
    """Type 1 charstring encryption with a declared number of random prefix bytes: for lenIV in
    0..7 (0 = no prefix, 4 = the default, also 'not declared'), T1Font.createData followed by
    parsing the written data gives back every glyph program and every subroutine unchanged."""
    import os
    from fontTools.t1Lib import T1Font
    from _common import REPO
    r = Result("the repository's Type 1 test fonts x lenIV {absent, 0..7}; distinct = (font, lenIV)")
    d = os.path.join(REPO, "Tests", "t1Lib", "data")
    for fn in sorted(os.listdir(d)):
        if not fn.endswith((".pfa", ".pfb")):
            continue
        for lenIV in (None, 0, 1, 2, 3, 4, 5, 7):
            r.case((fn, lenIV))
            f = T1Font(os.path.join(d, fn))
            f.parse()
            want = {}
            for n, cs in f.font["CharStrings"].items():
                cs.decompile()
                want[n] = list(cs.program)
            subrs = []
            for cs in f.font["Private"]["Subrs"]:
                cs.decompile()
                subrs.append(list(cs.program))
            if lenIV is None:
                f.font["Private"].pop("lenIV", None)
            else:
                f.font["Private"]["lenIV"] = lenIV
            try:
                data = f.getData()
                g = T1Font.__new__(T1Font)
                g.data, g.encoding = data, "ascii"
                g.parse()
                got = {}
                for n, cs in g.font["CharStrings"].items():
                    cs.decompile()
                    got[n] = list(cs.program)
                gsubrs = []
                for cs in g.font["Private"]["Subrs"]:
                    cs.decompile()
                    gsubrs.append(list(cs.program))
            except Exception as e:
                r.fail("%s with lenIV %r: write + parse raised %s: %s" % (fn, lenIV, type(e).__name__, e))
                continue
            if got != want:
                bad = sorted(n for n in want if got.get(n) != want[n])[:3]
                r.fail("%s with lenIV %r: glyph programs differ after write + parse, e.g. %s: %r -> %r" % (fn, lenIV, bad, want.get(bad[0]) if bad else None, got.get(bad[0]) if bad else None))
            if gsubrs != subrs:
                r.fail("%s with lenIV %r: subroutines differ after write + parse" % (fn, lenIV))
            if g.font["Private"].get("lenIV", 4) != (4 if lenIV is None else lenIV):
                r.fail("%s: lenIV %r was written as %r" % (fn, lenIV, g.font["Private"].get("lenIV")))
    return r
