"""C19: design sources survive being written and read back (designspace documents, UFO parts, GLIF,
property lists, generated file names, axis maps)."""
import datetime
import itertools
import math
import os
import shutil
import tempfile
from fractions import Fraction as Fr

from harness import check, Result

# --------------------------------------------------------------------------------------------
# generators shared by the checks
# --------------------------------------------------------------------------------------------
NOISE = [300.00000000000006, 110.00000000000001, 1e-7, 0.1 * 3 * 1000, 0.1 + 0.2, 1 / 3, 100, 0, -50.5, 3e-7, 123456.789,
         2 ** 31 + 0.5, 999.9999999, -0.0000004, 12, 400, 700, 1000, 62.5, 87.30000000000001, -1e-7, 1e6 + 1e-7]

TEXTS = ["Regular", "Bold Italic", "", " ", "  lead and trail  ", "a&b<c>d\"e'f", "línea\nnueva", "tab\there", "Ünïcödé ẞß İı Σς",
         "日本語テキスト", "עברית", "\U0001F600 astral \U0001D49C", "]]> <!-- x -->", "&amp; &#10;", "a b c", "x" * 300, "CR\rLF\r\nend",
         "́combining first", "name.with.dots", "ª º ǅ ǆ"]


def text(rnd, allow_empty=True):
    t = rnd.choice(TEXTS)
    if rnd.random() < 0.3:
        t = "".join(rnd.choice("abcXYZ 019_-.:/éßЖ中\U0001F600&<>\"'") for _ in range(rnd.randint(1, 12)))
    if not t and not allow_empty:
        t = "n"
    return t


def number(rnd, ints=0.4):
    u = rnd.random()
    if u < ints:
        return rnd.choice((0, 1, -1, 500, 1000, -200, 2048, 65535, 12))
    if u < ints + 0.3:
        return rnd.choice(NOISE)
    return rnd.choice((1, -1)) * rnd.random() * 10 ** rnd.randint(-8, 5)


def plist_value(rnd, depth=0):
    u = rnd.random()
    if depth < 3 and u < 0.18:
        return {plist_key(rnd): plist_value(rnd, depth + 1) for _ in range(rnd.randint(0, 4))}
    if depth < 3 and u < 0.32:
        seq = [plist_value(rnd, depth + 1) for _ in range(rnd.randint(0, 4))]
        return tuple(seq) if rnd.random() < 0.2 else seq
    if u < 0.5:
        return text(rnd)
    if u < 0.62:
        return rnd.choice((0, 1, -1, 2 ** 31, -2 ** 31 - 1, 2 ** 63 - 1, -2 ** 63, 2 ** 64 - 1, 255, 10 ** 15, rnd.randrange(-10 ** 9, 10 ** 9)))
    if u < 0.78:
        return float(rnd.choice(NOISE + [1e300, -2.5e-300, 5e-324, 1.7976931348623157e308, -0.0, 1.0, 0.1, 2 / 3, rnd.random(), rnd.random() * 1e-9]))
    if u < 0.86:
        return rnd.random() < 0.5
    if u < 0.93:
        return bytes(rnd.randrange(256) for _ in range(rnd.choice((0, 1, 2, 3, 57, 58, 200))))
    return datetime.datetime(rnd.choice((1, 1904, 1970, 2026, 9999)), rnd.randint(1, 12), rnd.randint(1, 28), rnd.randint(0, 23), rnd.randint(0, 59), rnd.randint(0, 59))


def plist_key(rnd):
    return rnd.choice(("com.example.key", "org.example.glyphOrder", "k", "ключ", "key with space", "a&b", " lead", "trail ", "UPPER", "upper", "x.y.z", "", "0", " ")) + rnd.choice(("", "", str(rnd.randint(0, 99))))


def same_plist(a, b):
    """type-exact equality of plist trees; tuples come back as lists"""
    if isinstance(a, (list, tuple)):
        return isinstance(b, list) and len(a) == len(b) and all(same_plist(x, y) for x, y in zip(a, b))
    if isinstance(a, dict):
        return isinstance(b, dict) and set(a) == set(b) and all(same_plist(v, b[k]) for k, v in a.items())
    if isinstance(a, float):
        return type(b) is float and a == b and math.copysign(1, a) == math.copysign(1, b)
    return type(a) is type(b) and a == b


def same_numeric(a, b, tol=0.0):
    """structural equality where ints and floats compare by value (within tol), tuples == lists"""
    if isinstance(a, bool) or isinstance(b, bool) or a is None or b is None or isinstance(a, str) or isinstance(b, str):
        return type(a) is type(b) and a == b
    if isinstance(a, (int, float)) and isinstance(b, (int, float)):
        return a == b or abs(a - b) <= tol
    if isinstance(a, (list, tuple)):
        return isinstance(b, (list, tuple)) and len(a) == len(b) and all(same_numeric(x, y, tol) for x, y in zip(a, b))
    if isinstance(a, dict):
        return isinstance(b, dict) and set(a) == set(b) and all(same_numeric(v, b[k], tol) for k, v in a.items())
    return type(a) is type(b) and a == b


def first_difference(a, b, tol=0.0, path="$"):
    if isinstance(a, dict) and isinstance(b, dict):
        for k in sorted(set(a) | set(b), key=repr):
            if k not in a or k not in b:
                return "%s[%r] only on one side" % (path, k)
            d = first_difference(a[k], b[k], tol, "%s[%r]" % (path, k))
            if d:
                return d
        return None
    if isinstance(a, (list, tuple)) and isinstance(b, (list, tuple)):
        if len(a) != len(b):
            return "%s: lengths %d != %d" % (path, len(a), len(b))
        for i, (x, y) in enumerate(zip(a, b)):
            d = first_difference(x, y, tol, "%s[%d]" % (path, i))
            if d:
                return d
        return None
    return None if same_numeric(a, b, tol) else "%s: %r != %r" % (path, a, b)


RESERVED = ["con", "prn", "aux", "clock$", "nul", "com1", "com2", "com9", "lpt1", "lpt3", "lpt9"]
LETTERS = "aAbBzZ019_-.~ äÄßẞİıΣσςǅǆǄéÉжЖ中\U0001F600\U00010400\U00010428"
ILLEGAL = "\"*+/:<>?[\\]|()\x00\x01\x1f\x7f\t\n"


def glyph_name(rnd):
    u = rnd.random()
    if u < 0.12:
        r_ = rnd.choice(RESERVED)
        r_ = rnd.choice((r_, r_.upper(), r_.capitalize()))
        return rnd.choice((r_, r_ + ".alt", "a." + r_, "a." + r_ + ".b", r_ + "." + rnd.choice(RESERVED), "." + r_, r_ + "_", "_" + r_))
    if u < 0.24:
        base = rnd.choice(("con.", "aux.nul.", "a.", "A", "Ab", "", "prn.", "é", "X.lpt1."))
        fill = rnd.choice("aAm_.Ж")
        n = rnd.choice((230, 249, 250, 251, 252, 253, 254, 255, 256, 257, 260, 300)) - len(base)
        tail = rnd.choice(("", ".con", ".aux", "A", ".", "nul"))
        return base + fill * max(0, n - len(tail)) + tail
    if u < 0.40:
        s = rnd.choice(("a", "A", "ab", "aB", "Ab", "AB", "a_", "A_", "a__", "_a", "f_f_i", "F_F_I", "F_f_i", "ae", "AE", "Ae", "aE", ".notdef", ".Notdef", "_notdef", "a.sc", "A.sc", "a.SC"))
        return s
    if u < 0.5:
        return "".join(rnd.choice(ILLEGAL + "ab") for _ in range(rnd.randint(1, 5)))
    return "".join(rnd.choice(LETTERS) for _ in range(rnd.randint(1, 8)))


def name_class(n):
    return ("empty" if not n else "long" if len(n) > 200 else "short",
            any(p.lower() in RESERVED for p in n.split(".")), n != n.lower(), any(c in ILLEGAL for c in n), n.startswith("."), n.isascii())


# UFO 3 conventions: characters that must not occur in file names
SPEC_ILLEGAL = set('"*+/:<>?[\\]|') | {chr(i) for i in range(32)} | {"\x7f"}


def illegal_reason(fn, prefix="", suffix="", F=None):
    """why a generated file name breaks the UFO 3 file name conventions, or None"""
    if F is None:
        from fontTools.ufoLib import filenames as F
    if len(fn) > 255:
        return "longer than 255 characters (%d)" % len(fn)
    body = fn[len(prefix):len(fn) - len(suffix)] if suffix else fn[len(prefix):]
    bad = [c for c in fn if c in SPEC_ILLEGAL or c in F.illegalCharacters]
    if bad:
        return "contains illegal character %r" % bad[0]
    if not prefix and fn.startswith("."):
        return "starts with a period"
    for part in body.split("."):
        if part.lower() in F.reservedFileNames:
            return "has the reserved part %r" % part
    if fn != prefix + body + suffix:
        return "lost its prefix/suffix"
    return None


def over_255_only_by_reserved_prefixes(fn, prefix="", suffix="", F=None):
    if F is None:
        from fontTools.ufoLib import filenames as F
    body = fn[len(prefix):len(fn) - len(suffix)] if suffix else fn[len(prefix):]
    parts = [p[1:] if p.startswith("_") and p[1:].lower() in F.reservedFileNames else p for p in body.split(".")]
    return len(prefix + ".".join(parts) + suffix) <= 255


# --------------------------------------------------------------------------------------------
@check("C19")
def generated_file_names(tier, rnd):
    """userNameToFileName (ufoLib.filenames and misc.filenames), used the way GlyphSet / UFOWriter use
    it (existing = lower-cased names handed out so far, suffix '.glif' or prefix 'glyphs.'): for every
    sequence of names each result is legal per the UFO 3 conventions (no illegal character, no
    reserved dot-separated part, no initial period, prefix/suffix kept), at most 255 characters, and
    different from every earlier result ignoring case."""
    from fontTools.ufoLib import filenames as U
    from fontTools.misc import filenames as M

    r = Result("sequences of 2-40 names: case variants, names colliding after mangling ('A' then 'a_'), reserved names as any dot-separated part, 230-300 character names, illegal characters, non-ASCII case pairs, empty name, repeated names; x {'.glif' suffix, 'glyphs.' prefix}; distinct = (name class, prefix/suffix)")
    n_seq = 400 if tier == "quick" else 6000
    fixed = [["A", "a_", "a", "A_", "a__", "A__"], ["a_", "A"], ["con", "_con", "CON", "Con", "con.", ".con"], ["con." + "a" * 251, "con." + "a" * 251],
             ["a" * 255, "a" * 256, "A" * 128, "a" * 254 + "A"], [""], ["x", "", "y"], ["a" * 300] * 5, ["aux.nul.prn." + "b" * 243], [".", "..", "...", "_", "_."]]
    for i in range(n_seq + len(fixed)):
        names = fixed[i] if i < len(fixed) else [glyph_name(rnd) for _ in range(rnd.randint(2, 40))]
        if i >= len(fixed) and rnd.random() < 0.5:
            names += [rnd.choice(names).swapcase() for _ in range(5)] + [rnd.choice(names) for _ in range(3)]
        for prefix, suffix in (("", ".glif"), ("glyphs.", "")):
            existing, existing_m = set(), set()
            for n in names:
                r.case((name_class(n), prefix, suffix))
                for F, ex in ((U, existing), (M, existing_m)):
                    mod = F.__name__.split(".", 1)[1]
                    try:
                        fn = F.userNameToFileName(n, existing=ex, prefix=prefix, suffix=suffix)
                    except IndexError as e:
                        r.fail("%s.userNameToFileName(%r, prefix=%r, suffix=%r) raised IndexError: %s" % (mod, n, prefix, suffix, e), known_id="C19-filename-empty" if n == "" else None)
                        continue
                    except Exception as e:
                        r.fail("%s.userNameToFileName(%r, prefix=%r, suffix=%r) raised %s: %s" % (mod, n[:60], prefix, suffix, type(e).__name__, e))
                        continue
                    why = illegal_reason(fn, prefix, suffix, F)
                    if why:
                        kid = None
                        if len(fn) > 255 and over_255_only_by_reserved_prefixes(fn, prefix, suffix, F):
                            kid = "C19-filename-over-255"
                        elif F is M and why in ("contains illegal character '\"'", "contains illegal character '\\x00'"):
                            kid = "C19-misc-filenames-quote-and-nul-kept"      # its table holds the 2-character strings \" and \0
                        r.fail("%s.userNameToFileName(%r (len %d), prefix=%r, suffix=%r) -> %r...: %s" % (mod, n[:40], len(n), prefix, suffix, fn[:40], why), known_id=kid)
                    if fn.lower() in ex:
                        r.fail("%s.userNameToFileName(%r, existing=<%d names>, prefix=%r, suffix=%r) -> %r clashes with an earlier name ignoring case" % (mod, n[:60], len(ex), prefix, suffix, fn[:60]))
                    ex.add(fn.lower())
    r.sample({"names": ["A", "a_", "con", "a" * 3 + "..."], "files": [U.userNameToFileName(n, suffix=".glif") for n in ("A", "a_", "con")]})
    return r


class _Obj:
    def __init__(self, **kw):
        self.__dict__.update(kw)


def draw_nothing(pen):
    pass


@check("C19")
def ufo_layers_and_glyph_files_on_disk(tier, rnd):
    """UFOWriter (format 3) given a sequence of layer names and, per layer, a sequence of glyph
    names: the directory and .glif file names found on disk afterwards are legal, at most 255
    characters, pairwise different ignoring case; layercontents.plist / contents.plist list exactly
    them; UFOReader returns the same layer names in order, the same default layer, the same glyph
    names per layer and for each glyph the data written under that name.  (Names longer than 80
    characters are ASCII here: the sandbox file system limits names to 255 BYTES.)"""
    from fontTools.ufoLib import UFOWriter, UFOReader

    r = Result("layer-name sequences with case variants / mangling collisions / reserved names / long names x glyph-name sequences likewise; distinct = class of the layer or glyph name")
    tmp = tempfile.mkdtemp()
    try:
        n_ufo = 25 if tier == "quick" else 300
        fixed_layers = [["public.default", "A", "a_", "a", "A_"], ["foreground", "Foreground", "FOREGROUND", "foreground_"], ["con", "CON", "aux.nul", "a" * 250, "a" * 250 + "b", "A" * 125]]
        for i in range(n_ufo):
            def fs_name(n):
                n = "".join(c if ord(c) >= 32 and c != "\x7f" else "c" for c in n)      # glyph / layer names must be XML text
                return n if len(n) <= 80 or n.isascii() else "".join(c if c.isascii() else "u" for c in n)
            layers = list(fixed_layers[i]) if i < len(fixed_layers) else []
            while len(layers) < 2 or (i >= len(fixed_layers) and len(layers) < rnd.randint(2, 7)):
                n = fs_name(glyph_name(rnd))
                if n and n not in layers:
                    layers.append(n)
                    if rnd.random() < 0.5 and n.swapcase() not in layers and n.swapcase():
                        layers.append(n.swapcase())
            path = os.path.join(tmp, "t%d.ufo" % i)
            written = {}
            try:
                w = UFOWriter(path, formatVersion=3)
                for li, layer in enumerate(layers):
                    gs = w.getGlyphSet(layerName=layer, defaultLayer=(li == 0))
                    names = []
                    for _ in range(rnd.randint(1, 12)):
                        n = fs_name(glyph_name(rnd))
                        if n and n not in names:
                            names.append(n)
                            if rnd.random() < 0.5 and n.swapcase() and n.swapcase() not in names:
                                names.append(n.swapcase())
                    for gi, n in enumerate(names):
                        gs.writeGlyph(n, _Obj(width=li * 1000 + gi + 1, unicodes=[gi + 33]), draw_nothing)
                        written[(layer, n)] = li * 1000 + gi + 1
                    gs.writeContents()
                w.writeLayerContents(layers)
                w.close()
            except Exception as e:
                base = os.path.basename(getattr(e, "filename", None) or "")
                over = isinstance(e, OSError) and len(base) > 255 and over_255_only_by_reserved_prefixes(base, "glyphs." if base.startswith("glyphs.") else "", ".glif" if base.endswith(".glif") else "")
                r.case(("write-error", type(e).__name__))
                r.fail("UFOWriter raised %s: %s for layers %r" % (type(e).__name__, str(e)[:200], [l[:30] for l in layers]),
                       known_id="C19-filename-over-255" if over else None)
                continue
            # what is on disk
            dirs = [d for d in os.listdir(path) if os.path.isdir(os.path.join(path, d))]
            for d in dirs:
                r.case(("layerdir", d == "glyphs", len(d) > 200))
                why = illegal_reason(d, "glyphs." if d != "glyphs" else "glyphs")
                if why:
                    r.fail("layer directory %r: %s" % (d[:60], why), known_id="C19-filename-over-255" if len(d) > 255 and over_255_only_by_reserved_prefixes(d, "glyphs.") else None)
                files = [f for f in os.listdir(os.path.join(path, d)) if f.endswith(".glif")]
                if len({f.lower() for f in files}) != len(files):
                    r.fail("glif file names in %r clash ignoring case: %r" % (d, sorted(files)[:10]))
                for f in files:
                    why = illegal_reason(f, "", ".glif")
                    if why:
                        r.fail("glif file name %r...: %s" % (f[:60], why), known_id="C19-filename-over-255" if len(f) > 255 and over_255_only_by_reserved_prefixes(f, "", ".glif") else None)
            if len({d.lower() for d in dirs}) != len(dirs) or len(dirs) != len(layers):
                r.fail("layers %r -> directories %r: not one directory per layer ignoring case" % (layers, sorted(dirs)))
            # read back
            try:
                rd = UFOReader(path)
                back = rd.getLayerNames()
                if back != layers or rd.getDefaultLayerName() != layers[0]:
                    r.fail("layer names %r read back as %r (default %r)" % (layers, back, rd.getDefaultLayerName()))
                for layer in layers:
                    gs = rd.getGlyphSet(layer)
                    want = {n for (l, n) in written if l == layer}
                    r.case(("layer", name_class(layer)))
                    if set(gs.keys()) != want:
                        r.fail("glyph names of layer %r read back as %r, written %r" % (layer, sorted(gs.keys())[:8], sorted(want)[:8]))
                        continue
                    for n in want:
                        r.case(("glyph", name_class(n)))
                        g = _Obj()
                        gs.readGlyph(n, g)
                        if getattr(g, "width", None) != written[(layer, n)] or getattr(g, "name", None) != n:
                            r.fail("glyph %r of layer %r read back with name %r width %r, written width %r" % (n[:40], layer[:40], getattr(g, "name", None), getattr(g, "width", None), written[(layer, n)]))
                rd.close()
            except Exception as e:
                r.fail("UFOReader raised %s: %s for layers %r" % (type(e).__name__, str(e)[:200], [l[:30] for l in layers]))
            shutil.rmtree(path, ignore_errors=True)
    finally:
        shutil.rmtree(tmp, ignore_errors=True)
    r.sample({"layers": fixed_layers[0]})
    return r


@check("C19")
def plist_round_trip(tier, rnd):
    """plistlib.loads(dumps(v)) and fromtree(totree(v)) return v for generated value trees: dicts
    (any string keys), lists/tuples, strings (XML specials, white space, CR, astral), integers in
    [-2^63, 2^64), floats (shortest repr, subnormal, -0.0), bools, bytes, whole-second datetimes;
    types are preserved exactly (bool/int/float distinct), in all pretty_print / sort_keys settings."""
    from fontTools.misc import plistlib

    r = Result("seeded value trees of depth <= 3; distinct = (top type, size)")
    n = 1500 if tier == "quick" else 30000
    for i in range(n):
        v = plist_value(rnd, 0) if i % 3 else {plist_key(rnd): plist_value(rnd, 1) for _ in range(rnd.randint(0, 6))}
        r.case((type(v).__name__, len(v) if hasattr(v, "__len__") else 0, i % 4))
        try:
            data = plistlib.dumps(v, pretty_print=bool(i % 2), sort_keys=bool(i % 4 < 2))
            back = plistlib.loads(data)
            tree = plistlib.fromtree(plistlib.totree(v, pretty_print=bool(i % 2), indent_level=i % 5))
        except Exception as e:
            r.fail("plistlib raised %s: %s on %r" % (type(e).__name__, e, v))
            continue
        if not same_plist(v, back):
            r.fail("plistlib.loads(dumps(v)) != v: %s" % first_difference(v, back) or repr(v)[:300], value=repr(v)[:300])
        if not same_plist(v, tree):
            r.fail("plistlib.fromtree(totree(v)) != v: %s" % first_difference(v, tree), value=repr(v)[:300])
        if isinstance(v, dict) and i % 7 == 0:
            buf = __import__("io").BytesIO()
            plistlib.dump(v, buf)
            buf.seek(0)
            if not same_plist(v, plistlib.load(buf)):
                r.fail("plistlib.load(dump(v)) != v for %r" % (v,))
    for v in (2 ** 64, -2 ** 63 - 1):
        r.case(("out-of-range", v > 0))
        try:
            back = plistlib.loads(plistlib.dumps(v))
            if back != v:
                r.fail("integer %d silently became %r" % (v, back))
        except OverflowError:
            pass
    r.sample({"value": repr(plist_value(rnd, 0))[:200]})
    return r


# ---- GLIF ----------------------------------------------------------------------------------
class _RecPointPen:
    def __init__(self):
        self.value = []

    def beginPath(self, identifier=None, **kw):
        self.value.append(("beginPath", identifier))

    def endPath(self):
        self.value.append(("endPath",))

    def addPoint(self, pt, segmentType=None, smooth=False, name=None, identifier=None, **kw):
        self.value.append(("addPoint", tuple(pt), segmentType, bool(smooth), name, identifier))

    def addComponent(self, base, transformation, identifier=None, **kw):
        self.value.append(("addComponent", base, tuple(transformation), identifier))


def coord(rnd):
    u = rnd.random()
    return rnd.randint(-1000, 1000) if u < 0.6 else rnd.choice(NOISE) if u < 0.75 else float(rnd.randint(-500, 500)) if u < 0.8 else rnd.uniform(-1000, 1000)


def glif_outline(rnd, fmt):
    """list of recorded point-pen calls that are valid GLIF <fmt> outlines"""
    calls, ids = [], iter("id%d" % i for i in itertools.count())
    ident = (lambda: next(ids) if rnd.random() < 0.4 else None) if fmt == 2 else (lambda: None)
    for _ in range(rnd.randint(0, 4)):
        kind = rnd.random()
        if kind < 0.2:
            t = (rnd.choice((1, 1, 0.5, -1, 2)), rnd.choice((0, 0, 0.25)), rnd.choice((0, 0, -0.25)), rnd.choice((1, 1, 1.5)), coord(rnd), coord(rnd))
            calls.append(("addComponent", text(rnd, False), t, ident()))
            continue
        closed = rnd.random() < 0.7
        pts = []
        if kind < 0.3:
            pts = [((coord(rnd), coord(rnd)), None) for _ in range(rnd.randint(1, 5))]     # no on-curve point
            closed = True
        else:
            for _ in range(rnd.randint(1, 5)):
                t = rnd.choice(("line", "curve", "qcurve"))
                noff = 0 if t == "line" else rnd.randint(0, 2) if t == "curve" else rnd.randint(0, 4)
                pts += [((coord(rnd), coord(rnd)), None) for _ in range(noff)] + [((coord(rnd), coord(rnd)), t)]
            if closed:
                k = rnd.randrange(len(pts))
                pts = pts[k:] + pts[:k]
            else:
                while pts[0][1] is None:
                    pts.pop(0)
                pts[0] = (pts[0][0], "move")
                if len(pts) == 1 and fmt == 1:
                    pts.append(((coord(rnd), coord(rnd)), "line"))       # a lone move point is an anchor in GLIF 1
        calls.append(("beginPath", ident()))
        for p, t in pts:
            calls.append(("addPoint", p, t, t is not None and rnd.random() < 0.3, text(rnd) if rnd.random() < 0.2 else None, ident()))
        calls.append(("endPath",))
    return calls


def replay_points(calls, pen):
    for c in calls:
        if c[0] == "beginPath":
            pen.beginPath(identifier=c[1])
        elif c[0] == "endPath":
            pen.endPath()
        elif c[0] == "addPoint":
            pen.addPoint(c[1], segmentType=c[2], smooth=c[3], name=c[4], identifier=c[5])
        else:
            pen.addComponent(c[1], c[2], identifier=c[3])


def color(rnd):
    return ",".join(rnd.choice(("0", "1", "0.5", ".25", "0.125", "1.0")) for _ in range(4))


def glif_record(rnd, fmt):
    ids = iter("gid%d" % i for i in itertools.count())
    g = {}
    if rnd.random() < 0.8:
        g["width"] = rnd.choice((0, 500, 1000, 250.5, 0.0, 600.0, rnd.choice(NOISE)))
    if rnd.random() < 0.3:
        g["height"] = rnd.choice((0, 1000, 880.25, rnd.choice(NOISE)))
    if rnd.random() < 0.7:
        g["unicodes"] = [rnd.choice((0x41, 0x20AC, 0x10FFFF, 0, 0x1F600, 0xE000, 65, 0xFFFF)) for _ in range(rnd.randint(1, 4))]
    if rnd.random() < 0.4:
        g["note"] = rnd.choice(("a note", "two\nlines", "para one\n\npara two", "  indented\n    more", "trailing  \nspaces", "x")) if rnd.random() < 0.7 else text(rnd, False)
    if rnd.random() < 0.5:
        g["lib"] = {plist_key(rnd): plist_value(rnd, 1) for _ in range(rnd.randint(1, 4))}
    if rnd.random() < 0.6:
        g["anchors"] = []
        for _ in range(rnd.randint(1, 3)):
            a = {"x": coord(rnd), "y": coord(rnd)}
            if fmt == 1 or rnd.random() < 0.7:
                a["name"] = text(rnd, False) if fmt == 2 else rnd.choice(("top", "bottom", "_top", "ogonek é", "a&b"))
            if fmt == 2 and rnd.random() < 0.3:
                a["color"] = color(rnd)
            if fmt == 2 and rnd.random() < 0.3:
                a["identifier"] = next(ids)
            g["anchors"].append(a)
    if fmt == 2:
        if rnd.random() < 0.3:
            g["image"] = {"fileName": rnd.choice(("img.png", "Bild ä.png", "a&b.png"))}
            for k, d in (("xScale", 1), ("xyScale", 0), ("yxScale", 0), ("yScale", 1), ("xOffset", 0), ("yOffset", 0)):
                g["image"][k] = d if rnd.random() < 0.6 else coord(rnd)
            if rnd.random() < 0.5:
                g["image"]["color"] = color(rnd)
        if rnd.random() < 0.4:
            g["guidelines"] = []
            for _ in range(rnd.randint(1, 3)):
                k = rnd.random()
                gl = {"x": coord(rnd)} if k < 0.3 else {"y": coord(rnd)} if k < 0.6 else {"x": coord(rnd), "y": coord(rnd), "angle": rnd.choice((0, 45, 90.5, 359.999999, 360, 12.000000000000002))}
                if rnd.random() < 0.5:
                    gl["name"] = text(rnd)
                if rnd.random() < 0.3:
                    gl["color"] = color(rnd)
                if rnd.random() < 0.3:
                    gl["identifier"] = next(ids)
                g["guidelines"].append(gl)
    return g


def normalised_note(s):
    return "\n".join(line.strip() for line in s.split("\n") if line.strip())


@check("C19")
def glif_round_trip(tier, rnd):
    """readGlyphFromString(writeGlyphToString(name, glyph, outline)) returns the glyph record and the
    point-pen calls that were written, for GLIF formats 1 and 2: advance (0 = absent), unicodes
    (order kept, duplicates dropped), note (up to surrounding white space), lib (type-exact),
    image, guidelines, anchors, contours (start off-curve, no on-curve point, open), point names,
    smooth flags, identifiers, components; numbers keep value and int/float kind.  Also through
    GlyphSet.writeGlyph / readGlyph on disk."""
    from fontTools.ufoLib.glifLib import writeGlyphToString, readGlyphFromString, GlyphSet

    r = Result("seeded glyph records x GLIF format {1, 2} x validate {on, off}; coordinates with float noise; distinct = (format, attributes present, number of outline calls)")
    tmp = tempfile.mkdtemp()
    try:
        gs = {1: GlyphSet(os.path.join(tmp, "g1"), ufoFormatVersion=2, expectContentsFile=False) if os.makedirs(os.path.join(tmp, "g1")) is None else None,
              2: GlyphSet(os.path.join(tmp, "g2"), ufoFormatVersion=3, expectContentsFile=False) if os.makedirs(os.path.join(tmp, "g2")) is None else None}
        n = 500 if tier == "quick" else 8000
        for i in range(n):
            fmt = 1 + i % 2
            rec, outline = glif_record(rnd, fmt), glif_outline(rnd, fmt)
            name = text(rnd, False) if i % 5 else glyph_name(rnd).replace("\x00", "") or "a"
            if any(ord(c) < 32 and c not in "\t\n\r" or c == "\x7f" for c in name):
                name = "ctl"
            validate = i % 3 != 0
            r.case((fmt, tuple(sorted(rec)), len(outline), validate))
            try:
                if i % 10 == 7:
                    gs[fmt].writeGlyph(name, _Obj(**rec), lambda pen: replay_points(outline, pen), validate=validate)
                    back, pen = _Obj(), _RecPointPen()
                    gs[fmt].readGlyph(name, back, pen, validate=validate)
                else:
                    s = writeGlyphToString(name, _Obj(**rec), lambda pen: replay_points(outline, pen), formatVersion=fmt, validate=validate)
                    back, pen = _Obj(), _RecPointPen()
                    readGlyphFromString(s, back, pen, validate=validate)
            except Exception as e:
                r.fail("GLIF %d write/read raised %s: %s for record %r outline %r" % (fmt, type(e).__name__, str(e)[:200], rec, outline[:6]))
                continue
            got = dict(back.__dict__)
            if got.pop("name", None) != name:
                r.fail("glyph name %r read back as %r" % (name, back.__dict__.get("name")))
            want = dict(rec)
            # documented representation choices
            for k in ("width", "height"):
                if "width" in want or "height" in want:
                    want.setdefault(k, 0)
                if not want.get("width") and not want.get("height"):
                    want.pop(k, None)
                    if got.get(k) == 0:
                        got.pop(k)
            if "unicodes" in want:
                want["unicodes"] = list(dict.fromkeys(want["unicodes"]))
            if fmt == 1:
                for k in ("image", "guidelines"):
                    want.pop(k, None)
            if "image" in want:
                want["image"] = dict(want["image"])
            note_w, note_g = want.pop("note", None), got.pop("note", None)
            if (note_w or "").strip() != (note_g or ""):
                kid = "C19-glif-note-inner-whitespace" if normalised_note(note_w or "") == (note_g or "") else None
                r.fail("note %r read back as %r" % (note_w, note_g), known_id=kid)
            lib_w, lib_g = want.pop("lib", None), got.pop("lib", None)
            if (lib_w or lib_g) and not (lib_w is not None and lib_g is not None and same_plist(lib_w, lib_g)):
                r.fail("glyph lib read back differently: %s" % first_difference(lib_w, lib_g))
            for k in ("width", "height"):
                if k in want and want[k] == 0 and got.get(k) == 0:
                    want[k] = got[k] = 0                       # 0 is the value of an absent attribute
            if set(want) != set(got) or not all(same_plist(want[k], got[k]) for k in want):
                r.fail("GLIF %d record read back differently: %s (written %r, read %r)" % (fmt, first_difference(want, got), want, got))
            # outline: format 1 has no identifiers; anchors of format 1 travel as one-point contours and come back as anchors
            exp = [c for c in outline]
            if [tuple(c) for c in pen.value] != [tuple(c) for c in exp]:
                d = next((j for j, (a, b) in enumerate(zip(pen.value, exp)) if tuple(a) != tuple(b)), min(len(pen.value), len(exp)))
                r.fail("GLIF %d outline read back differently at call %d: written %r read %r" % (fmt, d, exp[d:d + 1], pen.value[d:d + 1]))
    finally:
        shutil.rmtree(tmp, ignore_errors=True)
    r.sample({"record": repr(glif_record(rnd, 2))[:300]})
    return r


# ---- fontinfo / kerning / groups / lib ---------------------------------------------------------
def info_value(rnd, attr, spec, validator):
    t = spec.get("type")
    opts = spec.get("valueOptions")
    special = {
        "styleMapStyleName": lambda: rnd.choice(("regular", "italic", "bold", "bold italic")),
        "openTypeHeadCreated": lambda: "%04d/%02d/%02d %02d:%02d:%02d" % (rnd.randint(1970, 2030), rnd.randint(1, 12), rnd.randint(1, 28), rnd.randint(0, 23), rnd.randint(0, 59), rnd.randint(0, 59)),
        "openTypeOS2WidthClass": lambda: rnd.randint(1, 9),
        "openTypeOS2WeightClass": lambda: rnd.choice((1, 100, 400, 700, 1000)),
        "openTypeOS2Panose": lambda: [rnd.randint(0, 10) for _ in range(10)],
        "openTypeOS2FamilyClass": lambda: [rnd.randint(0, 14), rnd.randint(0, 15)],
        "postscriptBlueValues": lambda: sorted(rnd.sample(range(-20, 800), 2 * rnd.randint(0, 7))),
        "postscriptFamilyBlues": lambda: sorted(rnd.sample(range(-20, 800), 2 * rnd.randint(0, 7))),
        "postscriptOtherBlues": lambda: sorted(rnd.sample(range(-300, 0), 2 * rnd.randint(0, 5))),
        "postscriptFamilyOtherBlues": lambda: sorted(rnd.sample(range(-300, 0), 2 * rnd.randint(0, 5))),
        "postscriptStemSnapH": lambda: [rnd.randint(10, 200) for _ in range(rnd.randint(0, 12))],
        "postscriptStemSnapV": lambda: [rnd.choice((80, 90.5, 100)) for _ in range(rnd.randint(0, 12))],
        "postscriptWindowsCharacterSet": lambda: rnd.randint(1, 20),
        "openTypeGaspRangeRecords": lambda: [{"rangeMaxPPEM": p, "rangeGaspBehavior": sorted(rnd.sample(range(4), rnd.randint(0, 4)))} for p in (8, 16, 0xFFFF)][:rnd.randint(1, 3)],
        "openTypeNameRecords": lambda: [{"nameID": rnd.randint(0, 300), "platformID": 3, "encodingID": 1, "languageID": 0x409 + k, "string": text(rnd)} for k in range(rnd.randint(0, 3))],
        "woffMetadataUniqueID": lambda: {"id": text(rnd, False)},
        "woffMetadataVendor": lambda: {"name": text(rnd, False), "url": "https://example.com/?a=1&b=2", "dir": "ltr", "class": "c"},
        "woffMetadataCredits": lambda: {"credits": [{"name": text(rnd, False), "role": "design", "dir": "rtl"}]},
        "woffMetadataDescription": lambda: {"url": "u", "text": [{"text": text(rnd), "language": "en"}, {"text": "x", "dir": "ltr", "class": "k"}]},
        "woffMetadataLicense": lambda: {"url": "u", "id": "i", "text": [{"text": text(rnd)}]},
        "woffMetadataCopyright": lambda: {"text": [{"text": text(rnd)}]},
        "woffMetadataTrademark": lambda: {"text": [{"text": text(rnd), "language": "fr"}]},
        "woffMetadataLicensee": lambda: {"name": text(rnd, False)},
        "woffMetadataExtensions": lambda: [{"id": "e", "names": [{"text": "n"}], "items": [{"id": "i", "names": [{"text": text(rnd)}], "values": [{"text": text(rnd), "class": "c"}]}]}],
        "guidelines": lambda: [{"x": coord(rnd), "name": text(rnd)}, {"y": coord(rnd), "color": color(rnd)}, {"x": 1, "y": 2.5, "angle": 45, "identifier": "gl%d" % rnd.randint(0, 9999)}][:rnd.randint(1, 3)],
        "versionMinor": lambda: rnd.randint(0, 999),
        "unitsPerEm": lambda: rnd.choice((1000, 2048, 1000.5, 16)),
        "openTypeHeadLowestRecPPEM": lambda: rnd.randint(0, 20),
        "openTypeOS2WinAscent": lambda: rnd.randint(0, 2000),
        "openTypeOS2WinDescent": lambda: rnd.randint(0, 2000),
        "woffMajorVersion": lambda: rnd.randint(0, 9),
        "woffMinorVersion": lambda: rnd.randint(0, 9),
    }
    if attr in special:
        v = special[attr]()
    elif opts is not None:
        v = sorted(rnd.sample(list(opts), rnd.randint(0, min(5, len(opts)))))
    elif t is str:
        v = text(rnd)
    elif t is int:
        v = rnd.randint(-3000, 3000)
    elif t is bool:
        v = rnd.random() < 0.5
    elif isinstance(t, tuple):
        v = number(rnd)
        v = round(v, 6) if isinstance(v, float) and not v.is_integer() else v
    else:
        return None
    return v if validator(attr, v) else None


def kerning_value(pair, kerning, groups, side1, side2):
    """independent pair lookup: glyph/glyph, glyph/group, group/glyph, group/group"""
    a, b = pair
    ga = [g for g in side1 if a in groups.get(g, ())]
    gb = [g for g in side2 if b in groups.get(g, ())]
    for key in [(a, b)] + [(a, g) for g in gb[:1]] + [(g, b) for g in ga[:1]] + [(g, h) for g in ga[:1] for h in gb[:1]]:
        if key in kerning:
            return kerning[key]
    return 0


@check("C19")
def ufo_info_kerning_groups_lib(tier, rnd):
    """UFOWriter -> UFOReader: fontinfo attributes (every attribute of the format-3 table with a
    generated valid value), kerning, groups, lib, features and layer info read back equal (format
    3); written as format 2 and read back (the defined up-conversion), every fontinfo attribute
    that exists in format 2 is equal, and kerning means the same: for every pair of glyphs the
    kerning value looked up with the converted groups equals the value looked up in the written data
    (group names with and without the @MMK_L_/@MMK_R_ prefixes, names that coincide once the
    prefix is removed)."""
    from fontTools.ufoLib import (UFOWriter, UFOReader, fontInfoAttributesVersion3ValueData, fontInfoAttributesVersion2ValueData,
                                  validateFontInfoVersion3ValueForAttribute)

    r = Result("seeded UFOs: ~40 fontinfo attributes each, kerning over 8 glyphs and up to 6 groups, plist lib; x {format 3, format 2 -> read}; distinct = (format, attribute) and (format, kerning shape)")
    tmp = tempfile.mkdtemp()
    glyphs = ["A", "B", "C", "D", "x", "y", "z", "period"]
    try:
        n = 30 if tier == "quick" else 400
        for i in range(n):
            fmt = 3 if i % 2 == 0 else 2
            table = fontInfoAttributesVersion3ValueData
            info, attrs = _Obj(), {}
            for attr, spec in table.items():
                if rnd.random() < 0.45:
                    v = info_value(rnd, attr, spec, validateFontInfoVersion3ValueForAttribute)
                    if v is not None:
                        attrs[attr] = v
                        setattr(info, attr, v)
            # groups / kerning
            if fmt == 3:
                g1 = {"public.kern1." + n_: [] for n_ in rnd.sample(["O", "o", "é grp", "A.1", "x"], rnd.randint(0, 3))}
                g2 = {"public.kern2." + n_: [] for n_ in rnd.sample(["O", "o", "é grp", "A.1", "x"], rnd.randint(0, 3))}
            else:
                pool1 = ["@MMK_L_grp", "grp", "@MMK_L_O", "first O", "@MMK_L_@MMK_L_x"]
                pool2 = ["@MMK_R_grp", "grpR", "@MMK_R_O", "second O", "O"]
                g1 = {n_: [] for n_ in rnd.sample(pool1, rnd.randint(0, 4))}
                g2 = {n_: [] for n_ in rnd.sample(pool2, rnd.randint(0, 4))}
            for side in (g1, g2):
                free = list(glyphs)
                rnd.shuffle(free)
                for name in side:
                    for _ in range(rnd.randint(0, 3)):
                        if free:
                            side[name].append(free.pop())
            groups = dict(g1)
            groups.update(g2)
            groups.update({"plain group": rnd.sample(glyphs, 3), "other": []})
            kerning = {}
            firsts, seconds = glyphs + list(g1), glyphs + list(g2)
            for _ in range(rnd.randint(0, 14)):
                kerning[(rnd.choice(firsts), rnd.choice(seconds))] = rnd.choice((-50, 20, 0, -12.5, 7, rnd.choice(NOISE)))
            # in format 2 a group counts as kerning group when prefixed or referenced in kerning
            side1 = [g for g in g1 if fmt == 3 or g.startswith("@MMK_L_") or any(k[0] == g for k in kerning)]
            side2 = [g for g in g2 if fmt == 3 or g.startswith("@MMK_R_") or any(k[1] == g for k in kerning)]
            lib = {plist_key(rnd): plist_value(rnd, 1) for _ in range(rnd.randint(0, 5))}
            features = rnd.choice(("", "feature kern { pos A B -10; } kern;\n", "# ünï\nlanguagesystem DFLT dflt;\n"))
            path = os.path.join(tmp, "f%d.ufo" % i)
            r.case((fmt, "ufo", len(kerning) > 0, len(g1), len(g2)))
            try:
                w = UFOWriter(path, formatVersion=fmt)
                w.writeInfo(info)
                w.writeGroups(groups)
                w.writeKerning(kerning)
                w.writeLib(lib)
                w.writeFeatures(features)
                gs = w.getGlyphSet()
                for gname in glyphs:
                    gs.writeGlyph(gname, _Obj(width=500), draw_nothing)
                gs.writeContents()
                linfo = _Obj(color=color(rnd), lib={"k": [1, 2.5, "s"]})
                if fmt == 3:
                    gs.writeLayerInfo(linfo)
                    w.writeLayerContents()
                w.close()
                rd = UFOReader(path)
                back = _Obj()
                rd.readInfo(back)
                bgroups, bkerning, blib, bfeat = rd.readGroups(), rd.readKerning(), rd.readLib(), rd.readFeatures()
                blinfo = _Obj()
                if fmt == 3:
                    rd.getGlyphSet().readLayerInfo(blinfo)
                rd.close()
            except Exception as e:
                r.fail("UFO format %d write/read raised %s: %s (groups %r kerning %r)" % (fmt, type(e).__name__, str(e)[:300], groups, kerning))
                shutil.rmtree(path, ignore_errors=True)
                continue
            shutil.rmtree(path, ignore_errors=True)
            for attr, v in attrs.items():
                if fmt == 2 and attr not in fontInfoAttributesVersion2ValueData:
                    continue
                r.case((fmt, attr))
                if not hasattr(back, attr) or not same_plist(v, getattr(back, attr)):
                    r.fail("fontinfo %s written as %r (format %d) read back as %r" % (attr, v, fmt, getattr(back, attr, "<absent>")))
            extra = set(back.__dict__) - set(attrs)
            if extra:
                r.fail("fontinfo attributes %r appeared that were not written (format %d)" % (sorted(extra), fmt))
            if not same_plist(lib, blib) or bfeat != features:
                r.fail("lib / features read back differently (format %d): %s" % (fmt, first_difference(lib, blib)))
            if fmt == 3:
                if not same_plist({k: list(v) for k, v in groups.items()}, bgroups) or not same_plist(kerning, bkerning):
                    r.fail("groups / kerning read back differently (format 3): %s %s" % (first_difference(groups, bgroups), first_difference(kerning, bkerning)))
                if blinfo.__dict__ != linfo.__dict__:
                    r.fail("layer info read back as %r, written %r" % (blinfo.__dict__, linfo.__dict__))
            else:
                # up-conversion: same meaning for every glyph pair; the old groups are still there
                b1 = [g for g in bgroups if g.startswith("public.kern1.")]
                b2 = [g for g in bgroups if g.startswith("public.kern2.")]
                bad = [(a, b) for a in glyphs for b in glyphs
                       if kerning_value((a, b), kerning, groups, side1, side2) != kerning_value((a, b), bkerning, bgroups, b1, b2)]
                if bad:
                    a, b = bad[0]
                    collide = len({g.replace("@MMK_L_", "") for g in side1}) < len(side1) or len({g.replace("@MMK_R_", "") for g in side2}) < len(side2)
                    r.fail("format 2 -> 3 kerning conversion changed the value of pair (%s, %s) from %r to %r: groups %r kerning %r -> groups %r kerning %r" % (
                        a, b, kerning_value((a, b), kerning, groups, side1, side2), kerning_value((a, b), bkerning, bgroups, b1, b2), groups, kerning, bgroups, bkerning),
                        known_id="C19-ufo2-kerning-group-rename-collision" if collide else None)
                if any(k not in bgroups or list(bgroups[k]) != list(v) for k, v in groups.items()):
                    r.fail("format 2 groups %r not all present after reading: %r" % (groups, bgroups))
    finally:
        shutil.rmtree(tmp, ignore_errors=True)
    r.sample({"attributes": len(fontInfoAttributesVersion3ValueData)})
    return r


# ---- designspace ---------------------------------------------------------------------------------
def three_sorted(rnd):
    vals = sorted(rnd.choice(NOISE + [rnd.uniform(-100, 1000)]) for _ in range(3))
    return vals


def label_names(rnd):
    return {lang: text(rnd, False) for lang in rnd.sample(["en", "fr", "de", "ja", "zh-Hant", "fa-IR"], rnd.randint(0, 3))}


def make_designspace(rnd):
    from fontTools.designspaceLib import (DesignSpaceDocument, AxisDescriptor, DiscreteAxisDescriptor, AxisLabelDescriptor, LocationLabelDescriptor,
                                          RuleDescriptor, SourceDescriptor, InstanceDescriptor, VariableFontDescriptor, RangeAxisSubsetDescriptor,
                                          ValueAxisSubsetDescriptor, AxisMappingDescriptor)
    doc = DesignSpaceDocument()
    v5 = rnd.random() < 0.6
    names = rnd.sample(["Weight", "Width", "Optical Size", "Slant é", "Custom & <x>"], rnd.randint(1, 3))
    for k, name in enumerate(names):
        lo, de, hi = three_sorted(rnd)
        a = AxisDescriptor(tag=("wght", "wdth", "opsz", "slnt", "CUST")[k], name=name, minimum=lo, default=de, maximum=hi, hidden=rnd.random() < 0.2, labelNames=label_names(rnd))
        if rnd.random() < 0.6:
            # inputs must stay distinct in the 6-decimal text form
            ins = sorted({round(v, 4): v for v in [lo, de, hi] + [rnd.uniform(lo, hi) for _ in range(rnd.randint(0, 3))]}.values())
            outs = sorted(rnd.choice(NOISE + [rnd.uniform(0, 1000)]) for _ in ins)
            a.map = list(zip(ins, outs))
        if v5 and rnd.random() < 0.5:
            a.axisOrdering = rnd.randint(0, 5)
            a.axisLabels = [AxisLabelDescriptor(name=text(rnd, False), userValue=rnd.choice((lo, de, hi)), userMinimum=lo if rnd.random() < 0.5 else None,
                                                userMaximum=hi if rnd.random() < 0.5 else None, elidable=rnd.random() < 0.3, olderSibling=rnd.random() < 0.2,
                                                linkedUserValue=hi if rnd.random() < 0.3 else None, labelNames=label_names(rnd)) for _ in range(rnd.randint(0, 3))]
        doc.addAxis(a)
    if v5 and rnd.random() < 0.4:
        vals = sorted({round(v, 4): v for v in [rnd.choice((0, 1, 0.5, 12, rnd.choice(NOISE))) for _ in range(3)]}.values())
        d = DiscreteAxisDescriptor(tag="ital", name="Italic", values=vals, default=rnd.choice(vals), labelNames=label_names(rnd))
        if rnd.random() < 0.4:
            d.map = [(v, v * 2 + 1) for v in vals]
        doc.addAxis(d)
    axis_names = [a.name for a in doc.axes]

    def design_loc(aniso=False):
        loc = {}
        for a in doc.axes:
            v = rnd.choice(NOISE + [rnd.uniform(-50, 1000)])
            loc[a.name] = (v, rnd.choice(NOISE)) if aniso and rnd.random() < 0.3 else v
        return loc

    def user_loc(full=False):
        return {a.name: (rnd.choice(a.values) if hasattr(a, "values") else rnd.uniform(a.minimum, a.maximum) if rnd.random() < 0.5 else rnd.choice((a.minimum, a.default, a.maximum)))
                for a in doc.axes if full or rnd.random() < 0.7}

    if v5 and rnd.random() < 0.4:
        doc.elidedFallbackName = text(rnd, False)
    if v5 and rnd.random() < 0.4:
        for _ in range(rnd.randint(1, 3)):
            doc.locationLabels.append(LocationLabelDescriptor(name=text(rnd, False), userLocation=user_loc(True), elidable=rnd.random() < 0.3, olderSibling=rnd.random() < 0.3, labelNames=label_names(rnd)))
    if v5 and rnd.random() < 0.3:
        cont = [a for a in doc.axes if hasattr(a, "minimum")]
        for _ in range(rnd.randint(1, 3)):
            doc.axisMappings.append(AxisMappingDescriptor(inputLocation={a.name: rnd.choice(NOISE) for a in cont if rnd.random() < 0.8} or {cont[0].name: 1},
                                                          outputLocation={a.name: rnd.choice(NOISE) for a in cont if rnd.random() < 0.8} or {cont[0].name: 2},
                                                          description=text(rnd, False) if rnd.random() < 0.5 else None, groupDescription=rnd.choice((None, "group one", "g2"))))
    for k in range(rnd.randint(0, 3)):
        rule = RuleDescriptor(name=text(rnd, False) + str(k))
        for _ in range(rnd.randint(1, 2)):
            cs = []
            for an in rnd.sample(axis_names, rnd.randint(0, len(axis_names))):
                lo, _, hi = three_sorted(rnd)
                c = {"name": an, "minimum": lo if rnd.random() < 0.8 else None, "maximum": hi if rnd.random() < 0.8 else None}
                if c["minimum"] is None and c["maximum"] is None:
                    c["minimum"] = lo
                cs.append(c)
            rule.conditionSets.append(cs)
        rule.subs = [(text(rnd, False), text(rnd, False)) for _ in range(rnd.randint(1, 3))]
        doc.addRule(rule)
    doc.rulesProcessingLast = bool(doc.rules) and rnd.random() < 0.3        # an attribute of the <rules> element
    for k in range(rnd.randint(1, 4)):
        s = SourceDescriptor(filename="masters/m%d é.ufo" % k, name="master %d" % k, location=design_loc(), familyName=text(rnd, False) if rnd.random() < 0.6 else None,
                             styleName=text(rnd, False) if rnd.random() < 0.6 else None, layerName=text(rnd, False) if rnd.random() < 0.3 else None)
        if v5 and rnd.random() < 0.3:
            s.localisedFamilyName = {lang: text(rnd, False) for lang in rnd.sample(["fr", "de", "ja"], rnd.randint(1, 2))}
        s.copyLib, s.copyInfo, s.copyGroups, s.copyFeatures = (rnd.random() < 0.3 for _ in range(4))
        s.muteKerning, s.muteInfo = rnd.random() < 0.3, rnd.random() < 0.3
        s.mutedGlyphNames = [text(rnd, False) for _ in range(rnd.randint(0, 2))]
        doc.addSource(s)
    if v5 and rnd.random() < 0.5:
        for k in range(rnd.randint(1, 2)):
            vf = VariableFontDescriptor(name="VF %d é" % k, filename="out/vf%d.ttf" % k if rnd.random() < 0.6 else None, lib={plist_key(rnd): plist_value(rnd, 2)} if rnd.random() < 0.5 else {})
            for a in doc.axes:
                u = rnd.random()
                if u < 0.4 and hasattr(a, "minimum"):
                    vf.axisSubsets.append(RangeAxisSubsetDescriptor(name=a.name, userMinimum=a.minimum if rnd.random() < 0.5 else -math.inf,
                                                                    userMaximum=a.maximum if rnd.random() < 0.5 else math.inf, userDefault=a.default if rnd.random() < 0.5 else None))
                elif u < 0.7:
                    vf.axisSubsets.append(ValueAxisSubsetDescriptor(name=a.name, userValue=a.default))
            doc.addVariableFont(vf)
    for k in range(rnd.randint(0, 4)):
        inst = InstanceDescriptor(filename="instances/i%d.ufo" % k if rnd.random() < 0.7 else None, name="instance %d" % k if rnd.random() < 0.8 else None,
                                  familyName=text(rnd, False) if rnd.random() < 0.7 else None, styleName=text(rnd, False) if rnd.random() < 0.7 else None,
                                  postScriptFontName="PS-Name%d" % k if rnd.random() < 0.5 else None, styleMapFamilyName=text(rnd, False) if rnd.random() < 0.4 else None,
                                  styleMapStyleName=rnd.choice(("regular", "bold", "italic", "bold italic")) if rnd.random() < 0.4 else None)
        for attr in ("localisedFamilyName", "localisedStyleName", "localisedStyleMapFamilyName", "localisedStyleMapStyleName"):
            if rnd.random() < 0.3:
                setattr(inst, attr, {lang: text(rnd, False) for lang in rnd.sample(["fr", "de", "ja"], rnd.randint(1, 2))})
        if v5 and doc.locationLabels and rnd.random() < 0.3:
            inst.locationLabel = rnd.choice(doc.locationLabels).name
        elif v5 and rnd.random() < 0.5:
            ul = user_loc()
            inst.userLocation = ul
            inst.designLocation = {n_: v for n_, v in design_loc(True).items() if n_ not in ul}
        else:
            inst.designLocation = design_loc(True)
        if rnd.random() < 0.4:
            inst.lib = {plist_key(rnd): plist_value(rnd, 2)}
        doc.addInstance(inst)
    if rnd.random() < 0.5:
        doc.lib = {plist_key(rnd): plist_value(rnd, 1) for _ in range(rnd.randint(1, 4))}
    return doc


@check("C19")
def designspace_round_trip(tier, rnd):
    """DesignSpaceDocument.fromstring(doc.tostring()) (and write(path) / fromfile(path)) gives a document
    whose asdict() equals the original's: axes with maps and label names, axis labels, discrete axes,
    axis mappings, location labels, rules, sources, variable-font subsets, instances with design /
    user / anisotropic locations or a location label, localised names, libs.  Numbers (many with
    float noise: 300.00000000000006, 1e-7, 0.1*3*1000 ...) are equal within 1e-6; everything else
    exactly.  A second write/read of the re-read document changes nothing."""
    from fontTools.designspaceLib import DesignSpaceDocument

    r = Result("seeded documents (format 4 and 5 features); distinct = (format, #axes, has rules, has labels, has variable fonts, #instances)")
    tmp = tempfile.mkdtemp()
    try:
        n = 250 if tier == "quick" else 4000
        for i in range(n):
            doc = make_designspace(rnd)
            want = doc.asdict()
            try:
                s = doc.tostring()
                # the format-4 writer completes partial locations in place: take the snapshot it leaves
                want_after = doc.asdict()
                back = DesignSpaceDocument.fromstring(s)
                got = back.asdict()
                again = back.tostring()
                if i % 10 == 0:
                    p = os.path.join(tmp, "d%d.designspace" % i)
                    doc.write(p)
                    fromfile = DesignSpaceDocument.fromfile(p).asdict()
                else:
                    fromfile = None
            except Exception as e:
                r.case(("error", type(e).__name__))
                kid = None
                partial = any(hasattr(sub, "userMinimum") and 0 < sum((sub.userMinimum != -math.inf, sub.userMaximum != math.inf, sub.userDefault is not None)) < 3
                              for vf in doc.variableFonts for sub in vf.axisSubsets)
                if "axis-subset element must have min/max/default values or none at all" in str(e) and partial:
                    kid = "C19-designspace-partial-range-axis-subset-unreadable"
                elif "must contain an axis-subsets element" in str(e) and any(not vf.axisSubsets for vf in doc.variableFonts):
                    kid = "C19-designspace-variable-font-without-axis-subsets-unreadable"
                r.fail("designspace write/read raised %s: %s for %s" % (type(e).__name__, str(e)[:300], repr(want)[:600]), known_id=kid)
                continue
            r.case((back.formatTuple, len(doc.axes), bool(doc.rules), bool(doc.locationLabels), bool(doc.variableFonts), len(doc.instances)))
            if first_difference(want, want_after, 0):
                r.fail("tostring() changed the document it wrote: %s" % first_difference(want, want_after, 0))
            d = first_difference(_ds_norm(want), _ds_norm(got), 1e-6)
            if d:
                r.fail("designspace read back differently: %s" % d, document=s[:1500])
            d = first_difference(_ds_norm(got), _ds_norm(DesignSpaceDocument.fromstring(again).asdict()), 0)
            if d:
                r.fail("a second write/read changes the document again (no fixed point): %s" % d)
            if fromfile is not None:
                a, b = _ds_norm(want), _ds_norm(fromfile)
                for src in a.get("sources", []) + a.get("instances", []) + b.get("sources", []) + b.get("instances", []) + a.get("variableFonts", []) + b.get("variableFonts", []):
                    src.pop("path", None)
                d = first_difference(a, b, 1e-6)
                if d:
                    r.fail("designspace written to a file read back differently: %s" % d)
    finally:
        shutil.rmtree(tmp, ignore_errors=True)
    r.sample({"document": make_designspace(rnd).tostring()[:400]})
    return r


def _ds_norm(d):
    """asdict() output without the attributes that describe the file rather than the design"""
    import copy
    d = copy.deepcopy(d)
    for k in ("formatVersion", "formatTuple", "path", "filename", "default"):      # 'default' = result of findDefault() while reading
        d.pop(k, None)
    return d


@check("C19")
def axis_maps_are_inverse(tier, rnd):
    """AxisDescriptor.map_backward(map_forward(u)) == u and map_forward(map_backward(d)) == d, exactly
    (Fractions), for strictly increasing maps, at the map points, between them and outside the mapped
    range on both sides; for non-decreasing maps (flat parts) map_forward(map_backward(d)) == d; for
    strictly decreasing maps inside the mapped range; the same through DesignSpaceDocument.map_forward
    / map_backward with several axes, and forward is monotone."""
    from fontTools.designspaceLib import AxisDescriptor, DesignSpaceDocument

    r = Result("maps of 1..7 points with Fraction and float-noise coordinates x probe points {map points, midpoints, thirds, 3 outside on each side}; distinct = (kind of map, size, probe region)")
    n = 600 if tier == "quick" else 10000

    def probes(keys):
        keys = sorted(keys)
        ps = list(keys)
        for a, b in zip(keys, keys[1:]):
            ps += [(a + b) / 2, a + (b - a) / 3, a + (b - a) * Fr(9, 10)]
        span = (keys[-1] - keys[0]) or 1
        ps += [keys[0] - span * k for k in (Fr(1, 1000), 1, 100)] + [keys[-1] + span * k for k in (Fr(1, 1000), 1, 100)]
        return ps

    def region(p, keys):
        return "below" if p < min(keys) else "above" if p > max(keys) else "on" if p in keys else "inside"

    for i in range(n):
        size = rnd.randint(1, 7)
        kind = ("increasing", "increasing", "flat", "decreasing")[i % 4]
        def fr(v):
            return Fr(v) if rnd.random() < 0.7 else Fr(float(v) + rnd.choice((1e-7, 0.1, 1 / 3)))
        ins = sorted({fr(rnd.randint(-100, 1000)) for _ in range(size)})
        outs = sorted({fr(rnd.randint(-100, 1000)) for _ in range(len(ins) * 2)})[:len(ins)]
        while len(outs) < len(ins):
            outs.append(outs[-1] + 1)
        if kind == "flat" and len(outs) > 1:
            k = rnd.randrange(len(outs) - 1)
            outs[k + 1] = outs[k]
        if kind == "decreasing":
            outs = outs[::-1]
        a = AxisDescriptor(tag="wght", name="Weight", minimum=ins[0], default=ins[0], maximum=ins[-1])
        a.map = list(zip(ins, outs))
        if rnd.random() < 0.3:
            a.map = a.map + [a.map[0]]          # exact duplicate pairs are allowed
            rnd.shuffle(a.map)
        doc = DesignSpaceDocument()
        doc.addAxis(a)
        b = AxisDescriptor(tag="wdth", name="Width", minimum=0, default=5, maximum=10)
        doc.addAxis(b)
        try:
            prev = None
            for u in probes(ins):
                reg = region(u, ins)
                r.case((kind, len(ins), "fwd", reg))
                d = a.map_forward(u)
                if kind == "decreasing" and reg in ("below", "above"):
                    continue
                if kind != "flat" or len(ins) == 1:
                    back = a.map_backward(d)
                    if back != u:
                        r.fail("map_backward(map_forward(%s)) == %s for %s map %r" % (u, back, kind, a.map))
                elif a.map_forward(a.map_backward(d)) != d:
                    r.fail("map_forward(map_backward(map_forward(%s))) != map_forward(%s) for flat map %r" % (u, u, a.map))
                if doc.map_forward({"Weight": u}) != {"Weight": d, "Width": 5} or doc.map_backward({"Weight": d, "Width": (7, 9)})["Width"] != 7:
                    r.fail("DesignSpaceDocument.map_forward/map_backward disagree with the axis for %s, map %r" % (u, a.map))
            for d in probes(outs):
                reg = region(d, outs)
                r.case((kind, len(ins), "bwd", reg))
                if kind == "decreasing" and reg in ("below", "above"):
                    continue
                u = a.map_backward(d)
                if a.map_forward(u) != d:
                    r.fail("map_forward(map_backward(%s)) == %s for %s map %r" % (d, a.map_forward(u), kind, a.map))
                if a.map_backward((d, d + 5)) != u:
                    r.fail("map_backward of an anisotropic value does not use its first component: %s, map %r" % (d, a.map))
            if kind != "decreasing":
                ps = sorted(probes(ins))
                vals = [a.map_forward(p) for p in ps]
                if any(x > y for x, y in zip(vals, vals[1:])):
                    r.fail("map_forward is not monotone for the non-decreasing map %r" % (a.map,))
        except Exception as e:
            r.fail("axis map raised %s: %s for map %r" % (type(e).__name__, e, a.map))
    r.sample({"map": [(0, 10), (400, 66), (1000, 990)]})
    return r
