"""C07: subsetting preserves the behaviour of everything it keeps.

Every check runs the real fontTools.subset.Subsetter on a font, saves the result, and compares
the saved subset with the original through HarfBuzz (shaping of texts / glyph sequences over the
requested characters and glyphs, glyph advances, drawn outlines, at default and non-default
variation locations) and through a fresh decompile (cmap, glyph order, dangling glyph references)."""
import glob
import io
import itertools
import logging
import os
import unicodedata

from harness import check, Result
from _common import REPO

PUA = 0xF0000


def _quiet():
    logging.getLogger("fontTools").setLevel(logging.CRITICAL)


# --------------------------------------------------------------------------- corpus

_CORPUS = {}

_BINARIES = ("cffLib/data/LinLibertine_RBI.otf", "ttLib/data/TestVGID-Regular.otf", "subset/data/Lobster.subset.otf",
             "qu2cu/data/NotoSansArabic-Regular.quadratic.subset.ttf", "ttLib/data/Test-Regular.ttf",
             "ttLib/tables/data/Amstelvar-avar2.subset.ttf", "ttLib/tables/data/NotoSans-VF-cubic.subset.ttf",
             "ttLib/data/I.otf", "ttLib/data/I.ttf", "ttLib/data/IBMPlexSans-Bold.subset.otf")
_TTX = ("subset/data/layout_scripts.ttx", "subset/data/harfbuzz_repacker.ttx", "subset/data/TestGVAR.ttx",
        "subset/data/TestHVVAR.ttx", "subset/data/TestContextSubstFormat3.ttx", "subset/data/GPOS_PairPos_Format2_PR_2221.ttx",
        "subset/data/test_cntrmask_CFF.ttx", "subset/data/test_hinted_subrs_CFF.ttx", "subset/data/TestOTF-Regular.ttx",
        "subset/data/TestTTF-Regular.ttx", "subset/data/TestCID-Regular.ttx", "subset/data/TestCLR-Regular.ttx",
        "subset/data/cmap14_font1.ttx", "subset/data/GPOS_SinglePos_no_value_issue_2312.ttx",
        "varLib/data/MutatorSans_All_Variable.ttx", "varLib/data/master_ttx_varfont_otf/TestCFF2VF.ttx",
        "varLib/data/master_ttx_varfont_ttf/Mutator_IUP.ttx", "varLib/data/master_ttx_varfont_ttf/SparseMasters-VF.ttx",
        "varLib/instancer/data/PartialInstancerTest2-VF.ttx", "varLib/instancer/data/PartialInstancerTest3-VF.ttx",
        "varLib/instancer/data/PartialInstancerTest4-VF.ttx", "varLib/data/variable_ttx_interpolatable_cff2/interpolatable-test.ttx",
        "varLib/data/master_ttx_interpolatable_ttf/TestFamily2-Master0.ttx", "varLib/data/master_ttx_interpolatable_otf/TestFamily2-Master0.ttx",
        "varLib/data/master_vvar_cff2/TestVVAR.0.ttx", "varLib/data/master_ttx_interpolatable_ttf/TestFamily4-Regular.ttx")


def _font_bytes(rel):
    """Corpus font as sfnt bytes (TTX sources are compiled once per process)."""
    from fontTools.ttLib import TTFont

    if rel not in _CORPUS:
        path = os.path.join(REPO, "Tests", rel)
        if rel.endswith(".ttx"):
            f = TTFont()
            f.importXML(path)
            buf = io.BytesIO()
            f.save(buf)
            _CORPUS[rel] = buf.getvalue()
        else:
            _CORPUS[rel] = open(path, "rb").read()
    return _CORPUS[rel]


def _aots(rnd, n):
    files = sorted(glob.glob(os.path.join(REPO, "Tests", "ttLib", "tables", "data", "aots", "g*.otf")) +
                   glob.glob(os.path.join(REPO, "Tests", "ttLib", "tables", "data", "aots", "lookupflag*.otf")) +
                   glob.glob(os.path.join(REPO, "Tests", "ttLib", "tables", "data", "aots", "classdef*.otf")))
    files = [os.path.relpath(f, os.path.join(REPO, "Tests")) for f in files]
    return files if n >= len(files) else sorted(rnd.sample(files, n))


# --------------------------------------------------------------------------- subsetting

def _subset(data, unicodes=(), glyphs=(), gids=(), text="", **opts):
    """Run the real subsetter; returns (saved bytes, glyph order of the subset, Subsetter)."""
    from fontTools import subset

    options = subset.Options(**opts)
    font = subset.load_font(io.BytesIO(data), options)
    s = subset.Subsetter(options)
    s.populate(glyphs=list(glyphs), gids=list(gids), unicodes=list(unicodes), text=text)
    s.subset(font)
    out = io.BytesIO()
    subset.save_font(font, out, options)
    order = list(font.getGlyphOrder())
    font.close()
    return out.getvalue(), order, s


# --------------------------------------------------------------------------- HarfBuzz

class _HB:
    """HarfBuzz view of one font file: shaping of unicode text through the font's cmap, shaping
    of glyph-id sequences (private-use code point PUA+gid -> gid; everything else from the font),
    advances and outlines, optionally at a variation location (user coordinates)."""

    def __init__(self, data, order, location=None):
        import uharfbuzz as hb

        self.hb = hb
        self.order = order
        self.face = hb.Face(hb.Blob(data))
        self.font = hb.Font(self.face)
        self.gfont = hb.Font(self.face)
        if location:
            self.font.set_variations(location)
            self.gfont.set_variations(location)
        plain = self.font
        ff = hb.FontFuncs.create()
        ff.set_nominal_glyph_func(lambda font, cp, data: cp - PUA if cp >= PUA else (plain.get_nominal_glyph(cp) or 0))
        ff.set_glyph_h_advance_func(lambda font, gid, data: plain.get_glyph_h_advance(gid))
        self.gfont.funcs = ff

    def _run(self, font, cps, feats, script, lang, direction):
        hb = self.hb
        buf = hb.Buffer()
        buf.add_codepoints(cps)
        if direction:
            buf.direction = direction
        if script:
            buf.set_script_from_ot_tag(script)
        if lang:
            buf.set_language_from_ot_tag(lang)
        buf.guess_segment_properties()
        hb.shape(font, buf, feats)
        order = self.order
        return [(order[i.codepoint] if i.codepoint < len(order) else "gid%d" % i.codepoint, i.cluster,
                 p.x_advance, p.y_advance, p.x_offset, p.y_offset) for i, p in zip(buf.glyph_infos, buf.glyph_positions)]

    def text(self, s, feats=None, script=None, lang=None, direction=None):
        return self._run(self.font, [ord(c) for c in s], feats or {}, script, lang, direction)

    def glyphs(self, names, name2gid, feats=None, script=None, lang=None, direction="ltr"):
        return self._run(self.gfont, [PUA + name2gid[n] for n in names], feats or {}, script, lang, direction)

    def advance(self, gid):
        return (self.font.get_glyph_h_advance(gid), self.font.get_glyph_v_advance(gid))

    def outline(self, gid):
        from fontTools.pens.recordingPen import RecordingPen

        pen = RecordingPen()
        self.font.draw_glyph_with_pen(gid, pen)
        return pen.value


def _layout_info(font):
    """feature tags per table, [(script, lang)] of the original font."""
    feats, langs = set(), [(None, None)]
    for tag in ("GSUB", "GPOS"):
        if tag in font and getattr(font[tag].table, "FeatureList", None):
            for fr in font[tag].table.FeatureList.FeatureRecord:
                feats.add(str(fr.FeatureTag))
            if font[tag].table.ScriptList:
                for sr in font[tag].table.ScriptList.ScriptRecord:
                    langs.append((str(sr.ScriptTag), None))
                    for lr in sr.Script.LangSysRecord:
                        langs.append((str(sr.ScriptTag), str(lr.LangSysTag)))
    return sorted(feats), sorted(set(langs), key=str)


def _stable_char(u):
    """Characters whose shaping does not depend on the presence of OTHER characters in the font:
    no canonical decomposition (HarfBuzz decomposes / recomposes depending on font coverage)."""
    c = chr(u)
    d = unicodedata.decomposition(c)
    return not (d and not d.startswith("<")) and not (0xD800 <= u <= 0xDFFF)


_DI = ((0xAD, 0xAD), (0x34F, 0x34F), (0x61C, 0x61C), (0x115F, 0x1160), (0x17B4, 0x17B5), (0x180B, 0x180F), (0x200B, 0x200F),
       (0x202A, 0x202E), (0x2060, 0x206F), (0x3164, 0x3164), (0xFE00, 0xFE0F), (0xFEFF, 0xFEFF), (0xFFA0, 0xFFA0),
       (0xFFF0, 0xFFF8), (0x1BCA0, 0x1BCA3), (0x1D173, 0x1D17A), (0xE0000, 0xE0FFF))


def _default_ignorable(u):
    return any(lo <= u <= hi for lo, hi in _DI)


def _stable_text(s):
    return unicodedata.normalize("NFC", s) == s and unicodedata.normalize("NFD", s) == s


def _dangling(font):
    """Glyph names referenced anywhere in a freshly loaded font that are not in its glyph order
    (ttLib invents 'glyphNNNNN' names for glyph ids beyond numGlyphs)."""
    import re

    order = set(font.getGlyphOrder())
    pat = re.compile(r"^glyph\d{5,}$")
    bad = set()
    seen = set()

    def walk(obj, depth=0):
        if isinstance(obj, str):
            if pat.match(obj) and obj not in order:
                bad.add(obj)
        elif isinstance(obj, dict):
            for k, v in obj.items():
                walk(k, depth + 1)
                walk(v, depth + 1)
        elif isinstance(obj, (list, tuple, set, frozenset)):
            for v in obj:
                walk(v, depth + 1)
        elif hasattr(obj, "__dict__") and id(obj) not in seen and depth < 60:
            seen.add(id(obj))
            for k, v in vars(obj).items():
                if k not in ("reader", "font", "ttFont", "file"):
                    walk(v, depth + 1)

    for tag in font.keys():
        if tag in ("GlyphOrder", "post", "CFF ", "CFF2", "glyf", "loca", "hmtx", "vmtx", "gvar", "name", "head", "maxp", "OS/2", "hhea", "vhea"):
            continue
        try:
            t = font[tag]
            if hasattr(t, "ensureDecompiled"):
                t.ensureDecompiled()
            walk(t)
        except Exception as e:
            bad.add("%s: %s while decompiling %s" % (type(e).__name__, str(e)[:60], tag))
    if "glyf" in font:
        glyf = font["glyf"]
        for name in font.getGlyphOrder():
            g = glyf[name]
            if g.isComposite():
                for comp in g.components:
                    if comp.glyphName not in order:
                        bad.add("component %s of %s" % (comp.glyphName, name))
    return bad


# --------------------------------------------------------------------------- subset plan (shared by the corpus checks)

_RUNS = {}


def _orig(rel):
    """(bytes, TTFont, glyph order, best cmap, feature tags, script/langs, axes) of a corpus font."""
    from fontTools.ttLib import TTFont

    key = ("orig", rel)
    if key not in _RUNS:
        data = _font_bytes(rel)
        f = TTFont(io.BytesIO(data), lazy=False)
        cmap = dict(f.getBestCmap() or {})
        feats, langs = _layout_info(f)
        axes = [(a.axisTag, a.minValue, a.defaultValue, a.maxValue) for a in f["fvar"].axes] if "fvar" in f else []
        _RUNS[key] = (data, f, list(f.getGlyphOrder()), cmap, feats, langs, axes)
    return _RUNS[key]


def _gen_request(rnd, order, cmap, big):
    """One subset request: unicodes / text / glyph names / glyph ids / a mixture."""
    kind = rnd.choice(("unicodes", "unicodes", "text", "glyphs", "gids", "mixed"))
    k = rnd.randint(1, 40 if big else 10)
    us = sorted(cmap)
    req = {"unicodes": [], "text": "", "glyphs": [], "gids": []}
    if kind in ("unicodes", "mixed") and us:
        req["unicodes"] = rnd.sample(us, min(k, len(us)))
        if rnd.random() < 0.2:
            req["unicodes"].append(0x10FFFD if 0x10FFFD not in cmap else 0xE000)      # a character the font lacks
    if kind == "text" and us:
        req["text"] = "".join(chr(u) for u in rnd.sample(us, min(k, len(us))) if not 0xD800 <= u <= 0xDFFF)
    if kind in ("glyphs", "mixed"):
        req["glyphs"] = rnd.sample(order, min(k if kind == "glyphs" else 3, len(order)))
    if kind in ("gids", "mixed"):
        req["gids"] = rnd.sample(range(len(order)), min(k if kind == "gids" else 3, len(order)))
    req["kind"] = kind
    return req


def _gen_options(rnd, feats, langs, cff=False):
    o = {}
    x = rnd.random()
    if x < 0.5:
        o["layout_features"] = ["*"]
    elif x < 0.75 and feats:
        o["layout_features"] = rnd.sample(feats, rnd.randint(1, len(feats)))
    scripts = sorted({s for s, _ in langs if s})
    if scripts and rnd.random() < 0.25:
        o["layout_scripts"] = rnd.sample(scripts, rnd.randint(1, len(scripts)))
    for name, p in (("retain_gids", 0.3), ("recommended_glyphs", 0.2), ("glyph_names", 0.5), ("notdef_outline", 0.5),
                    ("desubroutinize", 0.3), ("passthrough_tables", 0.3), ("name_legacy", 0.2), ("legacy_kern", 0.3),
                    ("recalc_bounds", 0.2), ("recalc_max_context", 0.3), ("legacy_cmap", 0.2)):
        if rnd.random() < p:
            o[name] = True
    if rnd.random() < 0.3:
        o["hinting"] = False
    if rnd.random() < 0.15 and not cff:      # documented as impossible for PostScript-flavoured fonts
        o["notdef_glyph"] = False
    if rnd.random() < 0.3:
        o["name_IDs"] = ["*"]
        o["name_languages"] = ["*"]
    if rnd.random() < 0.3:
        o["harfbuzz_repacker"] = rnd.choice((False, True))
    return o


def _plan(tier, rnd):
    """Deterministic list of (font, request, options): every corpus font several times."""
    plan = []
    mult = 1 if tier == "quick" else 10
    fonts = [(rel, 12 * mult if i < 2 else 6 * mult) for i, rel in enumerate(_BINARIES + _TTX)]
    fonts += [(rel, 1 * mult) for rel in _aots(rnd, 60 if tier == "quick" else 1000)]
    for rel, n in fonts:
        data, f, order, cmap, feats, langs, axes = _orig(rel)
        if ("dangling", rel) not in _RUNS:
            _RUNS["dangling", rel] = bool(_dangling(f))
        if _RUNS["dangling", rel]:
            continue            # the font's own lookups point at glyph ids beyond numGlyphs (TestVGID's virtual glyphs, AOTS
                                # classdef1_font3, gsub1_1_modulo): 'refers to no removed glyph' cannot hold, outside the domain
        for k in range(n):
            plan.append((rel, _gen_request(rnd, order, cmap, len(order) > 200), _gen_options(rnd, feats, langs, "CFF " in f or "CFF2" in f)))
    return plan


def _run(case):
    rel, req, opts = case
    key = repr(case)
    if key not in _RUNS:
        try:
            _RUNS[key] = _subset(_orig(rel)[0], unicodes=req["unicodes"], glyphs=req["glyphs"], gids=req["gids"], text=req["text"], **opts)
        except Exception as e:          # reported by the checks
            import traceback

            _RUNS[key] = e
            e._where = traceback.format_exc()[-300:]
    return _RUNS[key]


def _seeds(case):
    """(requested unicodes present in the font, names of the glyphs requested directly or through them)."""
    rel, req, opts = case
    data, f, order, cmap, feats, langs, axes = _orig(rel)
    us = [u for u in list(req["unicodes"]) + [ord(c) for c in req["text"]] if u in cmap]
    names = [cmap[u] for u in us] + list(req["glyphs"]) + [order[g] for g in req["gids"]]
    return sorted(set(us)), sorted(set(names), key=order.index)


def _retained_features(opts, feats):
    from fontTools import subset

    want = opts.get("layout_features", subset.Options._layout_features_default)
    return set(feats) if "*" in want else set(feats) & set(want)


def _locations(rnd, axes, n):
    if not axes:
        return [None]
    locs = [None]
    for _ in range(n):
        locs.append({t: rnd.choice((lo, hi, round(rnd.uniform(lo, hi), 1), round(rnd.uniform(lo, hi), 1))) for t, lo, d, hi in axes})
    return locs


def _effective_features(font, table, script, lang):
    """Feature tags HarfBuzz finds for (script, lang) in GSUB/GPOS: exact script, else DFLT / dflt /
    latn; exact language system, else the default one."""
    if table not in font or not getattr(font[table].table, "ScriptList", None) or not font[table].table.FeatureList:
        return frozenset()
    t = font[table].table
    scripts = {sr.ScriptTag: sr.Script for sr in t.ScriptList.ScriptRecord}
    sc = next((scripts[x] for x in (script, "DFLT", "dflt", "latn") if x in scripts), None)
    if sc is None:
        return frozenset()
    ls = next((lr.LangSys for lr in sc.LangSysRecord if lr.LangSysTag == lang), None) or sc.DefaultLangSys
    if ls is None:
        return frozenset()
    idx = list(ls.FeatureIndex) + ([ls.ReqFeatureIndex] if ls.ReqFeatureIndex != 0xFFFF else [])
    recs = t.FeatureList.FeatureRecord
    return frozenset(recs[i].FeatureTag for i in idx if i < len(recs))


def _script_resolves_within(font, script, kept_scripts):
    for table in ("GSUB", "GPOS"):
        if table in font and getattr(font[table].table, "ScriptList", None):
            have = {sr.ScriptTag for sr in font[table].table.ScriptList.ScriptRecord}
            hit = next((x for x in (script, "DFLT", "dflt", "latn") if x in have), None)
            if hit is not None and hit not in kept_scripts:
                return False
    return True


def _has_classes(font):
    return "GDEF" in font and getattr(font["GDEF"].table, "GlyphClassDef", None) is not None and bool(font["GDEF"].table.GlyphClassDef.classDefs)


def _fallback_hazard(orig, sub, script, lang, all_langs):
    """HarfBuzz switches to a heuristic that is not font data - fallback mark positioning when the
    GPOS language system has no 'mark' feature - so when the subset lost its last mark lookup for the
    language system used, runs containing marks are not comparable.  (Likewise _has_classes: without
    any GDEF glyph class HarfBuzz synthesises classes from Unicode; such runs are skipped entirely.)"""
    if ("GPOS" in orig) != ("GPOS" in sub):
        return True            # no GPOS at all: HarfBuzz positions marks by its fallback heuristic
    pairs = [(script, lang)] if script else all_langs

    def scripts(font):
        sl = getattr(font["GPOS"].table, "ScriptList", None) if "GPOS" in font else None
        return {sr.ScriptTag for sr in sl.ScriptRecord} if sl else set()

    so, ss = scripts(orig), scripts(sub)
    if any((s in so) != (s in ss) for s, _ in pairs if s):
        return True            # e.g. HarfBuzz's Hebrew shaper ignores GPOS unless GPOS itself has a 'hebr' script record
    return any(("mark" in _effective_features(orig, "GPOS", s, l)) != ("mark" in _effective_features(sub, "GPOS", s, l)) for s, l in pairs)


def _mark_glyphs(font):
    if not _has_classes(font):
        return set()
    return {g for g, c in font["GDEF"].table.GlyphClassDef.classDefs.items() if c == 3}


def _case_label(case):
    rel, req, opts = case
    r = {k: v for k, v in req.items() if v and k != "kind"}
    if "unicodes" in r:
        r["unicodes"] = ["%04X" % u for u in r["unicodes"]]
    return "%s request=%s options=%s" % (rel, r, opts)


@check("C07")
def corpus_subsets_shape_retained_text_like_the_original(tier, rnd):
    """For every corpus font, random requests (unicodes, text, glyph names, glyph ids, mixtures) and
    random option combinations: HarfBuzz shapes every generated text over the requested characters
    and every glyph sequence over the requested glyphs (singles, pairs, random runs; default
    features and all retained features forced on, features the request dropped switched off; a
    retained script/language; default and non-default variation locations) to the same glyph names,
    clusters, advances and offsets with the saved subset as with the original font.
    Characters with canonical decompositions are left out of the texts (HarfBuzz's normaliser makes
    their shaping depend on which OTHER characters a font has, in the original as in the subset), and
    runs with combining marks are left out when the subset no longer has any 'mark' feature for the
    language system, and a run is skipped when the subset has no GDEF glyph class left at all
    (HarfBuzz then falls back to heuristics that are not font data); default-ignorable characters only appear when U+0020 is requested as well (HarfBuzz
    renders them with the space glyph)."""
    _quiet()
    r = Result("corpus fonts (real OTF/TTF/variable fonts, compiled TTX test fonts, sampled AOTS fonts) x generated request x generated options; "
               "texts/glyph runs over the requested items, compared original vs subset with HarfBuzz; distinct = (font, request kind, option names)")
    plan = _plan(tier, rnd)
    for case in plan:
        rel, req, opts = case
        data, f, order, cmap, feats, langs, axes = _orig(rel)
        res = _run(case)
        key = (rel, req["kind"], tuple(sorted(opts)))
        if isinstance(res, Exception):
            r.case(key)
            r.fail("subsetting raised %s: %s | %s | %s" % (type(res).__name__, str(res)[:100], _case_label(case), res._where[-200:]))
            continue
        sub, sorder, s = res
        us, names = _seeds(case)
        # default ignorables are rendered with the font's space glyph: comparable only if U+0020 is requested too
        us = [u for u in us if _stable_char(u) and (0x20 in us or not _default_ignorable(u))]
        kept = _retained_features(opts, feats)
        off = {t: False for t in feats if t not in kept}
        on = dict(off)
        on.update({t: True for t in kept})
        scripts = opts.get("layout_scripts")
        ok_langs = langs
        if scripts:
            # only an explicit script that GSUB and GPOS both resolve to a RETAINED script record is comparable
            # (HarfBuzz falls back to DFLT / dflt / latn records, and guesses the script of untagged text)
            ok_langs = [sl for sl in langs if sl[0] in scripts and sl[0] != "DFLT" and _script_resolves_within(f, sl[0], scripts)]
            if not ok_langs:
                r.case(key + ("no comparable script",))
                continue
        texts = [chr(u) for u in us]
        texts += [a + b for a in texts for b in texts] if len(us) <= 8 else ["".join(chr(rnd.choice(us)) for _ in range(2)) for _ in range(60)]
        if us:
            texts += ["".join(chr(rnd.choice(us)) for _ in range(rnd.randint(3, 6))) for _ in range(40)]
        texts = [t for t in texts if _stable_text(t)]
        runs = [(n,) for n in names]
        runs += [(a, b) for a in names for b in names] if len(names) <= 8 else [(rnd.choice(names), rnd.choice(names)) for _ in range(60)]
        if names:
            runs += [tuple(rnd.choice(names) for _ in range(rnd.randint(3, 6))) for _ in range(40)]
        n2g_o = {n: i for i, n in enumerate(order)}
        n2g_s = {n: i for i, n in enumerate(sorder)}
        if not opts.get("notdef_outline"):
            # the option deliberately empties glyph 0 (outline and gvar data): see glyph_invariants
            runs = [run for run in runs if order[0] not in run]
        missing = [n for n in names if n not in n2g_s]
        if missing:
            r.case(key)
            r.fail("requested glyphs %s are not in the subset | %s" % (missing[:5], _case_label(case)))
            continue
        from fontTools.ttLib import TTFont

        fsub = TTFont(io.BytesIO(sub))
        if _has_classes(f) != _has_classes(fsub):
            r.case(key + ("glyph classes lost: not comparable",))
            continue
        marks = _mark_glyphs(f)
        all_texts, all_runs = texts, runs
        bad = 0
        for loc in _locations(rnd, axes, 2):
            a, b = _HB(data, order, loc), _HB(sub, sorder, loc)
            for script, lang in rnd.sample(ok_langs, min(2, len(ok_langs))):
                texts, runs = all_texts, all_runs
                if _fallback_hazard(f, fsub, script, lang, langs):
                    texts = [t for t in texts if not any(unicodedata.category(c).startswith("M") for c in t)]
                    runs = [run for run in runs if not any(n in marks for n in run)]
                for fe in (off, on):
                    for t in texts:
                        r.case(key)
                        x, y = a.text(t, fe, script, lang), b.text(t, fe, script, lang)
                        if x != y:
                            bad += 1
                            if bad <= 2:
                                r.fail("text %r (script %s lang %s, features %s, location %s): subset shapes %s, original %s | %s"
                                       % (t, script, lang, "forced on" if fe is on else "default", loc, y, x, _case_label(case)))
                    for run in runs:
                        r.case(key)
                        x, y = a.glyphs(run, n2g_o, fe, script, lang), b.glyphs(run, n2g_s, fe, script, lang)
                        if x != y:
                            bad += 1
                            if bad <= 2:
                                r.fail("glyph run %s (script %s lang %s, features %s, location %s): subset shapes %s, original %s | %s"
                                       % (list(run), script, lang, "forced on" if fe is on else "default", loc, y, x, _case_label(case)))
        r.sample({"font": rel, "request": {k: v for k, v in req.items() if v}, "options": opts, "subset_glyphs": len(sorder), "texts": len(texts), "runs": len(runs)})
    return r


@check("C07")
def corpus_subsets_keep_cmap_ids_metrics_outlines_and_references(tier, rnd):
    """Same subset runs as the shaping check.  In the saved subset: every requested character the
    font had maps to the same glyph, every requested glyph (by name, id, character) is present;
    with retain_gids every kept glyph has its original glyph id; every kept glyph has the same
    horizontal/vertical advance and the same drawn outline (HarfBuzz, default and non-default
    variation locations; glyph 0's outline is exempt unless notdef_outline is set); numGlyphs matches
    the glyph order; no table refers to a glyph id outside the subset."""
    from fontTools.ttLib import TTFont

    _quiet()
    r = Result("same (font, request, options) plan as corpus_subsets_shape_...; per kept glyph (capped at 80 per run) x variation location: "
               "advance and outline via HarfBuzz; cmap via HarfBuzz; dangling references via a full decompile of the saved file; "
               "distinct = (font, request kind, option names)")
    for case in _plan(tier, rnd):
        rel, req, opts = case
        data, f, order, cmap, feats, langs, axes = _orig(rel)
        res = _run(case)
        key = (rel, req["kind"], tuple(sorted(opts)))
        if isinstance(res, Exception):
            r.case(key)
            continue                           # reported by the shaping check
        sub, sorder, s = res
        label = _case_label(case)
        us, names = _seeds(case)
        n2g_o = {n: i for i, n in enumerate(order)}
        n2g_s = {n: i for i, n in enumerate(sorder)}
        a0, b0 = _HB(data, order), _HB(sub, sorder)
        # requested characters and glyphs
        fs = TTFont(io.BytesIO(sub), lazy=False)
        scmap = fs.getBestCmap() or {}
        for u in us:
            r.case(key)
            got = sorder[fs.getGlyphID(scmap[u])] if u in scmap else None      # by glyph id: reloaded names may be synthetic
            if got != cmap[u]:
                # known: with notdef_glyph=False the first kept glyph becomes glyph id 0, which a cmap cannot map to
                kid = "C07-no-notdef-glyph-gid0-unmapped" if opts.get("notdef_glyph") is False and n2g_s.get(cmap[u]) == 0 and got is None else None
                r.fail("requested U+%04X maps to %s in the subset, to %s in the original | %s" % (u, got, cmap[u], label), known_id=kid)
            g = b0.font.get_nominal_glyph(u)
            if g and sorder[g] != cmap[u]:
                r.fail("HarfBuzz maps requested U+%04X to %s in the subset, original has %s | %s" % (u, sorder[g], cmap[u], label))
        for n in names:
            r.case(key)
            if n not in n2g_s:
                r.fail("requested glyph %s is not in the subset | %s" % (n, label))
        kept = [n for n in sorder if n in s.glyphs_retained]
        if opts.get("retain_gids"):
            for n in kept:
                r.case(key)
                if n2g_s[n] != n2g_o[n]:
                    r.fail("retain_gids: kept glyph %s moved from id %d to %d | %s" % (n, n2g_o[n], n2g_s[n], label))
        elif [n for n in sorder if n in n2g_o] != sorted((n for n in sorder if n in n2g_o), key=n2g_o.get):
            pass                                # relative order is not part of the property
        # saved file is self-consistent
        r.case(key)
        if fs["maxp"].numGlyphs != len(sorder) or len(fs.getGlyphOrder()) != len(sorder):
            r.fail("maxp.numGlyphs %d / reloaded glyph order %d != %d glyphs of the subset | %s" % (fs["maxp"].numGlyphs, len(fs.getGlyphOrder()), len(sorder), label))
        bad = _dangling(fs)
        if bad:
            r.fail("saved subset refers to glyphs outside the subset: %s | %s" % (sorted(bad)[:4], label))
        # metrics and outlines of kept glyphs
        sample = kept if len(kept) <= 80 else rnd.sample(kept, 80)
        for loc in _locations(rnd, axes, 2 if tier == "quick" else 4):
            a, b = (a0, b0) if loc is None else (_HB(data, order, loc), _HB(sub, sorder, loc))
            for n in sample:
                r.case(key)
                go, gs = n2g_o[n], n2g_s[n]
                emptied = n == order[0] and not opts.get("notdef_outline") and "glyf" in f
                if a.advance(go) != b.advance(gs):
                    # known: prune_pre_subset empties gvar.variations of glyph 0 together with its outline; without
                    # HVAR its advance then no longer varies
                    kid = "C07-notdef-advance-variation-dropped" if emptied and loc is not None and "HVAR" not in f else None
                    r.fail("glyph %s advance (h,v) %s in the subset, %s in the original at %s | %s" % (n, b.advance(gs), a.advance(go), loc, label), known_id=kid)
                if not emptied and not (n == order[0] and not opts.get("notdef_outline")) and a.outline(go) != b.outline(gs):
                    r.fail("glyph %s outline differs at %s: subset %s, original %s | %s" % (n, loc, str(b.outline(gs))[:150], str(a.outline(go))[:150], label))
        r.sample({"font": rel, "kept": len(kept), "options": opts})
    return r


def _involved_glyphs(font):
    """Glyph names mentioned anywhere in GSUB/GPOS/GDEF."""
    gset = set(font.getGlyphOrder())
    out, seen = set(), set()

    def walk(obj):
        if isinstance(obj, str):
            if obj in gset:
                out.add(obj)
        elif isinstance(obj, dict):
            for k, v in obj.items():
                walk(k)
                walk(v)
        elif isinstance(obj, (list, tuple, set, frozenset)):
            for v in obj:
                walk(v)
        elif hasattr(obj, "__dict__") and id(obj) not in seen:
            seen.add(id(obj))
            for k, v in vars(obj).items():
                if k not in ("reader", "font"):
                    walk(v)

    for tag in ("GSUB", "GPOS", "GDEF"):
        if tag in font:
            font[tag].ensureDecompiled()
            walk(font[tag].table)
    return out


def _all_texts(alphabet, maxlen):
    for n in range(1, maxlen + 1):
        for t in itertools.product(alphabet, repeat=n):
            yield t


@check("C07")
def aots_lookup_type_fonts_closure_and_shaping(tier, rnd):
    """Every AOTS lookup-type font (one font per GSUB/GPOS lookup type, format and edge case):
    subset to random sets of 3..6 of the characters its lookups involve (by unicode, text or glyph
    name; with and without retain_gids), keep all features, and compare HarfBuzz shaping with the
    'test' feature for ALL texts up to length 3 over the requested characters plus random longer
    ones: same glyph names, advances, offsets; no output glyph may be missing from the subset.
    (Fonts whose own lookups refer to glyph ids beyond numGlyphs are skipped.)"""
    _quiet()
    r = Result("all AOTS fonts x 2 (quick) / 8 (thorough) random requests over the glyphs the layout tables mention; texts = all "
               "sequences of length <= 3 over the requested characters + random longer; distinct = (font, request kind, retain_gids)")
    fonts = _aots(rnd, 1000)
    for rel in fonts:
        data, f, order, cmap, feats, langs, axes = _orig(rel)
        if not feats or _dangling(f):
            continue            # fonts whose own lookups point at glyph ids beyond numGlyphs (gsub1_1_modulo) are outside the domain
        rev = {}
        for u, g in cmap.items():
            rev.setdefault(g, u)
        inv = sorted(rev[g] for g in _involved_glyphs(f) if g in rev)
        if not inv:
            continue
        n2g_o = {n: i for i, n in enumerate(order)}
        a = _HB(data, order)
        fe = {t: True for t in feats}
        for k in range(2 if tier == "quick" else 8):
            chars = sorted(rnd.sample(inv, min(len(inv), rnd.randint(3, 6))))
            if rnd.random() < 0.3:
                chars.append(rnd.choice(sorted(cmap)))
            kind = rnd.choice(("unicodes", "text", "glyphs"))
            retain = rnd.random() < 0.3
            opts = dict(layout_features=["*"], retain_gids=retain, notdef_outline=True, glyph_names=rnd.random() < 0.5)
            req = dict(unicodes=chars) if kind == "unicodes" else dict(text="".join(map(chr, chars))) if kind == "text" else dict(glyphs=[cmap[u] for u in chars])
            key = (rel, kind, retain)
            try:
                sub, sorder, s = _subset(data, **req, **opts)
            except Exception as e:
                r.case(key)
                r.fail("%s: subsetting %s %s raised %s: %s" % (rel, req, opts, type(e).__name__, str(e)[:100]))
                continue
            from fontTools.ttLib import TTFont

            if _has_classes(f) != _has_classes(TTFont(io.BytesIO(sub))):
                r.case(key + ("glyph classes lost: not comparable",))
                continue
            b = _HB(sub, sorder)
            n2g_s = {n: i for i, n in enumerate(sorder)}
            names = [cmap[u] for u in chars]
            texts = list(_all_texts(names, 3 if len(names) <= 5 else 2))
            texts += [tuple(rnd.choice(names) for _ in range(rnd.randint(4, 7))) for _ in range(60)]
            bad = 0
            for t in texts:
                r.case(key)
                for direction in ("ltr",) if bad or len(t) != 3 else ("ltr", "rtl"):
                    x = a.glyphs(t, n2g_o, fe, None, None, direction)
                    y = b.glyphs(t, n2g_s, fe, None, None, direction)
                    if x != y:
                        bad += 1
                        if bad <= 1:
                            r.fail("%s request %s retain_gids=%s: glyph run %s (%s) shapes to %s in the subset, %s in the original"
                                   % (rel, req, retain, list(t), direction, y, x))
            if kind != "glyphs":
                for t in texts[:200]:
                    r.case(key)
                    st = "".join(chr(rev[n]) for n in t)
                    x, y = a.text(st, fe, None, None, "ltr"), b.text(st, fe, None, None, "ltr")
                    if x != y and bad == 0:
                        bad += 1
                        r.fail("%s request %s retain_gids=%s: text %r shapes to %s in the subset, %s in the original" % (rel, req, retain, st, y, x))
        r.sample({"font": rel, "involved_chars": len(inv)})
    return r


# --------------------------------------------------------------------------- generated fonts

def _build_font(glyphs, cmap, axes=None):
    """Minimal TrueType font: box outlines of distinct widths, distinct advances."""
    from fontTools.fontBuilder import FontBuilder
    from fontTools.pens.ttGlyphPen import TTGlyphPen

    fb = FontBuilder(1000, isTTF=True)
    fb.setupGlyphOrder(list(glyphs))
    fb.setupCharacterMap(dict(cmap))
    gl = {}
    for i, g in enumerate(glyphs):
        pen = TTGlyphPen(None)
        if i:
            w = 100 + 7 * i
            pen.moveTo((0, 0)); pen.lineTo((0, 500 + i)); pen.lineTo((w, 500 + i)); pen.lineTo((w, 0)); pen.closePath()
        gl[g] = pen.glyph()
    fb.setupGlyf(gl)
    fb.setupHorizontalMetrics({g: (400 + 13 * i, 0) for i, g in enumerate(glyphs)})
    fb.setupHorizontalHeader(ascent=800, descent=-200)
    fb.setupNameTable({"familyName": "C07", "styleName": "Regular"})
    fb.setupOS2()
    fb.setupPost()
    if axes:
        fb.setupFvar([(t, lo, d, hi, t) for t, lo, d, hi in axes], [])
    return fb.font


def _gsub(font, lookups, features):
    """font['GSUB'] with the given Lookup objects and features [(tag, [lookup indices])] under DFLT and latn."""
    from fontTools.ttLib import newTable
    from fontTools.ttLib.tables import otTables as ot

    tbl = newTable("GSUB")
    t = tbl.table = ot.GSUB()
    t.Version = 0x00010000
    t.LookupList = ot.LookupList()
    t.LookupList.Lookup = list(lookups)
    t.LookupList.LookupCount = len(lookups)
    t.FeatureList = ot.FeatureList()
    t.FeatureList.FeatureRecord = []
    for tag, idx in features:
        fr = ot.FeatureRecord()
        fr.FeatureTag = tag
        fr.Feature = ot.Feature()
        fr.Feature.FeatureParams = None
        fr.Feature.LookupListIndex = list(idx)
        fr.Feature.LookupCount = len(idx)
        t.FeatureList.FeatureRecord.append(fr)
    t.FeatureList.FeatureCount = len(features)
    t.ScriptList = ot.ScriptList()
    t.ScriptList.ScriptRecord = []
    for stag in ("DFLT", "latn"):
        sr = ot.ScriptRecord()
        sr.ScriptTag = stag
        sr.Script = ot.Script()
        ls = sr.Script.DefaultLangSys = ot.DefaultLangSys()
        ls.LookupOrder = None
        ls.ReqFeatureIndex = 0xFFFF
        ls.FeatureIndex = list(range(len(features)))
        ls.FeatureCount = len(features)
        sr.Script.LangSysRecord = []
        sr.Script.LangSysCount = 0
        t.ScriptList.ScriptRecord.append(sr)
    t.ScriptList.ScriptCount = 2
    font["GSUB"] = tbl
    return t


def _save(font):
    buf = io.BytesIO()
    font.save(buf)
    return buf.getvalue()


def _gen_context_gsub(rnd, font, enc, extra):
    """Random GSUB: leaf lookups (single / multiple / ligature / alternate) reached only through
    contextual lookups (Context/ChainContext formats 1, 2, 3) whose rules carry up to three lookup
    records per input position - always including positions with TWO records where the first is a
    1:1 substitution and the second acts on the first one's output."""
    import types
    from fontTools.otlLib import builder as B
    from fontTools.otlLib.builder import ChainContextSubstBuilder, ChainContextualRule, ChainContextualRuleset

    allg = enc + extra
    leaves, kinds = [], []

    def leaf(kind, src):
        if kind == "single":
            st = B.buildSingleSubstSubtable({g: rnd.choice(allg) for g in src})
        elif kind == "multiple":
            st = B.buildMultipleSubstSubtable({g: [rnd.choice(allg) for _ in range(rnd.randint(2, 3))] for g in src})
        elif kind == "alternate":
            st = B.buildAlternateSubstSubtable({g: [rnd.choice(allg) for _ in range(2)] for g in src})
        else:
            st = B.buildLigatureSubstSubtable({(g, rnd.choice(enc)): rnd.choice(allg) for g in src})
        leaves.append(B.buildLookup([st]))
        kinds.append(kind)
        return len(leaves) - 1

    rules_per_lookup = []
    for _ in range(rnd.randint(1, 3)):
        rules = []
        plain = rnd.random() < 0.4               # no backtrack/lookahead anywhere: may become a (non-chaining) Context lookup
        for _ in range(rnd.randint(1, 3)):
            n = rnd.randint(1, 3)
            classes = rnd.random() < 0.4
            inp = [tuple(sorted(rnd.sample(enc, rnd.randint(2, 3)))) if classes and rnd.random() < 0.6 else (rnd.choice(enc),) for _ in range(n)]
            prefix = [(rnd.choice(enc),)] if rnd.random() < 0.4 and not plain else []
            suffix = [(rnd.choice(enc),)] if rnd.random() < 0.4 and not plain else []
            recs = [[] for _ in range(n)]
            # the mandatory class: position p gets a 1:1 lookup g -> h, then a lookup keyed on h
            p = rnd.randrange(n)
            hs = {g: rnd.choice(extra if rnd.random() < 0.7 else allg) for g in inp[p]}
            st = B.buildSingleSubstSubtable(dict(hs))
            leaves.append(B.buildLookup([st]))
            kinds.append("single")
            a = len(leaves) - 1
            b = leaf(rnd.choice(("single", "multiple", "alternate", "ligature")), sorted(set(hs.values())))
            recs[p] = [a, b]
            if rnd.random() < 0.4:          # a third record at the same position, on the output of the second when that is 1:1
                recs[p].append(leaf(rnd.choice(("single", "multiple")), rnd.sample(allg, 3)))
            for q in range(n):
                if q != p and rnd.random() < 0.5:
                    recs[q] = [leaf(rnd.choice(("single", "multiple", "ligature", "alternate")), list(inp[q]))]
            rules.append((prefix, inp, suffix, recs))
        rules_per_lookup.append(rules)
    # leaves keep growing while rules are generated, so context lookups are appended after all leaves
    lookups = list(leaves)
    ctx_indices, formats = [], []
    for rules in rules_per_lookup:
        cb = ChainContextSubstBuilder(font, None)
        rs = ChainContextualRuleset()
        for prefix, inp, suffix, recs in rules:
            rs.addRule(ChainContextualRule(prefix, inp, suffix, [[types.SimpleNamespace(lookup_index=i) for i in rr] or None for rr in recs]))
        chaining = rs.hasPrefixOrSuffix or rnd.random() < 0.3
        fmt = rnd.choice((1, 2, 3))
        sts = None
        if fmt == 1 and not rs.hasAnyGlyphClasses:
            sts = [cb.buildFormat1Subtable(rs, chaining)]
        elif fmt == 2:
            cds = rs.format2ClassDefs()
            if cds:
                sts = [cb.buildFormat2Subtable(rs, cds, chaining)]
        if sts is None:
            fmt = 3
            sts = [cb.buildFormat3Subtable(rule, chaining) for rule in rs.rules]
        lk = B.buildLookup(sts)
        lookups.append(lk)
        ctx_indices.append(len(lookups) - 1)
        formats.append((lk.LookupType, fmt))
    return lookups, ctx_indices, formats, kinds


@check("C07")
def contextual_lookup_records_at_one_position_closure(tier, rnd):
    """Generated fonts whose GSUB reaches its substitutions only through Context / ChainContext
    lookups (formats 1, 2, 3) with several lookup records at the SAME sequence position - the first
    a 1:1 substitution, the following ones acting on its output (single, multiple, alternate,
    ligature) - and records at other positions: subset to random character sets and compare
    HarfBuzz shaping of ALL texts up to length 3 (plus random longer ones) over the requested
    characters.  The closure has to follow the output of the first record into the second, else an
    output glyph is missing and the subset shapes differently."""
    _quiet()
    r = Result("generated GSUB (random rules, 1..3 contextual lookups x 1..3 rules, 2..3 records at one position) x random unicode requests x "
               "options {retain_gids, glyph_names}; texts = all sequences <= 3 over requested characters + random longer; "
               "distinct = (contextual lookup types/formats, kinds of leaf lookups)")
    n = 200 if tier == "quick" else 2000
    enc = list("abcdefgh")
    extra = ["x%d" % i for i in range(10)]
    glyphs = [".notdef"] + enc + extra
    for k in range(n):
        font = _build_font(glyphs, {ord(c): c for c in enc})
        try:
            lookups, ctx, formats, kinds = _gen_context_gsub(rnd, font, enc, extra)
            _gsub(font, lookups, [("test", ctx)])
            data = _save(font)
        except Exception as e:
            r.case(("generator", type(e).__name__))
            continue                    # the generator produced rules the builder cannot express: not a subsetter input
        order = glyphs
        n2g_o = {g: i for i, g in enumerate(order)}
        a = _HB(data, order)
        key = (tuple(formats), tuple(sorted(set(kinds))))
        for _ in range(3):
            chars = sorted(rnd.sample(enc, rnd.randint(2, 5)))
            opts = dict(layout_features=["*"], retain_gids=rnd.random() < 0.3, glyph_names=True, notdef_outline=True)
            try:
                sub, sorder, s = _subset(data, unicodes=[ord(c) for c in chars], **opts)
            except Exception as e:
                r.case(key)
                r.fail("subsetting generated font #%d to %s raised %s: %s" % (k, chars, type(e).__name__, str(e)[:120]))
                continue
            b = _HB(sub, sorder)
            texts = ["".join(t) for t in _all_texts(chars, 3)] + ["".join(rnd.choice(chars) for _ in range(rnd.randint(4, 6))) for _ in range(40)]
            bad = 0
            for t in texts:
                r.case(key)
                x, y = a.text(t, {"test": True}, None, None, "ltr"), b.text(t, {"test": True}, None, None, "ltr")
                if x != y:
                    bad += 1
                    if bad <= 1:
                        r.fail("generated font #%d (contextual lookups %s), request %s: %r shapes to %s in the subset (glyphs %s), %s in the original"
                               % (k, formats, chars, t, [g[0] for g in y], sorder, [g[0] for g in x]))
        r.sample({"contextual": str(formats), "leaf_kinds": kinds})
    return r


@check("C07")
def leaf_lookup_shared_by_several_contexts_closure(tier, rnd):
    """A ligature (or multiple / single) lookup reached ONLY through contextual lookups, from two
    or three of them, while plain substitutions between those contextual lookups produce glyphs
    that the shared lookup needs (a ligature component, a context glyph): the closure has to apply
    the shared lookup again for the same position glyphs once the glyph set has grown.  Subset to
    random character sets, compare HarfBuzz shaping of all texts up to length 3."""
    from fontTools.feaLib.builder import addOpenTypeFeaturesFromString
    _quiet()
    r = Result("feature-file pattern: shared lookup {A B1 -> L1; A B2 -> L2; [A -> M1 M2]} called by contexts C1 (A' B1'), C2 (A' B2'), optionally C3 "
               "(X' lookup SHARED); singles S (X -> B2), T (Y -> A) between them; all orders of the lookups x random roles x requests; "
               "distinct = (lookup order, shared kind, request size)")
    enc = list("abcdefgh")
    extra = ["x%d" % i for i in range(10)]
    glyphs = [".notdef"] + enc + extra
    import itertools
    orders = list(itertools.permutations(("C1", "S", "C2", "T")))
    n = 48 if tier == "quick" else 480
    for k in range(n):
        A, B1, B2, X, Y = rnd.sample(enc, 5)
        L1, L2, M1, M2 = rnd.sample(extra, 4)
        kind = "ligature"
        order = orders[k % len(orders)]
        body = {"C1": "lookup C1 { sub %s' lookup SHARED %s'; } C1;" % (A, B1),
                "C2": "lookup C2 { sub %s' lookup SHARED %s'; } C2;" % (A, B2),
                "S": "lookup S { sub %s by %s; } S;" % (X, B2),
                "T": "lookup T { sub %s by %s; } T;" % (Y, A)}
        fea = "languagesystem DFLT dflt;\nlookup SHARED {\n sub %s %s by %s;\n sub %s %s by %s;\n} SHARED;\n" % (A, B1, L1, A, B2, L2)
        fea += "feature test {\n" + "\n".join(body[o] for o in order) + "\n} test;\n"
        font = _build_font(glyphs, {ord(c): c for c in enc})
        try:
            addOpenTypeFeaturesFromString(font, fea)
            data = _save(font)
        except Exception as e:
            r.case(("generator", type(e).__name__))
            continue
        a = _HB(data, glyphs)
        for req in (sorted({A, B1, X}), sorted({A, X, Y}), sorted({A, B1, B2, X, Y}), sorted(rnd.sample(enc, 4))):
            key = (order, kind, len(req))
            try:
                sub, sorder, _ = _subset(data, unicodes=[ord(c) for c in req], layout_features=["*"], glyph_names=True, notdef_outline=True)
            except Exception as e:
                r.case(key)
                r.fail("subsetting pattern font #%d to %s raised %s: %s" % (k, req, type(e).__name__, str(e)[:120]))
                continue
            b = _HB(sub, sorder)
            bad = 0
            for t in ("".join(t) for t in _all_texts(req, 3)):
                r.case(key)
                x, y = a.text(t, {"test": True}, None, None, "ltr"), b.text(t, {"test": True}, None, None, "ltr")
                if x != y and not bad:
                    bad = 1
                    r.fail("pattern font #%d (lookup order %s; %s), request %s: %r shapes to %s in the subset (glyphs %s), %s in the original"
                           % (k, " ".join(order), fea.replace("\n", " "), req, t, [g[0] for g in y], sorder, [g[0] for g in x]))
    r.sample({"fea": fea})
    return r


def _norm_to_user(axis, n):
    t, lo, d, hi = axis
    return d + n * (hi - d) if n >= 0 else d + n * (d - lo)


@check("C07")
def overlapping_feature_variations_keep_their_precedence(tier, rnd):
    """Generated variable fonts with 2..5 FeatureVariationRecords whose condition boxes overlap and
    which substitute DIFFERENT feature tags (the first matching record wins as a whole, so an
    earlier record shadows later ones even for features it does not mention).  Subsetting to a
    subset of the features/characters - so that earlier records lose all their substitutions - must
    not change shaping of the retained features at any location of a 9x9 grid of the design space
    (inside and outside the overlaps), compared with the original font."""
    from fontTools.otlLib import builder as B
    from fontTools.varLib import featureVars as FV

    _quiet()
    r = Result("generated 2-axis variable fonts x FeatureVariations (2..5 records, random overlapping boxes on a 1/4 grid, random feature "
               "subsets per record) x subset requests dropping features/characters; shaping original vs subset on a 1/8-grid sample of "
               "normalized locations with retained features forced on; distinct = (records, dropped features, location class)")
    n = 120 if tier == "quick" else 1200
    enc = list("abcdef")
    tags = ["liga", "ss01", "ss02", "ss03"]
    alts = ["%s.%d" % (c, i) for c in enc for i in range(1, 7)]
    glyphs = [".notdef"] + enc + alts
    axes = [("wght", 100.0, 400.0, 900.0), ("wdth", 50.0, 100.0, 200.0)]
    grid = [i / 8 for i in range(-8, 9)]
    for k in range(n):
        font = _build_font(glyphs, {ord(c): c for c in enc}, axes)
        lookups = []

        def single():
            src = rnd.sample(enc, rnd.randint(1, 4))
            lookups.append(B.buildLookup([B.buildSingleSubstSubtable({g: rnd.choice(alts) for g in src})]))
            return len(lookups) - 1

        feats = [(t, [single() for _ in range(rnd.randint(0, 2))]) for t in tags]
        nrec = rnd.randint(2, 5)
        recs = []
        for _ in range(nrec):
            box = {}
            for ai in rnd.sample((0, 1), rnd.randint(1, 2)):
                lo = rnd.choice((-1, -0.75, -0.5, -0.25, 0, 0.25, 0.5))
                hi = rnd.choice([v for v in (-0.5, -0.25, 0, 0.25, 0.5, 0.75, 1) if v >= lo])
                box[ai] = (lo, hi)
            which = rnd.sample(range(len(tags)), rnd.randint(1, 2))
            recs.append((box, {fi: [single() for _ in range(rnd.randint(0, 2))] for fi in which}))
        t = _gsub(font, lookups, feats)
        t.Version = 0x00010001
        t.FeatureVariations = FV.buildFeatureVariations([
            FV.buildFeatureVariationRecord([FV.buildConditionTable(ai, lo, hi) for ai, (lo, hi) in sorted(box.items())],
                                           [FV.buildFeatureTableSubstitutionRecord(fi, idx) for fi, idx in sorted(subst.items())])
            for box, subst in recs])
        data = _save(font)
        a_cache = {}
        for _ in range(3):
            keep = sorted(rnd.sample(tags, rnd.randint(1, 3)))
            chars = sorted(rnd.sample(enc, rnd.randint(2, 6)))
            opts = dict(layout_features=keep, glyph_names=True, notdef_outline=True, retain_gids=rnd.random() < 0.2)
            try:
                sub, sorder, s = _subset(data, unicodes=[ord(c) for c in chars], **opts)
            except Exception as e:
                r.case((nrec, tuple(keep), "error"))
                r.fail("subsetting generated variable font #%d (features %s, chars %s) raised %s: %s" % (k, keep, chars, type(e).__name__, str(e)[:120]))
                continue
            fe = {tg: (tg in keep) for tg in tags}
            text = "".join(chars)
            pts = [(0.0, 0.0)] + [(rnd.choice(grid), rnd.choice(grid)) for _ in range(24 if tier == "quick" else 80)]
            bad = 0
            for pt in pts:
                loc = {axes[0][0]: _norm_to_user(axes[0], pt[0]), axes[1][0]: _norm_to_user(axes[1], pt[1])}
                inside = sum(all(lo <= pt[ai] <= hi for ai, (lo, hi) in box.items()) for box, _ in recs)
                r.case((nrec, tuple(keep), min(inside, 2)))
                if pt not in a_cache:
                    a_cache[pt] = _HB(data, glyphs, loc)
                x = a_cache[pt].text(text, fe, None, None, "ltr")
                y = _HB(sub, sorder, loc).text(text, fe, None, None, "ltr")
                if x != y:
                    bad += 1
                    if bad <= 1:
                        r.fail("generated variable font #%d: records %s; subset keeps features %s chars %s: at normalized %s (inside %d boxes) %r shapes to %s, original %s"
                               % (k, [(b, {tags[fi]: v for fi, v in sb.items()}) for b, sb in recs], keep, chars, pt, inside, text, [g[0] for g in y], [g[0] for g in x]))
        r.sample({"records": nrec, "boxes": [str(b) for b, _ in recs]})
    return r


@check("C07")
def variable_fonts_keep_metrics_outlines_and_kerning_at_every_location(tier, rnd):
    """Every variable corpus font (gvar / CFF2 / HVAR / VVAR / variable GPOS and GDEF) x random
    glyph-name, unicode and glyph-id requests x {retain_gids, desubroutinize, hinting}: at the
    default location, at axis extremes and at random interior locations every kept glyph has the
    advance (HVAR/VVAR index maps, gvar phantom points) and the outline (gvar / CFF2 blend) of the
    original, and every pair of requested glyphs is positioned (variable kerning, anchors) as in the
    original."""
    _quiet()
    r = Result("variable corpus fonts x 10 (quick) / 40 (thorough) generated requests x option subsets x 5 locations (default, 2 extreme corners, "
               "2 random); per kept glyph advance + outline, per requested pair shaping, all via HarfBuzz; distinct = (font, request kind, options)")
    fonts = [rel for rel in _BINARIES + _TTX if _orig(rel)[6]]
    for rel in fonts:
        data, f, order, cmap, feats, langs, axes = _orig(rel)
        n2g_o = {n: i for i, n in enumerate(order)}
        fe = {t: True for t in feats}
        for k in range(10 if tier == "quick" else 40):
            req = _gen_request(rnd, order, cmap, False)
            opts = dict(layout_features=["*"], glyph_names=True, notdef_outline=True)
            for name, p in (("retain_gids", 0.4), ("desubroutinize", 0.3), ("passthrough_tables", 0.3)):
                if rnd.random() < p:
                    opts[name] = True
            if rnd.random() < 0.3:
                opts["hinting"] = False
            case = (rel, req, opts)
            key = (rel, req["kind"], tuple(sorted(opts)))
            try:
                sub, sorder, s = _subset(data, unicodes=req["unicodes"], glyphs=req["glyphs"], gids=req["gids"], text=req["text"], **opts)
            except Exception as e:
                r.case(key)
                r.fail("subsetting raised %s: %s | %s" % (type(e).__name__, str(e)[:100], _case_label(case)))
                continue
            n2g_s = {n: i for i, n in enumerate(sorder)}
            kept = [n for n in sorder if n in s.glyphs_retained]
            us, names = _seeds(case)
            pairs = [(a, b) for a in names for b in names]
            if len(pairs) > 150:
                pairs = rnd.sample(pairs, 150)
            from fontTools.ttLib import TTFont

            comparable = _has_classes(f) == _has_classes(TTFont(io.BytesIO(sub)))
            locs = [None, {t: lo for t, lo, d, hi in axes}, {t: hi for t, lo, d, hi in axes}] + _locations(rnd, axes, 2)[1:]
            bad = 0
            for loc in locs:
                a, b = _HB(data, order, loc), _HB(sub, sorder, loc)
                for n in kept:
                    r.case(key)
                    go, gs = n2g_o[n], n2g_s[n]
                    if a.advance(go) != b.advance(gs):
                        bad += 1
                        if bad <= 2:
                            r.fail("glyph %s advance (h,v) %s in the subset, %s in the original at %s | %s" % (n, b.advance(gs), a.advance(go), loc, _case_label(case)))
                    elif a.outline(go) != b.outline(gs):
                        bad += 1
                        if bad <= 2:
                            r.fail("glyph %s outline differs at %s: subset %s..., original %s... | %s" % (n, loc, str(b.outline(gs))[:120], str(a.outline(go))[:120], _case_label(case)))
                for pr in pairs if comparable else ():
                    r.case(key)
                    x, y = a.glyphs(pr, n2g_o, fe), b.glyphs(pr, n2g_s, fe)
                    if x != y:
                        bad += 1
                        if bad <= 2:
                            r.fail("pair %s at %s: subset %s, original %s | %s" % (list(pr), loc, y, x, _case_label(case)))
        r.sample({"font": rel, "axes": [a[0] for a in axes]})
    return r


@check("C07")
def variation_sequences_survive(tier, rnd):
    """Fonts with a cmap format 14 subtable (corpus + generated): every request made of base
    characters and variation selectors - all subsets of small base sets x selector sets, so that a
    selector is requested with only its default sequences, only its non-default ones, or both -
    keeps, for every requested (base, selector) pair the font had, the glyph HarfBuzz selects for
    the sequence (by name); the subset saves, reloads, and its cmap refers to no removed glyph."""
    from fontTools.ttLib import TTFont, newTable
    from fontTools.ttLib.tables._c_m_a_p import cmap_format_14
    from fontTools.fontBuilder import FontBuilder
    from fontTools.pens.ttGlyphPen import TTGlyphPen

    _quiet()
    r = Result("cmap14 corpus font + generated fonts (2 selectors, 4 bases, default/non-default/mixed records) x every non-empty subset of "
               "bases (<= 4) x every non-empty subset of selectors; distinct = (font, kinds of records requested per selector)")

    def generated(k):
        names = [".notdef"] + ["b%d" % i for i in range(4)] + ["v%d_%d" % (s, i) for s in range(2) for i in range(4)]
        fb = FontBuilder(1000, isTTF=True)
        fb.setupGlyphOrder(names)
        bases = [0x4E00 + i for i in range(4)]
        fb.setupCharacterMap({u: "b%d" % i for i, u in enumerate(bases)})
        glyphs = {}
        for j, n in enumerate(names):
            pen = TTGlyphPen(None)
            pen.moveTo((0, 0)); pen.lineTo((10 + j, 0)); pen.lineTo((10 + j, 10 + j)); pen.closePath()
            glyphs[n] = pen.glyph()
        fb.setupGlyf(glyphs)
        fb.setupHorizontalMetrics({n: (500 + j, 0) for j, n in enumerate(names)})
        fb.setupHorizontalHeader(); fb.setupNameTable({}); fb.setupOS2(); fb.setupPost()
        uvs = {}
        for s, sel in enumerate((0xFE00, 0xE0100)):
            recs = []
            for i, u in enumerate(bases):
                kind = rnd.choice(("default", "nondefault", "none")) if k else ("default", "nondefault", "nondefault", "default")[(i + s) % 4]
                if kind == "default":
                    recs.append((u, None))
                elif kind == "nondefault":
                    recs.append((u, "v%d_%d" % (s, i)))
            if recs:
                uvs[sel] = recs
        st = cmap_format_14(14)
        st.platformID, st.platEncID, st.language, st.cmap, st.uvsDict = 0, 5, 0, {}, uvs
        fb.font["cmap"].tables.append(st)
        out = io.BytesIO()
        fb.font.save(out)
        return out.getvalue()

    fonts = [("subset/data/cmap14_font1.ttx", _font_bytes("subset/data/cmap14_font1.ttx"))]
    fonts += [("generated-uvs-%d" % k, generated(k)) for k in range(3 if tier == "quick" else 25)]
    for label, data in fonts:
        f = TTFont(io.BytesIO(data), lazy=False)
        order = f.getGlyphOrder()
        best = f.getBestCmap()
        uvs = {}
        for t in f["cmap"].tables:
            if t.format == 14:
                for sel, recs in t.uvsDict.items():
                    for u, g in recs:
                        uvs[(u, sel)] = g
        sels = sorted({s for _, s in uvs})
        bases = sorted({u for u, _ in uvs})
        if len(bases) > 4:
            bases = sorted(rnd.sample(bases, 4))
        a = _HB(data, order)
        for nb in range(1, len(bases) + 1):
            for bs in itertools.combinations(bases, nb):
                for ns in range(1, len(sels) + 1):
                    for ss in itertools.combinations(sels, ns):
                        kinds = tuple(sorted({(s, "default" if uvs[(u, s)] is None else "nondefault") for u in bs for s in ss if (u, s) in uvs}))
                        r.case((label.split("-")[0], tuple(k for _, k in kinds)))
                        req = list(bs) + list(ss)
                        try:
                            sub, sorder, s_ = _subset(data, unicodes=req)
                            fs = TTFont(io.BytesIO(sub), lazy=False)
                            b = _HB(sub, sorder)
                        except Exception as e:
                            r.fail("%s: subsetting to %s raised %s: %s" % (label, ["U+%04X" % u for u in req], type(e).__name__, str(e)[:120]))
                            continue
                        bad = _dangling(fs)
                        if bad:
                            r.fail("%s: subset to %s refers to removed glyphs %s" % (label, ["U+%04X" % u for u in req], sorted(bad)[:3]))
                        for u in bs:
                            for sel in ss:
                                if (u, sel) not in uvs:
                                    continue
                                go = a.font.get_variation_glyph(u, sel)
                                gs = b.font.get_variation_glyph(u, sel)
                                want = order[go] if go else None
                                got = sorder[gs] if gs else None
                                if want != got:
                                    r.fail("%s: <U+%04X, U+%04X> selects %s in the original and %s in the subset to %s" % (
                                        label, u, sel, want, got, ["U+%04X" % x for x in req]))
    r.sample({"fonts": [l for l, _ in fonts][:3]})
    return r
