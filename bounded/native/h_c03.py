"""C03: TTX XML is a lossless representation of a font.

Oracle used by every check: let A be an object model (loaded from a corpus file, imported from a
TTX source or generated).  dump(A, options) is imported into a fresh TTFont B; every table of B
must compile to the same bytes as the same table of A.  Two things are outside the statement:
head.checkSumAdjustment (a whole-file quantity; zeroed on both sides) and XML white space inside
free text: when 'name' or 'CFF ' differ, the strings of BOTH models are whitespace-normalised (XML
white space only: space, tab, CR, LF) and both are compiled again before they are compared.
Failures that belong to a recorded defect carry its known_id; the case classes that trigger those
defects are generated separately so that they cannot hide anything else."""
import glob
import io
import logging
import os
import random
import shutil
import struct
import tempfile

from harness import check, Result
from _common import REPO

EPOCH_DIFF = 2082844800
TESTS = os.path.join(REPO, "Tests")
NEWLINES = ("\n", "\r\n", "\r")


class _quiet:
    def __enter__(self):
        logging.disable(logging.CRITICAL)

    def __exit__(self, *a):
        logging.disable(logging.NOTSET)


# ----------------------------------------------------------------------------- shared oracle

def _sfnt_tables(data):
    from fontTools.ttLib.sfnt import SFNTReader

    rd = SFNTReader(io.BytesIO(data))
    return _zero_adjustment({tag: rd[tag] for tag in rd.keys()})


def _zero_adjustment(t):
    if "head" in t and len(t["head"]) >= 12:
        t["head"] = t["head"][:8] + b"\0\0\0\0" + t["head"][12:]
    return t


def _compile(font, mode="save"):
    """{tag: bytes} compiled from the object model.  mode 'save': one TTFont.save (raises if any
    table does not compile); mode 'tables': table by table, ({tag: bytes}, [tags that raise])."""
    if mode == "save":
        b = io.BytesIO()
        font.save(b)
        return _sfnt_tables(b.getvalue())
    out, bad = {}, []
    for tag in sorted(font.keys()):
        if tag == "GlyphOrder":
            continue
        try:
            out[tag] = font.getTableData(tag)
        except Exception:
            bad.append(tag)
    return _zero_adjustment(out), bad


def _ws(s):
    """XML whitespace normalisation: XML white space is space, tab, CR, LF only (not NBSP, U+2028...)"""
    import re

    return re.sub("[ \t\r\n]+", " ", s).strip(" ")


def _normalise_free_text(font):
    """Apply XML whitespace normalisation to the free-text strings of the model (in place)."""
    if font.isLoaded("name"):
        for rec in font["name"].names:
            try:
                rec.string = _ws(rec.toUnicode())
            except Exception:
                pass
    if font.isLoaded("CFF "):
        cff = font["CFF "].cff

        def norm(v):
            if isinstance(v, str):
                return _ws(v)
            if isinstance(v, bytes):            # strings read from XML are kept as bytes
                return _ws(v.decode("latin-1")).encode("latin-1")
            if isinstance(v, tuple):
                return tuple(norm(x) for x in v)
            return v
        cff.fontNames = [norm(n) for n in cff.fontNames]
        for td in cff.topDictIndex:
            for d in (td.rawDict, td.__dict__):
                for k, v in list(d.items()):
                    if k not in ("charset", "strings", "order", "defaults") and isinstance(v, (str, bytes, tuple)):
                        d[k] = norm(v)


def _dump(font, tmp, name="dump", split=None, **opts):
    """saveXML to a file in tmp (files are needed for split dumps / extfile); returns the path."""
    path = os.path.join(tmp, name + ".ttx")
    if split == "tables":
        opts["splitTables"] = True
    elif split == "glyphs":
        opts["splitGlyphs"] = True
    font.saveXML(path, **opts)
    return path


def _import(path):
    from fontTools.ttLib import TTFont

    B = TTFont(recalcTimestamp=False)
    B.importXML(path)
    return B


def _head_only_old_timestamps(h1, h2):
    if len(h1) != 54 or len(h2) != 54 or h1[:20] + h1[36:] != h2[:20] + h2[36:]:
        return False
    a = struct.unpack(">QQ", h1[20:36])
    b = struct.unpack(">QQ", h2[20:36])
    return all(x == y or (x < EPOCH_DIFF and y == EPOCH_DIFF) for x, y in zip(a, b))


class NotAFont(Exception):
    pass


def _compile_mode(font, mode):
    if mode == "save":
        return _compile(font, "save")
    return _compile(font, "tables")[0]


def _compare(r, label, A, t1, B, mode="save", only=None, ignore=()):
    """Report every table of t1 (= compile(A)) that compile(B) does not reproduce byte for byte."""
    try:
        t2 = _compile_mode(B, mode)
    except Exception as e:
        r.fail("%s: the imported font does not compile although the original does (%s: %s)" % (label, type(e).__name__, str(e)[:160]))
        return False
    tags = sorted((set(t1) | (set(t2) if mode == "save" else set())) - set(ignore))
    if only is not None:
        tags = [t for t in tags if t in only]
    diff = [t for t in tags if t1.get(t) != t2.get(t)]
    if diff and any(t in ("name", "CFF ") for t in diff):
        # free text is compared after XML whitespace normalisation: normalise BOTH models
        _normalise_free_text(A)
        _normalise_free_text(B)
        try:
            t1n, t2n = _compile_mode(A, mode), _compile_mode(B, mode)
            diff = [t for t in diff if t1n.get(t) != t2n.get(t)]
        except Exception:
            pass
    ok = True
    for t in diff:
        if t == "head" and t in t1 and t in t2 and _head_only_old_timestamps(t1[t], t2[t]):
            r.fail("%s: head.created/modified before 1970 do not survive the dump (clamped to 1970)" % label,
                   known_id="C15-timestamp-before-1970")
            continue
        ok = False
        a, b = t1.get(t), t2.get(t)
        if a is None or b is None:
            r.fail("%s: table %r %s after TTX round trip" % (label, t, "lost" if b is None else "appeared"), table=t)
        else:
            i = next((i for i, (x, y) in enumerate(zip(a, b)) if x != y), min(len(a), len(b)))
            r.fail("%s: table %r compiles to different bytes after TTX round trip (len %d vs %d, first difference at %d: %s vs %s)"
                   % (label, t, len(a), len(b), i, a[i:i + 8].hex(), b[i:i + 8].hex()), table=t)
    return ok


def _fresh_dir(tmp):
    d = os.path.join(tmp, "Dump dir")          # upper case and a space in the path of every dump
    shutil.rmtree(d, ignore_errors=True)
    os.makedirs(d)
    return d


def _roundtrip(r, label, make, tmp, only=None, ignore=(), must_compile=False, make_ref=None, **opts):
    """make() -> a fresh object model A.  dump(A, opts) is imported into B and compile(B) is compared
    with compile(A); A is dumped BEFORE it is compiled and is compiled exactly once.  Tables of A
    that cannot be compiled at all have no reference bytes (the property is vacuous for them): they
    are dropped from a fresh A.  Raises NotAFont if A cannot be dumped or nothing compiles.
    Returns the list of dropped tables (must_compile=True: re-raises instead, for generated fonts)."""
    with _quiet():
        dropped = []
        A = make()
        try:
            path = _dump(A, _fresh_dir(tmp), **opts)
        except Exception as e:
            raise NotAFont("dump: %s: %s" % (type(e).__name__, e))
        mode = "save"
        try:
            if make_ref is not None:      # the reference bytes come from an equivalent model (see caller)
                A = make_ref()
            t1 = _compile(A, "save")
        except Exception:
            if must_compile:      # a generated font: the generator, not the library, is wrong
                raise
            dropped = _compile(A, "tables")[1]
            A = make()
            for t in dropped:
                del A[t]
            path = _dump(A, _fresh_dir(tmp), **opts)
            try:
                t1 = _compile(A, "save")
            except Exception:
                mode = "tables"
                A = make()
                for t in dropped:
                    del A[t]
                path = _dump(A, _fresh_dir(tmp), **opts)
                t1 = _compile(A, "tables")[0]
        if not t1:
            raise NotAFont("nothing compiles")
        B = _import(path)
        _compare(r, label, A, t1, B, mode=mode, only=only, ignore=ignore)
        return dropped


def _corpus_fonts():
    out = []
    for ext in ("ttf", "otf", "woff", "woff2", "ttc", "otc"):
        out += glob.glob(os.path.join(TESTS, "**", "*." + ext), recursive=True)
    return sorted(out)


def _rel(p):
    return os.path.relpath(p, TESTS)


# ----------------------------------------------------------------------------- 1. corpus fonts

@check("C03")
def corpus_fonts_whole_dump(tier, rnd):
    """Every binary font of the corpus (every member of a collection): the default whole-font
    dump, imported again, compiles table by table to the bytes the loaded object model compiles
    to.  Tables whose freshly loaded model cannot be compiled at all are left out (vacuous)."""
    from fontTools.ttLib import TTFont
    from fontTools.ttLib.sfnt import SFNTReader

    r = Result("all corpus fonts outside aots + a seeded sample of the aots fonts (quick) / all (thorough), "
               "every font of a TTC; distinct = (file, font number)")
    fonts = _corpus_fonts()
    if tier == "quick":
        aots = [p for p in fonts if os.sep + "aots" + os.sep in p]
        keep = set(rnd.sample(aots, 45))
        fonts = [p for p in fonts if p not in aots or p in keep]
    tmp = tempfile.mkdtemp()
    vacuous = []
    try:
        for p in fonts:
            n = 1
            if p.endswith(("ttc", "otc")):
                with open(p, "rb") as f:
                    n = SFNTReader(f, fontNumber=0).numFonts
            for i in range(n):
                r.case((_rel(p), i))
                try:
                    bad = _roundtrip(r, "%s#%d" % (_rel(p), i), lambda: TTFont(p, fontNumber=i, recalcTimestamp=False), tmp)
                    vacuous += ["%s:%s" % (_rel(p), t) for t in bad]
                    for t in bad:      # not a C03 failure in itself, but it must not go unnoticed: nothing was compared
                        r.fail("%s#%d: table %r of the freshly loaded font cannot be compiled at all, so there is nothing to compare its dump with"
                               % (_rel(p), i, t), known_id="C16-silf-linear-classes-generator" if t == "Silf" else None, table=t)
                except Exception as e:
                    r.fail("%s#%d: TTX round trip raised %s: %s" % (_rel(p), i, type(e).__name__, str(e)[:200]))
    finally:
        shutil.rmtree(tmp, ignore_errors=True)
    r.sample({"fonts": len(fonts), "tables_without_reference_bytes": vacuous[:5]})
    return r


# ----------------------------------------------------------------------------- 2. TTX / fea sources

_FEA_GLYPHS = """
    .notdef space slash fraction semicolon period comma ampersand
    quotedblleft quotedblright quoteleft quoteright
    zero one two three four five six seven eight nine
    zero.oldstyle one.oldstyle two.oldstyle three.oldstyle
    four.oldstyle five.oldstyle six.oldstyle seven.oldstyle
    eight.oldstyle nine.oldstyle onequarter onehalf threequarters
    onesuperior twosuperior threesuperior ordfeminine ordmasculine
    A B C D E F G H I J K L M N O P Q R S T U V W X Y Z
    a b c d e f g h i j k l m n o p q r s t u v w x y z
    A.sc B.sc C.sc D.sc E.sc F.sc G.sc H.sc I.sc J.sc K.sc L.sc M.sc
    N.sc O.sc P.sc Q.sc R.sc S.sc T.sc U.sc V.sc W.sc X.sc Y.sc Z.sc
    A.alt1 A.alt2 A.alt3 B.alt1 B.alt2 B.alt3 C.alt1 C.alt2 C.alt3
    a.alt1 a.alt2 a.alt3 a.end b.alt c.mid d.alt d.mid
    e.begin e.mid e.end m.begin n.end s.end z.end
    Eng Eng.alt1 Eng.alt2 Eng.alt3
    A.swash B.swash C.swash D.swash E.swash F.swash G.swash H.swash
    I.swash J.swash K.swash L.swash M.swash N.swash O.swash P.swash
    Q.swash R.swash S.swash T.swash U.swash V.swash W.swash X.swash
    Y.swash Z.swash
    f_l c_h c_k c_s c_t f_f f_f_i f_f_l f_i o_f_f_i s_t f_i.begin
    a_n_d T_h T_h.swash germandbls ydieresis yacute breve
    grave acute dieresis macron circumflex cedilla umlaut ogonek caron
    damma hamza sukun kasratan lam_meem_jeem noon.final noon.initial
    by feature lookup sub table uni0327 uni0328 e.fina
    idotbelow idotless iogonek acutecomb brevecomb ogonekcomb dotbelowcomb
""".split() + ["cid%05d" % c for c in range(800, 1002)]


@check("C03")
def ttx_and_feature_sources(tier, rnd):
    """Object models that never were binary: (a) every corpus .ttx source that imports and whose
    tables compile, (b) fonts compiled by feaLib from every corpus .fea file (GSUB/GPOS/GDEF/BASE/
    name/OS2/STAT... of every lookup type and format).  dump -> import -> same table bytes.
    Sources that are no fonts (import fails / nothing compiles / cannot be dumped for lack of a
    glyph order) are skipped, not counted."""
    from fontTools.ttLib import TTFont
    from fontTools.feaLib.builder import addOpenTypeFeatures

    r = Result("every *.ttx under Tests that imports, compiles and dumps + every feaLib/data/*.fea that builds "
               "(quick: seeded half of each); distinct = source file")
    ttx = sorted(glob.glob(os.path.join(TESTS, "**", "*.ttx"), recursive=True))
    fea = sorted(glob.glob(os.path.join(TESTS, "feaLib", "data", "*.fea")))
    if tier == "quick":
        ttx = sorted(rnd.sample(ttx, len(ttx) // 2))
        fea = sorted(rnd.sample(fea, len(fea) // 2))
    tmp = tempfile.mkdtemp()
    skipped = 0
    try:
        for p in ttx + fea:
            def make():
                A = TTFont(recalcTimestamp=False)
                if p.endswith(".ttx"):
                    A.importXML(p)
                else:
                    A.setGlyphOrder(list(_FEA_GLYPHS))
                    addOpenTypeFeatures(A, p)
                return A
            try:
                with _quiet():
                    make()
            except Exception:
                skipped += 1
                continue
            try:
                _roundtrip(r, _rel(p), make, tmp)
                r.case(_rel(p))
            except NotAFont:
                skipped += 1
            except Exception as e:
                r.case(_rel(p))
                r.fail("%s: TTX round trip raised %s: %s" % (_rel(p), type(e).__name__, str(e)[:200]))
            if p.endswith(".fea"):
                # the same font with lookup debugging information ('Debg') for SOME of its lookups: the
                # dump is decorated with comments, every lookup must still be there
                drop_seed = rnd.random()

                def make_debug():
                    A = TTFont(recalcTimestamp=False)
                    A.setGlyphOrder(list(_FEA_GLYPHS))
                    addOpenTypeFeatures(A, p, debug=True)
                    if "Debg" in A:
                        from fontTools.feaLib.lookupDebugInfo import LOOKUP_DEBUG_INFO_KEY
                        rr = random.Random(drop_seed)
                        for table in A["Debg"].data.get(LOOKUP_DEBUG_INFO_KEY, {}).values():
                            for k in sorted(table):
                                if rr.random() < 0.5:
                                    del table[k]
                    return A
                try:
                    _roundtrip(r, _rel(p) + " +Debg", make_debug, tmp)
                    r.case(_rel(p) + " +Debg")
                except NotAFont:
                    pass
                except Exception as e:
                    r.case(_rel(p) + " +Debg")
                    r.fail("%s with partial lookup debug info: TTX round trip raised %s: %s" % (_rel(p), type(e).__name__, str(e)[:200]))
    finally:
        shutil.rmtree(tmp, ignore_errors=True)
    r.sample({"sources_used": r.evaluations, "sources_skipped_not_a_font": skipped})
    return r


# ----------------------------------------------------------------------------- generated TrueType fonts

_STAMP = 3600000000      # 2018, well after 1970: not the known timestamp clamp


def _simple_glyph(coords, ends=None, program=None):
    from fontTools.ttLib.tables._g_l_y_f import Glyph, GlyphCoordinates
    from fontTools.ttLib.tables import ttProgram

    g = Glyph()
    g.numberOfContours = len(ends) if ends else 1
    g.coordinates = GlyphCoordinates(coords)
    g.flags = bytearray([1] * len(coords))
    g.endPtsOfContours = list(ends) if ends else [len(coords) - 1]
    g.program = program if program is not None else ttProgram.Program()
    if program is None:
        g.program.fromBytecode(b"")
    return g


def _composite(components, program=None, quantise=False):
    """components: list of dicts glyphName, x/y or firstPt/secondPt, flags, transform (or None).
    quantise: replace every transform term by the nearest F2Dot14 value (floor(v * 2^14 + 1/2) / 2^14,
    exact in binary floating point) - the value the glyf table stores."""
    from fontTools.ttLib.tables._g_l_y_f import Glyph, GlyphComponent
    import math

    g = Glyph()
    g.numberOfContours = -1
    g.components = []
    for c in components:
        k = GlyphComponent()
        k.glyphName = c["glyphName"]
        if "firstPt" in c:
            k.firstPt, k.secondPt = c["firstPt"], c["secondPt"]
        else:
            k.x, k.y = c.get("x", 0), c.get("y", 0)
        k.flags = c.get("flags", 0)
        if c.get("transform") is not None:
            k.transform = [list(c["transform"][0]), list(c["transform"][1])]
            if quantise:
                k.transform = [[math.floor(v * 16384 + 0.5) / 16384 for v in row] for row in k.transform]
        g.components.append(k)
    if program is not None:
        g.program = program
    return g


def _build_ttf(extra, fpgm=None, prep=None, cvt=None, names=None):
    """A complete TrueType font: .notdef, A (square), many (300 points) + the given glyphs."""
    from fontTools.fontBuilder import FontBuilder
    from fontTools.ttLib import newTable
    import array

    glyphs = {".notdef": _simple_glyph([(0, 0), (0, 10), (10, 10), (10, 0)]),
              "A": _simple_glyph([(100, 0), (100, 700), (600, 700), (600, -20)]),
              "many": _simple_glyph([(i * 3, (i * 7) % 500) for i in range(300)], ends=[149, 299])}
    glyphs.update(extra)
    order = list(glyphs)
    fb = FontBuilder(1000, isTTF=True)
    fb.setupGlyphOrder(order)
    fb.setupCharacterMap({65: "A"})
    fb.setupGlyf(glyphs)
    fb.setupHorizontalMetrics({n: (600, 0) for n in order})
    fb.setupHorizontalHeader(ascent=800, descent=-200)
    fb.setupNameTable(names or {"familyName": "C03 Test", "styleName": "Regular"})
    fb.setupOS2()
    fb.setupPost()
    font = fb.font
    font["head"].created = font["head"].modified = _STAMP
    font.recalcTimestamp = False
    for tag, prog in (("fpgm", fpgm), ("prep", prep)):
        if prog is not None:
            font[tag] = t = newTable(tag)
            t.program = prog
    if cvt is not None:
        font["cvt "] = t = newTable("cvt ")
        t.values = array.array("h", cvt)
    return font


def _glyph_diff(A, B):
    """names of glyphs whose compiled data differ between the two glyf tables"""
    out = []
    ga, gb = A["glyf"], B["glyf"]
    for n in A.getGlyphOrder():
        try:
            if ga[n].compile(ga) != gb[n].compile(gb):
                out.append(n)
        except Exception:
            out.append(n)
    return out


def _transform_cases(rnd, nrandom):
    """(kind, 2x2 matrix) covering every serialisation form of a component transform"""
    import math

    K = [-32768, -16384, -8192, -1, 1, 8192, 11585, 16383, 16384, 16385, 32767]
    f = lambda k: k / 16384.0
    out = [("none", None)]
    for k in K + [0]:
        out.append(("scale", [[f(k), 0], [0, f(k)]]))
    for a in K + [0]:
        for d in (16384, -16384, 0, 1, 32767, -32768, 8192):
            if a != d:
                out.append(("xyscale", [[f(a), 0], [0, f(d)]]))
    for b in K:
        for a, d in ((16384, 16384), (8192, 16384), (0, 0), (-16384, 32767), (16384, 8192)):
            out.append(("2x2-only01", [[f(a), f(b)], [0, f(d)]]))
            out.append(("2x2-only10", [[f(a), 0], [f(b), f(d)]]))
            out.append(("2x2-both", [[f(a), f(b)], [f(-b) if b != -32768 else f(32767), f(d)]]))
    for deg in (1, 30, 45, 60, 89, 90, 91, 135, 180, 270, 359):
        c, s = math.cos(math.radians(deg)), math.sin(math.radians(deg))
        out.append(("rotation", [[c, s], [-s, c]]))
    # floats off the 2.14 grid, values that quantise to 0 / to equal scales / to the boundaries
    for m in ([[0.3, 0], [0, 0.3]], [[1 / 3, 0], [0, 2 / 3]], [[1, 1e-6], [0, 1]], [[1, 0], [-1e-6, 1]],
              [[1, 0.00004], [0, 1]], [[0.99999, 0], [0, 1]], [[1.99996, 0], [0, -2.0]], [[1, 0.5], [1e-9, 1]],
              [[0.50003, 0], [0, 0.5]], [[1.0, 0], [0, 1.0]], [[-1.0, 0], [0, 1.0]], [[0, 1], [0, 0]], [[0, 0], [1, 0]]):
        out.append(("offgrid", m))
    for _ in range(nrandom):
        form = rnd.choice(("scale", "xyscale", "2x2-only01", "2x2-only10", "2x2-both"))
        v = [rnd.choice((rnd.randint(-32768, 32767), rnd.choice(K))) for _ in range(4)]
        g = rnd.random() < 0.3 and (lambda k: k / 16384.0 + rnd.uniform(-2e-5, 2e-5)) or f
        m = {"scale": [[g(v[0]), 0], [0, g(v[0])]], "xyscale": [[g(v[0]), 0], [0, g(v[3])]],
             "2x2-only01": [[g(v[0]), g(v[1] or 1)], [0, g(v[3])]], "2x2-only10": [[g(v[0]), 0], [g(v[2] or 1), g(v[3])]],
             "2x2-both": [[g(v[0]), g(v[1] or 1)], [g(v[2] or 1), g(v[3])]]}[form]
        m = [[min(max(x, -2.0), 32767 / 16384.0) for x in row] for row in m]
        out.append(("random-" + form, m))
    return out


@check("C03")
def glyf_composite_transforms(tier, rnd):
    """Generated TrueType fonts whose composite glyphs use every component form: no transform,
    uniform scale, x/y scale, 2x2 with only the [0][1] or only the [1][0] term non-zero, full 2x2,
    rotations, F2Dot14 boundary values, floats off the 2.14 grid (the dump of these must import to
    what the same font with the nearest 2.14 values compiles to); x/y offsets at the byte/word
    boundary (incl. fractional), point matching with byte and word point numbers, every component
    flag.  Whole-font, split-table and split-glyph dumps import to the same glyf/loca/maxp/head bytes."""
    from fontTools.ttLib.tables import ttProgram

    r = Result("enumerated transform forms x boundary values + seeded random matrices, one composite glyph per case, "
               "x {whole, splitTables, splitGlyphs} dumps; distinct = (transform form, offset form, dump mode)")
    cases = _transform_cases(rnd, 150 if tier == "quick" else 3000)
    offsets = [(0, 0), (127, -128), (128, 0), (0, -129), (6000, -6000), (1.5, -2.5), (-0.4, 0.6)]
    flagbits = [0x0004, 0x0200, 0x0400, 0x0800, 0x1000, 0x0204, 0x0A04, 0x1206, 0x0000]

    def tiny(m):      # a term that is not zero but is zero in F2Dot14 (my own arithmetic, exact on ints)
        return m is not None and any(x != 0 and -0.5 < x * 16384 < 0.5 for row in m for x in row)

    def glyph_for(i, kind, m, quantise=False):
        comps = [{"glyphName": "many" if i % 5 == 0 else "A", "x": offsets[i % len(offsets)][0], "y": offsets[i % len(offsets)][1],
                  "flags": flagbits[i % len(flagbits)], "transform": m}]
        off = "xy-%d" % (i % len(offsets))
        if i % 3 == 1:        # second component, anchored by point numbers (byte form / word form after 'many')
            word = i % 5 == 0
            m2 = cases[(i * 7) % len(cases)][1]
            comps.append({"glyphName": "A", "firstPt": 260 if word else i % 4, "secondPt": (i // 4) % 4,
                          "flags": 0, "transform": None if tiny(m2) else m2})
            off = "points-word" if word else "points-byte"
        elif i % 3 == 2:
            comps.append({"glyphName": ".notdef", "x": -3, "y": 4, "flags": 0x0002, "transform": None})
        prog = None
        if i % 11 == 0:
            prog = ttProgram.Program()
            prog.fromBytecode(bytes([0xB0, i % 256, 0x21]) if i % 22 else b"")
        return _composite(comps, prog, quantise), off

    # one big font with all ordinary cases, one small font per case whose matrix has a term that
    # quantises to zero without being zero (own class: see known finding)
    fonts = [("all", [i for i, (k, m) in enumerate(cases) if not tiny(m)])]
    fonts += [("tiny", [i]) for i, (k, m) in enumerate(cases) if tiny(m)]
    tmp = tempfile.mkdtemp()
    try:
        for fclass, idx in fonts:
            desc = {}

            def make(quantise=False):
                extra = {}
                for i in idx:
                    g, off = glyph_for(i, *cases[i], quantise=quantise)
                    extra["c%04d" % i] = g
                    desc["c%04d" % i] = (cases[i][0], off, cases[i][1])
                if fclass == "all":     # offsets at the int16 boundary (bounding box still representable)
                    extra["cBound"] = _composite([{"glyphName": ".notdef", "x": 32757, "y": -32768, "flags": 0, "transform": None}])
                    desc["cBound"] = ("none", "xy-int16-boundary", None)
                return _build_ttf(extra)
            for mode in (None, "tables", "glyphs"):
                rr = Result("")
                try:
                    # reference bytes: the same font with the transforms already on the 2.14 grid (bounding
                    # boxes are computed from the transform, the table can only hold grid values)
                    _roundtrip(rr, "composites/%s" % mode, make, tmp, split=mode, must_compile=True, make_ref=lambda: make(True))
                except NotAFont as e:
                    for name, (kind, off, m) in desc.items():
                        r.case((kind + "-tiny" if fclass == "tiny" else kind, off, mode))
                    r.fail("saveXML raises for a composite glyph with %s transform %r: %s" % (cases[idx[0]][0], cases[idx[0]][1], e),
                           known_id="C03-fixed-to-str-tiny-nonzero" if fclass == "tiny" else None)
                    continue
                for name, (kind, off, m) in desc.items():
                    r.case((kind + "-tiny" if fclass == "tiny" else kind, off, mode))
                if rr.violations:
                    # localise: rebuild, dump, import, compare glyph by glyph
                    with _quiet():
                        B = _import(_dump(make(), _fresh_dir(tmp), split=mode))
                        bad = _glyph_diff(make(True), B)
                    for n in bad[:5]:
                        r.fail("composite glyph with %s transform %r (%s) compiles differently after a %s dump"
                               % (desc[n][0], desc[n][2], desc[n][1], mode or "whole-font"), glyph=n)
                    if not bad:
                        for v in rr.violations:
                            r.fail(v["what"], known_id=v.get("known_id"))
    finally:
        shutil.rmtree(tmp, ignore_errors=True)
    r.sample({"composite_glyphs": len(cases), "example": {"kind": cases[40][0], "transform": cases[40][1]}})
    return r


# ----------------------------------------------------------------------------- 4. TrueType programs

_PUSH_OPS = set([0x40, 0x41]) | set(range(0xB0, 0xC0))
_WORDS = [0x0000, 0x0001, 0x00FF, 0x0100, 0x7FFF, 0x8000, 0x8001, 0xFFFF, 0xFF00, 0x1234]
_BYTES = [0, 1, 127, 128, 255]


def _gen_bytecode(rnd, n, well_formed=True):
    out = bytearray()
    for _ in range(n):
        k = rnd.random()
        if k < 0.2:
            c = rnd.randint(1, 8)
            out.append(0xB0 + c - 1)
            out += bytes(rnd.choice(_BYTES + [rnd.randrange(256)]) for _ in range(c))
        elif k < 0.45:
            c = rnd.randint(1, 8)
            out.append(0xB8 + c - 1)
            for _ in range(c):
                out += struct.pack(">H", rnd.choice(_WORDS + [rnd.randrange(65536)]))
        elif k < 0.55:
            c = rnd.choice((1, 2, 8, 9, 24, 25, 26, 51, 254, 255))
            out += bytes([0x40, c])
            out += bytes(rnd.choice(_BYTES + [rnd.randrange(256)]) for _ in range(c))
        elif k < 0.65:
            c = rnd.choice((1, 2, 8, 9, 24, 25, 26, 51, 254, 255))
            out += bytes([0x41, c])
            for _ in range(c):
                out += struct.pack(">H", rnd.choice(_WORDS + [rnd.randrange(65536)]))
        else:
            op = rnd.randrange(256)
            while op in _PUSH_OPS:
                op = rnd.randrange(256)
            out.append(op)
    if not well_formed:
        how = rnd.randrange(4)
        if how == 0:
            out += bytes([0x40, 0])                  # NPUSHB with a zero count
        elif how == 1:
            out += bytes([0xB8 + 3, 0x7F, 0xFF, 0x80])   # PUSHW[4] cut short
        elif how == 2:
            out += bytes([0x41, 200, 1, 2, 3])       # NPUSHW cut short
        else:
            out += bytes([0x40])                     # NPUSHB without a count
    return bytes(out)


def _program_cases(rnd, nrandom):
    """(class, Program) list"""
    from fontTools.ttLib.tables import ttProgram

    def bc(b):
        p = ttProgram.Program()
        p.fromBytecode(b)
        return p

    def asm(lines):
        p = ttProgram.Program()
        p.fromAssembly(lines)
        return p

    out = [("empty", bc(b""))]
    for op in range(256):                               # every opcode on its own, with minimal operands
        if op == 0x40:
            b = bytes([op, 1, 255])
        elif op == 0x41:
            b = bytes([op, 1, 0x80, 0x00])
        elif 0xB0 <= op <= 0xB7:
            b = bytes([op]) + bytes(_BYTES[i % 5] for i in range(op - 0xB0 + 1))
        elif 0xB8 <= op <= 0xBF:
            b = bytes([op]) + b"".join(struct.pack(">H", _WORDS[i % len(_WORDS)]) for i in range(op - 0xB8 + 1))
        else:
            b = bytes([op])
        out.append(("single-op", bc(b)))
    for w in _WORDS:                                    # signed boundaries in each word-push form
        out.append(("pushw-boundary", bc(bytes([0xB8]) + struct.pack(">H", w))))
        out.append(("npushw-boundary", bc(bytes([0x41, 2]) + struct.pack(">HH", w, w ^ 0xFFFF))))
        out.append(("pushw-then-pushb", bc(bytes([0xB8]) + struct.pack(">H", w) + bytes([0xB0, w & 0xFF, 0xB9]) + struct.pack(">HH", 5, w))))
    for c in (1, 8, 9, 25, 26, 50, 51, 255):
        out.append(("npushb-run", bc(bytes([0x40, c]) + bytes((i * 37) % 256 for i in range(c)) + b"\x2b")))
        out.append(("npushw-run", bc(bytes([0x41, c]) + b"".join(struct.pack(">H", _WORDS[i % len(_WORDS)]) for i in range(c)) + b"\x2b")))
    out.append(("control-flow", bc(bytes([0xB0, 0, 0x2C, 0xB0, 1, 0x58, 0xB8, 0xFF, 0xFF, 0x1B, 0x59, 0x2D, 0x89, 0x2D]))))
    # models that start as assembly (PUSH[ ] picks the encoding itself)
    out.append(("assembly", asm(["PUSH[ ]", "1 2 300 -32768 32767 0 255 256 -1", "SVTCA[0]", "MDAP[1]"])))
    out.append(("assembly", asm(["PUSH[ ]  /* 300 values pushed */"] + [str((i * 911) % 65536 - 32768) for i in range(300)] + ["POP[ ]"])))
    out.append(("assembly", asm(["NPUSHW[ ]  /* 3 values pushed */", "-32768 32767 -1", "PUSHB[ ]  /* 2 values pushed */", "0 255",
                                 "PUSHW[ ]\t/* 1 value pushed */", "-32768", "IF[ ]", "ELSE[ ]", "EIF[ ]", "INSTR145[ ]"])))
    out.append(("assembly", asm("FDEF[ ]\n  PUSHW[ ] 255 256\n  /* a comment */ ADD[ ]\nENDF[ ]")))
    for i in range(nrandom):
        out.append(("random", bc(_gen_bytecode(rnd, rnd.randint(1, 40)))))
    for i in range(max(4, nrandom // 10)):
        out.append(("malformed", bc(_gen_bytecode(rnd, rnd.randint(0, 6), well_formed=False))))
    return out


@check("C03")
def truetype_programs(tier, rnd):
    """fpgm, prep and glyph programs (simple and composite glyphs) survive the dump exactly, as
    assembly (disassembleInstructions=True) and as hex bytecode (False), in whole and per-glyph
    dumps: every opcode, PUSHB/PUSHW/NPUSHB/NPUSHW runs of every length class with words at the
    signed boundaries 0x7FFF/0x8000/0xFFFF, programs that start life as assembly (PUSH[ ]), and
    truncated/ill-formed streams (which must fall back to a lossless bytecode dump)."""
    r = Result("every single opcode + engineered push forms x boundary words + assembly-born programs + seeded random "
               "and ill-formed streams; each in a simple glyph, a composite glyph, fpgm or prep; x disassemble on/off "
               "x {whole, splitGlyphs}; distinct = (program class, host, disassemble, dump mode)")
    progs = _program_cases(rnd, 120 if tier == "quick" else 2500)
    tmp = tempfile.mkdtemp()
    try:
        # fpgm / prep can hold one program per font: rotate a sample of programs through them
        hosts = []
        nfonts = 6 if tier == "quick" else 40
        per = (len(progs) + nfonts - 1) // nfonts
        for f in range(nfonts):
            chunk = progs[f * per:(f + 1) * per]
            if not chunk:
                continue
            hosts.append((chunk, progs[(f * 53 + 7) % len(progs)], progs[(f * 101 + 300) % len(progs)]))
        for fi, (chunk, fp, pp) in enumerate(hosts):
            desc = {}

            def make():
                import copy
                extra = {}
                for i, (cls, p) in enumerate(chunk):
                    name = "p%04d" % i
                    p = copy.deepcopy(p)
                    if i % 4 == 3:
                        extra[name] = _composite([{"glyphName": "A", "x": i, "y": 0, "flags": 4}], p)
                        desc[name] = (cls, "composite")
                    else:
                        extra[name] = _simple_glyph([(0, 0), (0, 50 + i), (50, 50), (50, 0)], program=p)
                        desc[name] = (cls, "simple")
                return _build_ttf(extra, fpgm=copy.deepcopy(fp[1]), prep=copy.deepcopy(pp[1]), cvt=[0, 1, -1, 32767, -32768])
            for dis in (True, False):
                for mode in (None, "glyphs"):
                    rr = Result("")
                    try:
                        _roundtrip(rr, "programs", make, tmp, split=mode, disassembleInstructions=dis, must_compile=True)
                    except Exception as e:
                        r.fail("font with generated TrueType programs: %s dump (disassemble=%s) raised %s: %s"
                               % (mode or "whole", dis, type(e).__name__, str(e)[:200]))
                        continue
                    for name, (cls, host) in desc.items():
                        r.case((cls, host, dis, mode))
                    r.case((fp[0], "fpgm", dis, mode))
                    r.case((pp[0], "prep", dis, mode))
                    if rr.violations:
                        with _quiet():
                            A = make()
                            B = _import(_dump(A, _fresh_dir(tmp), split=mode, disassembleInstructions=dis))
                            bad = _glyph_diff(A, B)
                            for n in bad[:3]:
                                r.fail("%s glyph program of class %s, bytecode %s, changes in a %s dump with disassembleInstructions=%s"
                                       % (desc[n][1], desc[n][0], A["glyf"][n].program.getBytecode().hex()[:80], mode or "whole-font", dis), glyph=n)
                            for tag in ("fpgm", "prep"):
                                if A[tag].compile(A) != B[tag].compile(B):
                                    r.fail("%s program %s changes in a %s dump with disassembleInstructions=%s"
                                           % (tag, A[tag].compile(A).hex()[:80], mode or "whole-font", dis), table=tag)
                        if not bad:
                            for v in rr.violations:
                                r.fail(v["what"], known_id=v.get("known_id"))
    finally:
        shutil.rmtree(tmp, ignore_errors=True)
    r.sample({"programs": len(progs), "example_bytecode": progs[300][1].getBytecode().hex() if len(progs) > 300 else None})
    return r


# ----------------------------------------------------------------------------- 5. dump options

def _sbit_xml(rnd, depths, glyph_names):
    """TTX source of an EBLC/EBDT pair: one strike per bit depth; index subtable formats 1-5;
    glyph formats 1, 2, 5, 6, 7 (bitmaps, byte and bit aligned, small/big/shared metrics).
    Row padding bits are zero as the format demands.  Returns (xml, classes)."""
    names = list(glyph_names)
    eblc, ebdt, classes = [], [], []
    line = "".join('<%s value="%d"/>' % (k, v) for k, v in
                   (("ascender", 10), ("descender", -3), ("widthMax", 20), ("caretSlopeNumerator", 1), ("caretSlopeDenominator", 0),
                    ("caretOffset", 0), ("minOriginSB", -1), ("minAdvanceSB", 0), ("maxBeforeBL", 9), ("minAfterBL", -2), ("pad1", 0), ("pad2", 0)))

    def metrics(kind, w, h):
        if kind == "Small":
            return ('<SmallGlyphMetrics><height value="%d"/><width value="%d"/><BearingX value="%d"/><BearingY value="%d"/>'
                    '<Advance value="%d"/></SmallGlyphMetrics>' % (h, w, rnd.randint(-3, 3), rnd.randint(-5, 12), w + 1))
        return ('<BigGlyphMetrics><height value="%d"/><width value="%d"/><horiBearingX value="%d"/><horiBearingY value="%d"/>'
                '<horiAdvance value="%d"/><vertBearingX value="%d"/><vertBearingY value="%d"/><vertAdvance value="%d"/></BigGlyphMetrics>'
                % (h, w, rnd.randint(-3, 3), rnd.randint(-5, 12), w + 1, -w // 2, 1, h + 1))

    def image(w, h, d, bit_aligned):
        rows = []
        for _ in range(h):
            rows.append("".join(rnd.choice("01") for _ in range(w * d)))
        if bit_aligned:
            bits = "".join(rows)
            bits += "0" * (-len(bits) % 8)
        else:
            bits = "".join(row + "0" * (-len(row) % 8) for row in rows)
        return bytes(int(bits[i:i + 8], 2) for i in range(0, len(bits), 8))

    for si, d in enumerate(depths):
        subtables, glyphs = [], []
        plan = [(1, 1), (3, 2), (2, 5), (4, 6), (5, 5), (1, 7), (4, 1), (3, 6)]
        for indexFormat, imageFormat in plan:
            n = rnd.randint(1, 3)
            if len(names) < n + 1:
                break
            mine = [names.pop(0) for _ in range(n)]
            if indexFormat in (4, 5) and names:
                names.pop(0)                       # sparse formats: leave a hole in the glyph id range
            fixed = ""
            w, h = rnd.choice((1, 3, 7, 8, 9, 16, 17)), rnd.choice((1, 2, 5, 8, 11))
            if indexFormat in (2, 5):
                fixed = '<imageSize value="%d"/>%s' % ((w * h * d + 7) // 8, metrics("Big", w, h))
            subtables.append('<eblc_index_sub_table_%d imageFormat="%d" firstGlyphIndex="0" lastGlyphIndex="0">%s%s</eblc_index_sub_table_%d>'
                             % (indexFormat, imageFormat, fixed, "".join('<glyphLoc name="%s"/>' % g for g in mine), indexFormat))
            for g in mine:
                if indexFormat not in (2, 5):
                    w, h = rnd.choice((1, 3, 7, 8, 9, 16, 17)), rnd.choice((1, 2, 5, 8, 11))
                m = {1: metrics("Small", w, h), 2: metrics("Small", w, h), 5: "", 6: metrics("Big", w, h), 7: metrics("Big", w, h)}[imageFormat]
                data = image(w, h, d, imageFormat in (2, 5, 7))
                body = "<rawimagedata>%s</rawimagedata>" % data.hex()
                glyphs.append('<ebdt_bitmap_format_%d name="%s">%s%s</ebdt_bitmap_format_%d>' % (imageFormat, g, m, body, imageFormat))
                classes.append((d, indexFormat, imageFormat))
        eblc.append('<strike index="%d"><bitmapSizeTable><sbitLineMetrics direction="hori">%s</sbitLineMetrics>'
                    '<sbitLineMetrics direction="vert">%s</sbitLineMetrics><colorRef value="0"/><startGlyphIndex value="0"/>'
                    '<endGlyphIndex value="0"/><ppemX value="%d"/><ppemY value="%d"/><bitDepth value="%d"/><flags value="1"/>'
                    '</bitmapSizeTable>%s</strike>' % (si, line, line, 9 + si, 9 + si, d, "".join(subtables)))
        ebdt.append('<strikedata index="%d">%s</strikedata>' % (si, "".join(glyphs)))
    xml = ('<?xml version="1.0" encoding="UTF-8"?>\n<ttFont><EBLC><header version="2.0"/>%s</EBLC><EBDT><header version="2.0"/>%s</EBDT></ttFont>'
           % ("".join(eblc), "".join(ebdt)))
    return xml, classes


def _sbit_font(seed_rnd, depths, nglyphs=40, components=False, reload=True):
    """reload=True: the model is compiled once and loaded again from the binary (the object model
    of a font file); False: the model as imported from the TTX source.  components=True: add glyphs of the component formats 8 (small metrics) and 9 (big metrics)
    to the object model of strike 0 (built directly: they have no other source)."""
    import random
    from fontTools.ttLib.tables import E_B_D_T_ as D, E_B_L_C_ as L
    from fontTools.ttLib.tables.BitmapGlyphMetrics import SmallGlyphMetrics, BigGlyphMetrics

    rnd = random.Random(seed_rnd)
    extra = {"b%03d" % i: _simple_glyph([(0, 0), (0, 5 + i), (5, 5), (5, 0)]) for i in range(nglyphs * len(depths))}
    extra.update({"k8": _simple_glyph([(0, 0), (0, 5), (5, 5), (5, 0)]), "k9": _simple_glyph([(0, 0), (0, 6), (5, 5), (5, 0)])})
    font = _build_ttf(extra)
    xml, classes = _sbit_xml(rnd, depths, [n for n in extra if n[0] == "b"])
    font.importXML(io.BytesIO(xml.encode("utf-8")))
    if components:
        for fmt, gname in ((8, "k8"), (9, "k9")):
            g = D.ebdt_bitmap_classes[fmt](None, font)
            del g.data
            g.metrics = SmallGlyphMetrics() if fmt == 8 else BigGlyphMetrics()
            for k in (g.metrics.binaryFormat.split()):
                if k.endswith(":"):
                    setattr(g.metrics, k[:-1], rnd.randint(1, 9))
            g.componentArray = []
            for c in range(rnd.randint(1, 3)):
                comp = D.EbdtComponent()
                comp.name, comp.xOffset, comp.yOffset = "b%03d" % c, rnd.randint(-128, 127), rnd.randint(-128, 127)
                g.componentArray.append(comp)
            font["EBDT"].strikeData[0][gname] = g
            st = L.eblc_sub_table_classes[1](None, None)
            del st.data
            st.indexFormat, st.imageFormat, st.names = 1, fmt, [gname]
            st.firstGlyphIndex = st.lastGlyphIndex = font.getGlyphID(gname)
            font["EBLC"].strikes[0].indexSubTables.append(st)
            classes.append((depths[0], 1, fmt))
    if reload:
        from fontTools.ttLib import TTFont

        b = io.BytesIO()
        font.save(b)
        font = TTFont(io.BytesIO(b.getvalue()), recalcTimestamp=False)
    return font, classes


@check("C03")
def bitmap_dump_formats(tier, rnd):
    """EBLC/EBDT fonts (every index subtable format 1-5, glyph formats 1,2,5,6,7,8,9, bit depths
    1,2,4,8; loaded from a binary, plus one model that was only ever imported from TTX) and the
    corpus CBDT/sbix sources: dumps with bitmapGlyphDataFormat raw / row / bitwise / extfile all
    import to the same EBDT/EBLC (CBDT/CBLC, sbix) bytes."""
    from fontTools.ttLib import TTFont

    r = Result("seeded EBLC/EBDT fonts per bit depth x {raw,row,bitwise,extfile} + corpus colour-bitmap TTX sources x "
               "{raw,extfile}; distinct = (bit depth, index format, image format, dump format)")
    tmp = tempfile.mkdtemp()
    try:
        nseeds = 3 if tier == "quick" else 40
        for k in range(nseeds):
            seed = rnd.randrange(1 << 30)
            for depths, comps, reload in (((1,), False, True), ((2,), False, True), ((4,), False, True), ((8,), False, True),
                                          ((1, 8), False, True), ((1,), True, True), ((1,), False, False)):
                for fmt in ("raw", "row", "bitwise", "extfile"):
                    classes = []

                    def make():
                        f, c = _sbit_font(seed, depths, components=comps, reload=reload)
                        classes[:] = c
                        return f
                    rr = Result("")
                    try:
                        _roundtrip(rr, "EBDT depths=%s" % (depths,), make, tmp, bitmapGlyphDataFormat=fmt, only=("EBDT", "EBLC"), must_compile=True)
                    except Exception as e:
                        rr.fail("%s: %s" % (type(e).__name__, str(e)[:200]))
                    for c in classes:
                        r.case(c + (fmt, "loaded" if reload else "imported"))
                    for v in rr.violations:
                        deep = fmt == "bitwise" and max(depths) > 1
                        xmlborn = not reload and fmt in ("row", "bitwise")
                        r.fail("EBDT font (seed %d, bit depths %s%s%s) dumped with bitmapGlyphDataFormat=%s: %s"
                               % (seed, depths, ", with component glyphs (formats 8, 9)" if comps else "",
                                  "" if reload else ", object model imported from TTX, never compiled", fmt, v["what"]),
                               known_id="C03-ebdt-component-xml" if comps else "C03-bitwise-bitmap-depth" if deep
                               else "C03-sbit-imported-format5-row-dump" if xmlborn else None)
        for rel in ("subset/data/google_color.ttx", "ttLib/tables/data/NotoColorEmoji.subset.index_format_3.ttx", "subset/data/sbix.ttx"):
            p = os.path.join(TESTS, rel)
            for fmt in ("raw", "extfile"):
                def make():
                    A = TTFont(recalcTimestamp=False)
                    A.importXML(p)
                    return A
                r.case((rel, fmt))
                try:
                    _roundtrip(r, "%s -z %s" % (rel, fmt), make, tmp, bitmapGlyphDataFormat=fmt)
                except Exception as e:
                    r.fail("%s dumped with bitmapGlyphDataFormat=%s: %s: %s" % (rel, fmt, type(e).__name__, str(e)[:200]))
    finally:
        shutil.rmtree(tmp, ignore_errors=True)
    return r


# ----------------------------------------------------------------------------- 6. option matrix, selections, CLI

_MATRIX_FONTS = ("ttx/data/TestTTF.ttf", "ttx/data/TestOTF.otf", "ttLib/data/I.otf", "ttLib/tables/data/NotoSans-VF-cubic.subset.ttf",
                 "ttLib/data/varc-ac00-ac01.ttf", "ttx/data/TestWOFF2.woff2", "ttLib/data/TestVGID-Regular.otf")
_MATRIX_QUICK = 6


@check("C03")
def dump_option_matrix(tier, rnd):
    """newlinestr in {LF, CRLF, CR} x {whole, splitTables, splitGlyphs} x disassembleInstructions
    on/off over small corpus fonts (TrueType, CFF, CFF2, variable, VARC, WOFF2) and a generated
    font with programs and transformed composites; table selections (tables=[t] and skipTables=[t]
    for every table t), imported on top of the original font as `ttx -m` does; and the same through
    the ttx command line (option parser + ttDump/ttCompile jobs)."""
    from fontTools.ttLib import TTFont
    from fontTools import ttx
    from fontTools.ttLib.tables import ttProgram

    r = Result("6 (quick) / 7 corpus fonts + 1 generated font x 3 newline conventions x 3 split modes x 2 instruction modes (quick: "
               "each newline x split pair once per font, instruction mode alternating); every single-table selection; "
               "ttx CLI option sets; distinct = (font, newline, split, disassemble | selection | cli options)")
    tmp = tempfile.mkdtemp()

    def generated():
        progs = _program_cases(__import__("random").Random(7), 12)
        extra = {}
        for i, (cls, p) in enumerate(progs[250:300]):
            extra["p%03d" % i] = _simple_glyph([(0, 0), (0, 50 + i), (50, 50), (50, 0)], program=p)
        for i, (kind, m) in enumerate(_transform_cases(__import__("random").Random(7), 5)[::9]):
            if m is None or not any(x != 0 and -0.5 < x * 16384 < 0.5 for row in m for x in row):
                extra["c%03d" % i] = _composite([{"glyphName": "A", "x": i, "y": -i, "flags": 4, "transform": m}])
        extra["Aa"] = _simple_glyph([(0, 0), (0, 9), (9, 9)])
        extra["aA"] = _simple_glyph([(0, 0), (0, 8), (8, 8)])          # file names that differ in case only
        extra["q*r"] = _simple_glyph([(0, 0), (0, 7), (7, 7)])
        extra["q?r"] = _simple_glyph([(0, 0), (0, 6), (6, 6)])         # names that are the same after replacing illegal characters
        extra["A_"] = _simple_glyph([(0, 0), (0, 5), (5, 5)])
        extra["a__"] = _simple_glyph([(0, 0), (0, 4), (4, 4)])         # 'A' is written as 'A_', 'A_' as 'A__'
        return _build_ttf(extra, fpgm=progs[280][1], prep=progs[290][1], cvt=[1, 2, 3])

    try:
        sources = [(rel, (lambda p=os.path.join(TESTS, rel): TTFont(p, recalcTimestamp=False)))
                   for rel in (_MATRIX_FONTS[:_MATRIX_QUICK] if tier == "quick" else _MATRIX_FONTS)]
        sources.append(("generated", generated))
        n = 0
        for label, make in sources:
            for nl in NEWLINES:
                for split in (None, "tables", "glyphs"):
                    n += 1
                    for dis in (True, False):
                        if tier == "quick" and dis != (n % 2 == 0):
                            continue
                        r.case((label, nl, split, dis))
                        try:
                            _roundtrip(r, "%s newlinestr=%r split=%s disassemble=%s" % (label, nl, split, dis), make, tmp,
                                       split=split, newlinestr=nl, disassembleInstructions=dis, must_compile=True)
                        except Exception as e:
                            r.fail("%s newlinestr=%r split=%s disassemble=%s: %s: %s" % (label, nl, split, dis, type(e).__name__, str(e)[:200]))
        # every file of a dump uses the requested newline convention and nothing else
        for nl in NEWLINES:
            r.case(("generated", nl, "newline-bytes"))
            with _quiet():
                d = _fresh_dir(tmp)
                _dump(generated(), d, split="glyphs", newlinestr=nl)
            for fn in sorted(os.listdir(d)):
                with open(os.path.join(d, fn), "rb") as f:
                    data = f.read()
                rest = data.replace(nl.encode(), b"")
                if b"\n" in rest or b"\r" in rest or data.count(nl.encode()) < 3:
                    r.fail("dump file %s written with newlinestr=%r contains other line terminators" % (fn, nl))
                    break
        # table selections, merged into the original (ttx -m)
        for rel in _MATRIX_FONTS[:3] if tier == "quick" else _MATRIX_FONTS:
            p = os.path.join(TESTS, rel)
            with _quiet():
                A = TTFont(p, recalcTimestamp=False)
                tags = [t for t in A.keys() if t != "GlyphOrder"]
                for sel in [("tables", [t]) for t in tags] + [("skipTables", [t]) for t in tags[::3]] + [("tables", ["GlyphOrder"])]:
                    r.case((rel, sel[0], sel[1][0]))
                    try:
                        A = TTFont(p, recalcTimestamp=False)
                        out = os.path.join(_fresh_dir(tmp), "sel.ttx")
                        A.saveXML(out, **{sel[0]: sel[1]})
                        dumped = set(TTFont().__class__ and _dumped_tables(out))
                        want = set(sel[1]) if sel[0] == "tables" else set(A.keys()) - set(sel[1])
                        if dumped != want:
                            r.fail("%s saveXML(%s=%r) dumped tables %s" % (rel, sel[0], sel[1], sorted(dumped ^ want)))
                        A.ensureDecompiled()          # both sides compile from the object model, not pass-through
                        t1 = _compile(A, "save")
                        B = TTFont(p, recalcTimestamp=False)
                        B.importXML(out)
                        B.ensureDecompiled()
                        _compare(r, "%s %s=%r merged into the original" % (rel, sel[0], sel[1]), A, t1, B)
                    except Exception as e:
                        r.fail("%s %s=%r: %s: %s" % (rel, sel[0], sel[1], type(e).__name__, str(e)[:200]))
        # the command line
        cli = [[], ["-s"], ["-g"], ["-i"], ["--newline", "CRLF"], ["--newline", "CR", "-s"], ["-g", "-i", "--newline", "CRLF"],
               ["-z", "extfile"], ["-x", "name"], ["-t", "glyf", "-t", "cvt"], ["-e"]]
        for rel in ("ttx/data/TestTTF.ttf", "ttx/data/TestOTF.otf", "ttx/data/TestTTC.ttc"):
            p = os.path.join(TESTS, rel)
            for opts in cli:
                if rel.endswith(".ttc"):
                    if "-x" in opts or "-t" in opts:
                        continue          # a partial dump of a collection member has nothing to be merged into
                    opts = opts + ["-y", "1"]
                r.case((rel, "cli", " ".join(opts)))
                d = _fresh_dir(tmp)
                try:
                    with _quiet():
                        A = TTFont(p, recalcTimestamp=False, fontNumber=1 if rel.endswith(".ttc") else -1)
                        A.ensureDecompiled()
                        t1 = _compile(A, "save")
                        for args in (["-q", "-o", os.path.join(d, "x.ttx")] + opts + [p],
                                     ["-q", "--no-recalc-timestamp", "-o", os.path.join(d, "x.bin")]
                                     + (["-m", p] if ("-x" in opts or "-t" in opts) and not rel.endswith(".ttc") else []) + [os.path.join(d, "x.ttx")]):
                            jobs, options = ttx.parseOptions(args)
                            for action, inp, outp in jobs:
                                action(inp, outp, options)
                        with open(os.path.join(d, "x.bin"), "rb") as f:
                            t2 = _sfnt_tables(f.read())
                    for t in sorted(set(t1) | set(t2)):
                        if t1.get(t) != t2.get(t):
                            if t == "head" and _head_only_old_timestamps(t1[t], t2[t]):
                                r.fail("ttx %s %s: head timestamps before 1970 clamped" % (" ".join(opts), rel), known_id="C15-timestamp-before-1970")
                            else:
                                r.fail("ttx %s %s; ttx x.ttx: table %r differs from what the loaded font compiles to" % (" ".join(opts), rel, t), table=t)
                except Exception as e:
                    r.fail("ttx %s %s: %s: %s" % (" ".join(opts), rel, type(e).__name__, str(e)[:200]))
    finally:
        shutil.rmtree(tmp, ignore_errors=True)
    return r


def _dumped_tables(path):
    """table tags present in a (whole-font) TTX file, read with an independent XML parser"""
    from xml.etree import ElementTree
    from fontTools.ttLib.ttFont import xmlToTag

    return [xmlToTag(e.tag) if e.tag != "GlyphOrder" else "GlyphOrder" for e in ElementTree.parse(path).getroot()]


# ----------------------------------------------------------------------------- 7. table tags, free text

_SPECIAL_TEXT = ["&", "<", ">", "\"", "'", "&amp;", "&lt;b&gt;", "<a href=\"x\">y</a>", "]]>", "<![CDATA[x]]>", "<!-- c -->", "a&b<c>d\"e'f",
                 "café üß", "中文 日本語", "\U0001F600 astral", " nbsp ", "tab\there", "two\nlines",
                 "cr\rhere", "  padded  ", "a  b", "%s %d {x}", "\\x41 \\u0041", "&#65; &#x41;", " ls", "x" * 300, "Δελτα"]


@check("C03")
def table_tags_and_free_text(tier, rnd):
    """(a) Tables the library has no class for, under every form of tag (letters of both cases,
    digits, trailing spaces, '/', punctuation, '_'), with arbitrary data, in whole-font and
    split-table dumps (where the tag also becomes a file name).  (b) Free text with XML-special
    characters, non-ASCII and astral characters, CR/LF/tab and padding in name records of every
    platform/encoding kind (incl. undecodable bytes), CFF top-dict strings and glyph names, meta
    and SVG documents.  Compared after XML whitespace normalisation; characters that are illegal
    in XML 1.0 (C0 controls, surrogates) are outside the property and not generated."""
    from fontTools.ttLib import newTable
    from fontTools.ttLib.ttFont import tagToXML
    from fontTools.ttLib.tables.DefaultTable import DefaultTable
    from fontTools.fontBuilder import FontBuilder
    from fontTools.pens.t2CharStringPen import T2CharStringPen
    import itertools

    r = Result("(a) all 4-character tags over the class alphabet {a,Z,7,_,/,+,space} that do not start with a space and "
               "are not a tag of the base font or of a table class (seeded sample in quick), x {whole, splitTables}; "
               "(b) 27 special strings x seeded combinations in name/CFF/meta/SVG/glyph names x 3 newline conventions; "
               "distinct = (tag class pattern, dump mode) | (text carrier, string class)")
    tmp = tempfile.mkdtemp()
    try:
        # ---- (a) tags
        alphabet = "aZ7_/+ "
        tags = ["".join(t) for t in itertools.product(alphabet, repeat=4) if t[0] != " "]
        tags += ["ABCD", "abcd", "zzzz", "Zapf", "bdat", "TeX ", "a   ", "ab  ", "abc ", "A   ", "1   ", "~~~~", "!#$%", "a.b,", "(ab)", "[a]{", "a b ", "a  b",
                 "x=y;", "Q?@^", "`a|b", "SVGx", "_a_b", "__ab", "a__b", "_A_B", "CFF3", "OS/3", "cvt1"]
        base_tags = set(_build_ttf({}).keys())
        tags = sorted(set(t for t in tags if t not in base_tags))
        if tier == "quick":
            tags = sorted(rnd.sample(tags, 260))
        with _quiet():
            tags = [t for t in tags if type(newTable(t)) is DefaultTable]

        def cls(t):
            return "".join("s" if c == " " else "l" if c.islower() else "u" if c.isupper() else "d" if c.isdigit() else c if c in "_/" else "p" for c in t)
        chunk = 130
        for k in range(0, len(tags), chunk):
            mine = tags[k:k + chunk]
            short = [t for t in mine if len(tagToXML(t)) <= 4 and tagToXML(t) != t.strip()]   # class of the known C15 ambiguity
            for group, known in (([t for t in mine if t not in short], None), (short, "C15-tagToXML-short-mangled")):
                if not group:
                    continue
                data = {t: bytes(rnd.randrange(256) for _ in range(rnd.choice((0, 1, 3, 4, 16, 17, 40)))) for t in group}

                def make():
                    f = _build_ttf({})
                    for t in group:
                        f[t] = newTable(t)
                        f[t].data = data[t]
                    return f
                for mode in (None, "tables"):
                    rr = Result("")
                    try:
                        _roundtrip(rr, "unknown tables", make, tmp, split=mode, must_compile=True)
                    except Exception as e:
                        rr.fail("%s: %s" % (type(e).__name__, str(e)[:160]))
                    for t in group:
                        r.case((cls(t), mode))
                    for v in rr.violations:
                        r.fail("font with raw tables %r..., %s dump: %s" % (group[:4], mode or "whole", v["what"]), known_id=known or v.get("known_id"))
        # ---- (b) free text
        texts = list(_SPECIAL_TEXT)
        for _ in range(20 if tier == "quick" else 300):
            texts.append("".join(rnd.choice(_SPECIAL_TEXT + ["x", " ", "&", "<", "]]>", "\""]) for _ in range(rnd.randint(2, 4))))

        def name_font(strings, nlabel, odd=False):
            def make():
                f = _build_ttf({})
                nm = f["name"]
                nm.names = []
                for i, s in enumerate(strings):
                    nid = 256 + i
                    nm.setName(s, nid, 3, 1, 0x409)                                   # Windows BMP (UTF-16BE)
                    nm.setName(s, nid, 3, 10, 0x409)                                  # Windows full repertoire
                    nm.setName(s, nid, 0, 4, 0)                                       # Unicode platform
                    try:
                        s.encode("mac_roman")
                        nm.setName(s, nid, 1, 0, 0)                                   # Macintosh Roman
                    except UnicodeEncodeError:
                        pass
                    try:
                        nm.setName(s.encode("shift_jis"), nid, 1, 1, 11)              # bytes in a legacy encoding
                    except UnicodeEncodeError:
                        pass
                nm.setName(b"\xff\xfe odd bytes \x80\x81 <&>", 300 + len(strings), 1, 0, 0)
                nm.setName(b"\x81\x85<&>\x81", 301 + len(strings), 1, 1, 11)            # not decodable in its legacy encoding: 8-bit dump
                nm.setName(b"raw < & > bytes", 302 + len(strings), 2, 0, 0)           # ISO platform
                if odd == "control":
                    nm.setName(b"\x81\x00\x01", 303 + len(strings), 1, 1, 11)          # undecodable, with C0 bytes
                elif odd == "utf16":
                    nm.setName(b"\xd8\x3d<&", 303 + len(strings), 3, 1, 0x409)          # lone surrogate: not decodable as UTF-16
                elif odd == "ascii":
                    nm.setName(b"caf\xe9", 303 + len(strings), 2, 0, 0)                 # ISO/ASCII record with a Latin-1 byte
                return f
            return make
        def edge_uws(s):       # begins/ends (inside any XML white space) with white space that is not XML white space
            t = s.strip(" \t\r\n")
            return t != t.strip()
        plain = [s for s in texts if not edge_uws(s)]
        for nl in NEWLINES:
            for k in range(0, len(plain), 16):
                part = plain[k:k + 16]
                for s in part:
                    r.case(("name", _text_class(s), nl))
                try:
                    _roundtrip(r, "name records %r... newlinestr=%r" % (part[0][:20], nl), name_font(part, nl), tmp, newlinestr=nl, must_compile=True)
                except Exception as e:
                    r.fail("name records %r... newlinestr=%r: %s: %s" % (part[:3], nl, type(e).__name__, str(e)[:200]))
        for s in [s for s in texts if edge_uws(s)][:6]:
            r.case(("name", "edge-unicode-whitespace", "\n"))
            rr = Result("")
            _roundtrip(rr, "name record %r" % s, name_font([s], "\n"), tmp, must_compile=True)
            for v in rr.violations:
                r.fail(v["what"] + " (begins/ends with white space that is not XML white space)", known_id="C03-name-strip-unicode-whitespace")

        for odd, what, kid in (("control", "b'\\x81\\x00\\x01' (1,1,11): undecodable bytes incl. C0 controls", "C03-name-8bit-control-bytes"),
                               ("utf16", "b'\\xd8\\x3d<&' (3,1,0x409): not decodable as UTF-16", "C03-name-undecodable-unicode-record"),
                               ("ascii", "b'caf\\xe9' (2,0,0): not decodable as ASCII", "C03-name-undecodable-unicode-record")):
            r.case(("name", "undecodable-" + odd, "\n"))
            rr = Result("")
            try:
                _roundtrip(rr, "name record " + what, name_font(["x"], "\n", odd=odd), tmp, must_compile=True)
            except Exception as e:
                rr.fail("name record %s: the dump cannot be imported: %s: %s" % (what, type(e).__name__, str(e)[:120]))
            for v in rr.violations:
                r.fail(v["what"], known_id=kid)

        # CFF strings and glyph names, meta, SVG
        gnames = ["a&b", "lt<gt>", "q\"uote", "apos'trophe", "café", "semi;colon", "a.b-c_d", "sp ace", "]]>x", "\u00ff\u00fe", "a--b", "-->"]

        def cff_font(strings, hyphens=False):
            def make():
                anames = [n for n in gnames if n.isascii()]          # CFF strings are ASCII by construction
                order = [".notdef"] + anames
                fb = FontBuilder(1000, isTTF=False)
                fb.setupGlyphOrder(order)
                fb.setupCharacterMap({65 + i: n for i, n in enumerate(anames)})
                pen = T2CharStringPen(600, None)
                pen.moveTo((0, 0)); pen.lineTo((0, 10)); pen.lineTo((10, 10)); pen.closePath()
                cs = pen.getCharString()
                info = dict(zip(("version", "Notice", "Copyright", "FullName", "FamilyName", "Weight"),
                                (t.encode("ascii", "replace").decode() for t in strings)))
                fb.setupCFF("C03-Test", info, {n: cs for n in order}, {})
                fb.setupHorizontalMetrics({n: (600, 0) for n in order})
                fb.setupHorizontalHeader(ascent=800, descent=-200)
                fb.setupNameTable({"familyName": strings[0].strip() or "x", "styleName": strings[1].strip() or "y"})
                fb.setupOS2()
                fb.setupPost()
                f = fb.font
                f["head"].created = f["head"].modified = _STAMP
                f.recalcTimestamp = False
                f["meta"] = m = newTable("meta")
                m.data = {"dlng": strings[2].strip(), "slng": strings[3].strip(), "bild": b"\x00\x01<&>",
                          "appl": strings[4].encode("utf-8") if hyphens else strings[4].replace("--", "- -").encode("utf-8")}
                f["SVG "] = sv = newTable("SVG ")
                sv.docList = [('<svg xmlns="http://www.w3.org/2000/svg"><!-- %s --><text>%s</text></svg>'
                               % (strings[5].replace("--", "- -").replace("\r", ""), "]]> <![CDATA[ &amp; ]]>"), 1, 2, False),
                              ("<svg><g id=\"glyph3\"/></svg>", 3, 3, True)]
                return f
            return make
        for k in range(0, len(texts) - 6, 3):
            part = [t for t in texts[k:k + 6]]
            for s in part:
                r.case(("cff/meta/svg", _text_class(s)))
            try:
                _roundtrip(r, "CFF/meta/SVG strings %r" % (part,), cff_font(part), tmp, split="tables" if k % 2 else None, must_compile=True)
            except Exception as e:
                r.fail("CFF/meta/SVG strings %r: %s: %s" % (part, type(e).__name__, str(e)[:200]))
        r.case(("meta", "ascii-data-with-double-hyphen"))
        rr = Result("")
        try:
            _roundtrip(rr, "meta", cff_font(["a", "b", "c", "d", "x--y", "e"], hyphens=True), tmp, must_compile=True)
        except Exception as e:
            rr.fail("%s: %s" % (type(e).__name__, str(e)[:120]))
        for v in rr.violations:
            r.fail("meta table with the ASCII data b'x--y' under a non-text tag: the dump cannot be imported: " + v["what"], known_id="C03-xml-comment-double-hyphen")
        # glyph names in a TrueType font (post format 2 + GlyphOrder + glyf/hmtx references + split-glyph file names)
        def tt_names():
            return _build_ttf({n: _simple_glyph([(0, 0), (0, 5 + i), (5, 5)]) for i, n in enumerate(gnames)})
        for mode in (None, "glyphs"):
            for n in gnames:
                r.case(("glyph-name", _text_class(n), mode))
            try:
                _roundtrip(r, "glyph names %r (%s dump)" % (gnames, mode or "whole"), tt_names, tmp, split=mode, must_compile=True)
            except Exception as e:
                r.fail("glyph names %r (%s dump): %s: %s" % (gnames, mode or "whole", type(e).__name__, str(e)[:200]))
    finally:
        shutil.rmtree(tmp, ignore_errors=True)
    r.sample({"unknown_table_tags": len(tags), "texts": len(texts), "example": _SPECIAL_TEXT[11]})
    return r


def _text_class(s):
    c = set()
    for ch in s:
        c.add("amp" if ch == "&" else "angle" if ch in "<>" else "quote" if ch in "\"'" else "ws" if ch in " \t\r\n" else
              "astral" if ord(ch) > 0xFFFF else "nonascii" if ord(ch) > 127 else "bracket" if ch in "[]" else "plain")
    return tuple(sorted(c))


@check("C03")
def small_tables_with_redundant_content(tier, rnd):
    """Small record tables decoded from BINARY data that is legal but redundant (what real fonts
    contain and builders would not write): VORG records equal to defaultVertOriginY, records in
    every order of value, an empty record list; LTSH; gasp with repeated behaviours; meta with
    empty data blocks.  The model
    decoded from the bytes is dumped (whole font, splitTables) and the import must
    compile to what the decoded model compiles to."""
    from fontTools.ttLib import newTable

    r = Result("VORG: default in {0, 880, -120} x record sets over the font's glyphs with values in {default, default+-1, 0, extremes}; LTSH / gasp variants; x {whole, splitTables}; distinct = (table, shape, dump mode)")
    tmp = tempfile.mkdtemp(prefix="c03small")
    extra = {"g%d" % i: _simple_glyph([(0, 0), (0, 10 + i), (10, 10)]) for i in range(5)}
    nglyphs = 3 + len(extra)

    def cases():
        for default in (880, 0, -120):
            pool = [default, default + 1, default - 1, 0, 32767, -32768]
            shapes = [[], [(1, default)], [(1, default), (2, default)], [(0, default + 1), (3, default), (5, default - 1)],
                      [(g, default) for g in range(nglyphs)]]
            for _ in range(3 if tier == "quick" else 40):
                gids = sorted(rnd.sample(range(nglyphs), rnd.randint(1, nglyphs)))
                shapes.append([(g, rnd.choice(pool)) for g in gids])
            for recs in shapes:
                data = struct.pack(">HHhH", 1, 0, default, len(recs)) + b"".join(struct.pack(">Hh", g, y) for g, y in recs)
                yield "VORG", ("default-equal" if any(y == default for _, y in recs) else "plain", len(recs) > 0), data
        for pels in ([0] * nglyphs, [1] * nglyphs, [rnd.randrange(256) for _ in range(nglyphs)], [255] + [0] * (nglyphs - 1)):
            yield "LTSH", (len(set(pels)),), struct.pack(">HH", 0, nglyphs) + bytes(pels)
        for ranges in ([(0xFFFF, 15)], [(8, 2), (16, 1), (0xFFFF, 3)], [(8, 1), (9, 1), (0xFFFF, 1)], [(7, 0), (0xFFFF, 0)]):
            for ver in (0, 1):
                yield "gasp", (len(ranges), ver), struct.pack(">HH", ver, len(ranges)) + b"".join(struct.pack(">HH", p, b) for p, b in ranges)
        # meta: data blocks of length 0 (legal), printable and binary, two maps pointing at the same block
        for blocks in ([(b"appl", b"")], [(b"appl", b""), (b"bild", b"\x00\x01")], [(b"test", b"printable ascii")], [(b"aaaa", b"\xff"), (b"zzzz", b"")]):
            first = 16 + 12 * len(blocks)
            maps, body, off = b"", b"", first
            for tag, blk in blocks:
                maps += tag + struct.pack(">LL", off, len(blk))
                body += blk
                off += len(blk)
            yield "meta", (len(blocks), min(len(b_) for _, b_ in blocks)), struct.pack(">LLLL", 1, 0, first, len(blocks)) + maps + body

    try:
        for tag, shape, data in cases():
            def make(tag=tag, data=data):
                font = _build_ttf(dict(extra))
                t = newTable(tag)
                t.decompile(data, font)
                font[tag] = t
                return font
            for mode, opts in (("whole", {}), ("split", {"split": "tables"})):
                r.case((tag, shape, mode))
                try:
                    _roundtrip(r, "%s decoded from %s (%s dump)" % (tag, data.hex(), mode), make, tmp, only=[tag], must_compile=True, **opts)
                except Exception as e:
                    r.fail("%s decoded from %s (%s dump): %s: %s" % (tag, data.hex(), mode, type(e).__name__, str(e)[:200]))
    finally:
        shutil.rmtree(tmp, ignore_errors=True)
    r.sample({"VORG": "0001000003700002 0001 0370 0002 0370: two records equal to the default"})
    return r
