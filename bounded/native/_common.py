import json
import os
import sys

REPO = os.environ.get("VERIF_REPO", "/repo")


def check_tree():
    import fontTools

    f = os.path.realpath(fontTools.__file__)
    if not f.startswith(os.path.realpath(os.path.join(REPO, "Lib")) + os.sep):
        print("RESULT " + json.dumps({"crash": "fontTools imported from %s" % f}))
        sys.exit(0)


def emit(d):
    print("RESULT " + json.dumps(d, default=str))
