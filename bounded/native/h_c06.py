"""C06: serialising GSUB/GPOS/GDEF never changes how text is shaped.

Every check compiles layout tables with the real BaseTTXConverter.compile (pure-python packer,
HarfBuzz repacker auto / required) and shapes glyph-id sequences with HarfBuzz on the compiled
bytes.  The expected result is either the shaping of the bytes the table was read from (corpus),
or computed directly from the generator's specification (generated tables), i.e. independent of
any fontTools serialisation."""
import glob
import logging
import os
import struct

from harness import check, Result
from _common import REPO

REPACK = "fontTools.ttLib.tables.otBase:USE_HARFBUZZ_REPACKER"
COMPACT = "fontTools.otlLib.optimize.gpos:COMPRESSION_LEVEL"
MODES = (False, None, True)
ADV = 1000          # every glyph's advance in the HarfBuzz font (no hmtx needed)
PUA = 0xF0000       # glyph n is reached through private-use code point PUA+n: no Unicode-driven
                    # normalisation, default-ignorable or mark behaviour interferes


# --------------------------------------------------------------------------- HarfBuzz side

def _hbfont(tables, nglyphs):
    """HarfBuzz font over just the given layout tables; code point PUA+n maps to glyph n."""
    import uharfbuzz as hb

    t = {k: bytes(v) for k, v in tables.items() if v is not None}
    t["maxp"] = struct.pack(">IH", 0x00005000, nglyphs)
    face = hb.Face.create_for_tables(lambda face, tag, data: t.get(tag), None)
    face.upem = 1000
    font = hb.Font(face)
    ff = hb.FontFuncs.create()
    ff.set_nominal_glyph_func(lambda font, cp, data: cp - PUA if cp >= PUA else 0)
    ff.set_glyph_h_advance_func(lambda font, gid, data: ADV)
    font.funcs = ff
    return font


def _shape(font, gids, feats, script=None, lang=None, direction="ltr"):
    import uharfbuzz as hb

    buf = hb.Buffer()
    buf.add_codepoints([PUA + g for g in gids])
    buf.direction = direction
    if script:
        buf.set_script_from_ot_tag(script)
    else:
        buf.script = "Zyyy"
    if lang and lang != "dflt":
        buf.set_language_from_ot_tag(lang)
    else:
        buf.language = "dflt"
    hb.shape(font, buf, feats)
    return [(i.codepoint, i.cluster, p.x_advance, p.y_advance, p.x_offset, p.y_offset)
            for i, p in zip(buf.glyph_infos, buf.glyph_positions)]


# --------------------------------------------------------------------------- fontTools side

def _quiet():
    logging.getLogger("fontTools").setLevel(logging.CRITICAL)


def _order(n):
    return [".notdef"] + ["g%d" % i for i in range(1, n)]


def _font(order):
    from fontTools.ttLib import TTFont

    f = TTFont()
    f.setGlyphOrder(list(order))
    return f


def _layout_table(font, tag, lookups, features):
    """font[tag] = table with the given Lookup objects; features = [(tag, [lookup indices])],
    all registered under DFLT/dflt."""
    from fontTools.ttLib import newTable
    from fontTools.ttLib.tables import otTables as ot

    tbl = newTable(tag)
    t = tbl.table = getattr(ot, tag)()
    t.Version = 0x00010000
    t.LookupList = ot.LookupList()
    t.LookupList.Lookup = list(lookups)
    t.LookupList.LookupCount = len(lookups)
    t.FeatureList = ot.FeatureList()
    t.FeatureList.FeatureRecord = []
    for ftag, idx in features:
        fr = ot.FeatureRecord()
        fr.FeatureTag = ftag
        fr.Feature = ot.Feature()
        fr.Feature.FeatureParams = None
        fr.Feature.LookupListIndex = list(idx)
        fr.Feature.LookupCount = len(idx)
        t.FeatureList.FeatureRecord.append(fr)
    t.FeatureList.FeatureCount = len(features)
    t.ScriptList = ot.ScriptList()
    sr = ot.ScriptRecord()
    sr.ScriptTag = "DFLT"
    sr.Script = ot.Script()
    ls = sr.Script.DefaultLangSys = ot.DefaultLangSys()
    ls.LookupOrder = None
    ls.ReqFeatureIndex = 0xFFFF
    ls.FeatureIndex = list(range(len(features)))
    ls.FeatureCount = len(features)
    sr.Script.LangSysRecord = []
    sr.Script.LangSysCount = 0
    t.ScriptList.ScriptRecord = [sr]
    t.ScriptList.ScriptCount = 1
    font[tag] = tbl
    return tbl


def _compile(font, tag, mode):
    font.cfg[REPACK] = mode
    return font[tag].compile(font)


def _lookup_shape(lookup):
    """(lookup type, [subtable class/format...]) after compile: shows which resolution ran."""
    out = []
    for st in lookup.SubTable:
        inner = getattr(st, "ExtSubTable", None)
        out.append(("Ext:" if inner is not None else "") + (inner or st).__class__.__name__)
    return (lookup.LookupType, len(out), out[0] if out else None)


def _gdef(font, marks=()):
    """GDEF with explicit glyph classes (every glyph a base, `marks` marks), compiled by the
    code under test as well."""
    from fontTools.ttLib import newTable
    from fontTools.ttLib.tables import otTables as ot

    tbl = newTable("GDEF")
    t = tbl.table = ot.GDEF()
    t.Version = 0x00010000
    t.GlyphClassDef = ot.GlyphClassDef()
    marks = set(marks)
    t.GlyphClassDef.classDefs = {g: (3 if g in marks else 1) for g in font.getGlyphOrder()[1:]}
    t.AttachList = t.LigCaretList = t.MarkAttachClassDef = None
    font["GDEF"] = tbl
    return tbl.compile(font)


# --------------------------------------------------------------------------- reference semantics
# Tiny interpreters of single lookups on the generator's specification (plain dicts), written
# from the OpenType lookup definitions; they never look at fontTools objects or bytes.

def _ref_gsub(kind, spec, text, alt=1):
    out = []
    i = 0
    while i < len(text):
        g = text[i]
        if kind == "single":
            out.append(spec.get(g, g))
        elif kind == "multiple":
            out.extend(spec.get(g, [g]))
        elif kind == "alternate":
            alts = spec.get(g)
            out.append(alts[alt - 1] if alts and 1 <= alt <= len(alts) else g)
        elif kind == "ligature":
            for comps, lig in spec.get(g, ()):          # in table order: first match wins
                if tuple(text[i + 1:i + 1 + len(comps)]) == comps:
                    out.append(lig)
                    i += len(comps)
                    break
            else:
                out.append(g)
        i += 1
    return out


def _ref_pairpos(subtables, text):
    """subtables: list of ("glyphs", vf2_nonzero, {(g1, g2): (v1, v2)}) or
    ("classes", vf2_nonzero, coverage set, cd1 dict, cd2 dict, {(c1, c2): (v1, v2)}, n1, n2);
    v = (xPlacement, yPlacement, xAdvance).  Returns [(x_advance, x_offset, y_offset)]."""
    pos = [[ADV, 0, 0] for _ in text]

    def add(k, v):
        pos[k][1] += v[0]
        pos[k][2] += v[1]
        pos[k][0] += v[2]

    i = 0
    while i < len(text):
        nxt = i + 1
        if i + 1 < len(text):
            g, h = text[i], text[i + 1]
            for st in subtables:
                if st[0] == "glyphs":
                    v = st[2].get((g, h))
                    if v is None:
                        continue
                else:
                    _, _, cov, cd1, cd2, m, n1, n2 = st
                    if g not in cov:
                        continue
                    c1, c2 = cd1.get(g, 0), cd2.get(h, 0)
                    if c1 >= n1 or c2 >= n2:
                        continue
                    v = m.get((c1, c2), ((0, 0, 0), (0, 0, 0)))
                add(i, v[0])
                add(i + 1, v[1])
                nxt = i + 2 if st[1] else i + 1
                break
        i = nxt
    return [tuple(p) for p in pos]


def _positions(res):
    return [(x[2], x[4], x[5]) for x in res]


def _value(fmt, v):
    from fontTools.ttLib.tables.otBase import ValueRecord

    if not fmt:
        return None
    rec = ValueRecord(fmt)
    for bit, name, val in ((1, "XPlacement", v[0]), (2, "YPlacement", v[1]), (4, "XAdvance", v[2]), (8, "YAdvance", 5)):
        if fmt & bit:
            setattr(rec, name, val)
    return rec


# --------------------------------------------------------------------------- generators

def _gen_classes(rnd, glyphs, n, with_zero):
    """Assign each glyph a class in [0 if with_zero else 1, n); every class non-empty."""
    lo = 0 if with_zero else 1
    classes = list(range(lo, n))
    glyphs = list(glyphs)
    assert len(glyphs) >= len(classes)
    out = {}
    for g, c in zip(glyphs, classes):
        out[g] = c
    for g in glyphs[len(classes):]:
        out[g] = rnd.choice(classes)
    return out


def _gen_class_kerning(rnd, order, n1, n2, vf1, vf2, density=0.7, extra_cd1=0, per_class=2,
                       class2zero=False, zero_rows=0, pool=None):
    """Specification of one PairPos format 2 subtable (see _ref_pairpos).  Coverage holds glyphs of
    every first class including class 0 (absent from ClassDef1); ClassDef1 additionally mentions
    `extra_cd1` glyphs that are NOT in the Coverage."""
    pool = list(pool if pool is not None else order[1:])
    rnd.shuffle(pool)
    nf, ns = n1 * per_class + 1, n2 * per_class
    first = pool[:nf]
    second = pool[nf // 2:nf // 2 + ns]           # overlaps the first glyphs: chains a b c
    extra = pool[nf + ns:nf + ns + extra_cd1]
    cd1 = _gen_classes(rnd, first, n1, True)
    cd2 = _gen_classes(rnd, second, n2, False)
    cov = set(first)
    cd1 = {g: c for g, c in cd1.items() if c}
    for g in extra:
        cd1[g] = rnd.randrange(1, n1) if n1 > 1 else 0
    zr = set(rnd.sample(range(n1), zero_rows)) if zero_rows else set()

    def val(fmt):
        return tuple(rnd.choice((-1, 1)) * rnd.randint(1, 900) if fmt & bit and rnd.random() < 0.8 else 0
                     for bit in (1, 2, 4))

    m = {}
    for c1 in range(n1):
        for c2 in range(n2):
            if c1 in zr or (c2 == 0 and not class2zero) or rnd.random() >= density:
                continue
            v = (val(vf1), val(vf2))
            if any(v[0]) or any(v[1]):
                m[c1, c2] = v
    return ("classes", bool(vf2), cov, cd1, cd2, m, n1, n2), (vf1, vf2), extra


def _build_pairpos2(spec, fmts, order):
    from fontTools.ttLib.tables import otTables as ot

    _, _, cov, cd1, cd2, m, n1, n2 = spec
    idx = {g: i for i, g in enumerate(order)}
    st = ot.PairPos()
    st.Format = 2
    st.ValueFormat1, st.ValueFormat2 = fmts
    st.Coverage = ot.Coverage()
    st.Coverage.glyphs = sorted(cov, key=idx.__getitem__)
    st.ClassDef1 = ot.ClassDef()
    st.ClassDef1.classDefs = dict(cd1)
    st.ClassDef2 = ot.ClassDef()
    st.ClassDef2.classDefs = dict(cd2)
    st.Class1Record = []
    zero = ((0, 0, 0), (0, 0, 0))
    for c1 in range(n1):
        r1 = ot.Class1Record()
        r1.Class2Record = []
        for c2 in range(n2):
            r2 = ot.Class2Record()
            v = m.get((c1, c2), zero)
            r2.Value1 = _value(fmts[0], v[0])
            r2.Value2 = _value(fmts[1], v[1])
            r1.Class2Record.append(r2)
        st.Class1Record.append(r1)
    st.Class1Count, st.Class2Count = n1, n2
    return st


def _gen_glyph_kerning(rnd, order, nfirst, nsecond, vf1, vf2, pool=None):
    pool = list(pool if pool is not None else order[1:])
    rnd.shuffle(pool)
    firsts = pool[:nfirst]
    seconds = pool[nfirst // 2:nfirst // 2 + max(nsecond * 2, 8)]
    m = {}
    for g in firsts:
        for h in rnd.sample(seconds, min(nsecond, len(seconds))):
            v = (tuple(rnd.randint(-900, 900) if vf1 & b else 0 for b in (1, 2, 4)),
                 tuple(rnd.randint(-900, 900) if vf2 & b else 0 for b in (1, 2, 4)))
            m[g, h] = v
    return ("glyphs", bool(vf2), m), (vf1, vf2)


def _build_pairpos1(spec, fmts, order):
    from fontTools.ttLib.tables import otTables as ot

    idx = {g: i for i, g in enumerate(order)}
    by_first = {}
    for (g, h), v in spec[2].items():
        by_first.setdefault(g, []).append((h, v))
    st = ot.PairPos()
    st.Format = 1
    st.ValueFormat1, st.ValueFormat2 = fmts
    st.Coverage = ot.Coverage()
    st.Coverage.glyphs = sorted(by_first, key=idx.__getitem__)
    st.PairSet = []
    for g in st.Coverage.glyphs:
        ps = ot.PairSet()
        ps.PairValueRecord = []
        for h, v in sorted(by_first[g], key=lambda hv: idx[hv[0]]):
            pvr = ot.PairValueRecord()
            pvr.SecondGlyph = h
            pvr.Value1 = _value(fmts[0], v[0])
            pvr.Value2 = _value(fmts[1], v[1])
            ps.PairValueRecord.append(pvr)
        ps.PairValueCount = len(ps.PairValueRecord)
        st.PairSet.append(ps)
    st.PairSetCount = len(st.PairSet)
    return st


def _pair_texts(rnd, specs, order, extra=(), ntriples=300):
    """Texts exercising a PairPos lookup: for every (first class, second class) of every class
    subtable one or two representative pairs, every glyph pair of glyph subtables (capped), the
    ClassDef1-only glyphs as first glyph, and random 3..5 glyph chains over the involved glyphs."""
    texts = []
    involved = set(extra)
    for st in specs:
        if st[0] == "glyphs":
            pairs = list(st[2])
            involved.update(g for p in pairs for g in p)
            if len(pairs) > 4000:
                pairs = rnd.sample(pairs, 4000)
            texts.extend(pairs)
            continue
        _, _, cov, cd1, cd2, m, n1, n2 = st
        involved.update(cov)
        involved.update(cd2)
        by1, by2 = {}, {}
        for g in sorted(cov):
            by1.setdefault(cd1.get(g, 0), []).append(g)
        for g, c in sorted(cd2.items()):
            by2.setdefault(c, []).append(g)
        outside = [g for g in order[1:40] if g not in cd2][:1]
        by2.setdefault(0, outside)
        k = 0
        for c1, gs1 in sorted(by1.items()):
            for c2, gs2 in sorted(by2.items()):
                if not gs2:
                    continue
                k += 1
                texts.append((gs1[k % len(gs1)], gs2[k % len(gs2)]))
            texts.append((gs1[-1], gs1[0]))
    for g in extra:
        for st in specs:
            if st[0] == "classes" and st[4]:
                texts.append((g, sorted(st[4])[0]))
    inv = sorted(involved)
    for _ in range(ntriples):
        texts.append(tuple(rnd.choice(inv) for _ in range(rnd.randint(3, 5))))
    return texts


def _check_pairpos(r, label, data, gdef, order, specs, texts, known=None):
    """Shape every text on compiled GPOS bytes and compare with the reference interpreter."""
    idx = {g: i for i, g in enumerate(order)}
    font = _hbfont({"GPOS": data, "GDEF": gdef}, len(order))
    bad = 0
    for t in texts:
        got = _positions(_shape(font, [idx[g] for g in t], {"kern": True}))
        want = _ref_pairpos(specs, t)
        if got != want:
            bad += 1
            if bad <= 2:
                kid = known(t) if known else None
                r.fail("%s: text %s positions (adv,dx,dy) %s, in-memory table specifies %s"
                       % (label, list(t), got, want), known_id=kid)
    return bad


@check("C06")
def pairpos_overflow_split_keeps_every_class(tier, rnd):
    """A PairPos lookup too large for 16-bit offsets (class matrices of 120..200 x 110..170
    records, glyph-pair sets > 64 KiB; plain or Extension; alone or between other subtables whose
    coverage overlaps) compiled with each packer shapes every (first class, second class) pair and
    random glyph chains exactly as the in-memory subtables specify - in particular after
    splitPairPos (pure-python packer) every first-glyph class keeps its kerning, ClassDef1 glyphs
    outside the Coverage stay unkerned and subtable order is preserved."""
    from fontTools.otlLib import builder as B

    _quiet()
    r = Result("generated PairPos lookups overflowing at subtable level x packer {python, hb auto, hb required}; "
               "texts = representative pair per class pair + ClassDef1-only glyphs + random chains; expected positions "
               "from an independent interpreter of the spec; distinct = (structure, packer, resulting subtable layout)")
    rounds = 1 if tier == "quick" else 4
    for rd in range(rounds):
        structures = []
        order = _order(1400)
        # 1: one class subtable, both value formats -> splits once or twice
        structures.append(("f2", False, [("c", rnd.randint(120, 150), rnd.randint(110, 135), 4, 4, 25)]))
        # 2: inside an Extension lookup from the start, needs repeated splitting, odd class count
        structures.append(("f2-ext", True, [("c", 2 * rnd.randint(80, 95) + 1, rnd.randint(120, 150), 5, 4, 10)]))
        # 3: glyph pairs, small class subtable, big class subtable, small class subtable (overlapping coverage)
        structures.append(("f1+f2+F2+f2", False, [("g", 40, 12, 4, 1), ("c", 6, 5, 4, 1, 3),
                                                 ("c", rnd.randint(125, 150), rnd.randint(115, 140), 4, 1, 40),
                                                 ("c", 9, 7, 4, 1, 0)]))
        # 4: big glyph-pair subtable (PairSet offsets overflow)
        structures.append(("F1", False, [("g", rnd.randint(280, 330), rnd.randint(55, 65), 4, 2)]))
        if tier != "quick":
            structures.append(("f2-y", False, [("c", rnd.randint(100, 130), rnd.randint(100, 120), 6, 1, 0)]))
            structures.append(("F1-ext", True, [("g", rnd.randint(280, 330), rnd.randint(40, 50), 5, 4)]))
        for name, ext, parts in structures:
            pool = order[1:800]                 # coverages of the subtables of one lookup overlap
            specs, fmts, extras = [], [], []
            for p in parts:
                if p[0] == "c":
                    s, f, ex = _gen_class_kerning(rnd, order, p[1], p[2], p[3], p[4], extra_cd1=p[5], pool=pool,
                                                  class2zero=(p[1] % 2 == 0))
                    extras.extend(ex)
                else:
                    s, f = _gen_glyph_kerning(rnd, order, p[1], p[2], p[3], p[4], pool=pool)
                specs.append(s)
                fmts.append(f)
            texts = _pair_texts(rnd, specs, order, extras, 300 if tier == "quick" else 1500)
            for mode in MODES:
                font = _font(order)
                gdef = _gdef(font)
                sts = [(_build_pairpos2 if s[0] == "classes" else _build_pairpos1)(s, f, order) for s, f in zip(specs, fmts)]
                lk = B.buildLookup(sts, table="GPOS", extension=ext)
                _layout_table(font, "GPOS", [lk], [("kern", [0])])
                try:
                    data = _compile(font, "GPOS", mode)
                except Exception as e:
                    r.case((name, mode, "error"))
                    r.fail("%s packer=%r: compile raised %s: %s although the lookup can be split" % (name, mode, type(e).__name__, str(e)[:100]))
                    continue
                layout = _lookup_shape(lk)
                for _ in texts:
                    r.case((name, mode, layout))
                _check_pairpos(r, "%s packer=%r -> %d bytes %s" % (name, mode, len(data), layout), data, gdef, order, specs, texts)
                r.sample({"structure": name, "packer": str(mode), "bytes": len(data), "lookup_after_compile": str(layout), "texts": len(texts)})
    return r


def _gsub_case(rnd, kind, order, size):
    """(spec for _ref_gsub, subtable object, texts) for one GSUB subtable of roughly `size` bytes."""
    from fontTools.otlLib import builder as B

    names = order[1:]
    src_pool = names[:len(names) // 2]
    out_pool = names[len(names) // 2:]
    if kind == "single":
        n = size // 4
        src = rnd.sample(src_pool, n)
        spec = {g: rnd.choice(out_pool) for g in src}           # irregular deltas -> format 2
        st = B.buildSingleSubstSubtable(dict(spec))
        texts = [tuple(rnd.sample(src, 3)) + (rnd.choice(out_pool),) for _ in range(400)] + [(g,) for g in src[::7]]
    elif kind in ("multiple", "alternate"):
        k = rnd.randint(10, 16)
        n = min(size // (2 * k + 6), len(src_pool))
        src = rnd.sample(src_pool, n)
        spec = {g: [rnd.choice(out_pool) for _ in range(rnd.randint(k - 2, k + 2))] for g in src}
        st = (B.buildMultipleSubstSubtable if kind == "multiple" else B.buildAlternateSubstSubtable)({g: list(v) for g, v in spec.items()})
        texts = [(g,) for g in src] + [tuple(rnd.sample(src, 2)) + (rnd.choice(out_pool),) for _ in range(300)]
    else:
        nfirst = rnd.randint(150, 400)
        per = max(2, size // (nfirst * 10))
        firsts = rnd.sample(src_pool, nfirst)
        comp_pool = rnd.sample(src_pool, 60)
        mapping = {}
        outs = iter(out_pool * 3)
        for f in firsts:
            for _ in range(per):
                comps = (f,) + tuple(rnd.choice(comp_pool) for _ in range(rnd.choice((1, 2, 2, 3, 4))))
                if comps not in mapping:
                    mapping[comps] = next(outs)
        st = B.buildLigatureSubstSubtable(dict(mapping))
        spec = {f: [(tuple(lig.Component), lig.LigGlyph) for lig in ligs] for f, ligs in st.ligatures.items()}
        keys = list(mapping)
        texts = keys[::3] + [k + rnd.choice(keys) for k in rnd.sample(keys, 300)] + [k[:-1] + (rnd.choice(comp_pool),) for k in rnd.sample(keys, 300)]
    return spec, st, texts


@check("C06")
def gsub_gpos_splits_forced_by_overflow(tier, rnd):
    """MultipleSubst, AlternateSubst, LigatureSubst, SinglePos (format 2) and MarkBasePos subtables
    larger than 64 KiB (so that split*/Extension promotion in the pure-python packer or the
    HarfBuzz repacker's own resolution must run) substitute / position every covered glyph exactly
    as the unsplit in-memory subtable specifies; a neighbouring small subtable after the big one
    keeps its place."""
    from fontTools.otlLib import builder as B

    _quiet()
    r = Result("generated > 64 KiB subtables of GSUB types 2,3,4 and GPOS types 1,4 x packer {python, hb auto, hb required}; "
               "texts = every mapped glyph / ligature sequence (sampled) + mixed sequences; expected output from an interpreter "
               "of the generator's dicts; distinct = (lookup type, packer, resulting layout)")
    order = _order(9000 if tier == "quick" else 16000)
    idx = {g: i for i, g in enumerate(order)}
    rounds = 1 if tier == "quick" else 3
    for rd in range(rounds):
        for kind in ("multiple", "alternate", "ligature"):
            size = rnd.randint(75000, 110000) if tier == "quick" else rnd.randint(70000, 200000)
            spec, _, texts = _gsub_case(rnd, kind, order, size)
            state = rnd.getstate()
            for mode in MODES:
                rnd.setstate(state)
                font = _font(order)
                gdef = _gdef(font)
                # rebuild the (mutable) subtable for every packer from the same spec
                if kind == "ligature":
                    st = B.buildLigatureSubstSubtable({(f,) + c: l for f, ligs in spec.items() for c, l in ligs})
                elif kind == "multiple":
                    st = B.buildMultipleSubstSubtable({g: list(v) for g, v in spec.items()})
                else:
                    st = B.buildAlternateSubstSubtable({g: list(v) for g, v in spec.items()})
                lk = B.buildLookup([st])
                _layout_table(font, "GSUB", [lk], [("test", [0])])
                try:
                    data = _compile(font, "GSUB", mode)
                except Exception as e:
                    r.case((kind, mode, "error"))
                    r.fail("%s packer=%r: compile raised %s: %s although the subtable can be split" % (kind, mode, type(e).__name__, str(e)[:100]))
                    continue
                layout = _lookup_shape(lk)
                hbf = _hbfont({"GSUB": data, "GDEF": gdef}, len(order))
                bad = 0
                for alt in ((1, 2, 5) if kind == "alternate" else (1,)):
                    for t in texts:
                        r.case((kind, mode, layout))
                        got = [order[x[0]] for x in _shape(hbf, [idx[g] for g in t], {"test": alt})]
                        want = _ref_gsub(kind, spec, list(t), alt)
                        if got != want:
                            bad += 1
                            if bad <= 2:
                                r.fail("%s packer=%r (%d bytes, %s): %s (feature value %d) -> %s, in-memory subtable specifies %s"
                                       % (kind, mode, len(data), layout, list(t), alt, got, want))
                r.sample({"type": kind, "packer": str(mode), "bytes": len(data), "layout": str(layout), "texts": len(texts)})
        # ---- GPOS SinglePos format 2 and MarkBasePos
        for kind in ("singlepos", "markbase"):
            if kind == "singlepos":
                n = rnd.randint(8300, 8900) if tier == "quick" else rnd.randint(8300, 15000)
                src = rnd.sample(order[1:], min(n, len(order) - 1))
                spec = {g: (rnd.randint(-500, 500), rnd.randint(-500, 500), rnd.randint(-500, 500)) for g in src}
                texts = [(g,) for g in src[::2]] + [tuple(rnd.sample(order[1:], 3)) for _ in range(300)]
                marks = ()
            else:
                ncls = rnd.randint(24, 40)
                nbase = 70000 // (ncls * 8) + rnd.randint(5, 60)
                pool = rnd.sample(order[1:], nbase + ncls * 3)
                bases_g, marks_g = pool[:nbase], pool[nbase:]
                mark_spec = {m: (i % ncls, (rnd.randint(-300, 300), rnd.randint(-300, 300))) for i, m in enumerate(marks_g)}
                cnt = [0]

                def anchor():
                    cnt[0] += 1
                    return (cnt[0] % 4000 - 2000, cnt[0] // 4000 * 7 + rnd.randint(0, 6) - 900)   # all distinct
                base_spec = {b: {c: anchor() for c in range(ncls) if rnd.random() < 0.93} for b in bases_g}
                spec = (mark_spec, base_spec)
                texts = [(b, m) for b in bases_g[::3] for m in marks_g[::2]] + [(b, rnd.choice(marks_g), rnd.choice(marks_g)) for b in bases_g]
                marks = marks_g
            for mode in MODES:
                font = _font(order)
                gdef = _gdef(font, marks)
                if kind == "singlepos":
                    st = B.buildSinglePosSubtable({g: _value(15, v) for g, v in spec.items()}, font.getReverseGlyphMap())
                    small = B.buildSinglePosSubtable({g: _value(4, (0, 0, 77)) for g in order[1:30]}, font.getReverseGlyphMap())
                    lk = B.buildLookup([st, small])
                else:
                    st = B.buildMarkBasePosSubtable({m: (c, B.buildAnchor(*a)) for m, (c, a) in mark_spec.items()},
                                                    {b: {c: B.buildAnchor(*a) for c, a in d.items()} for b, d in base_spec.items()},
                                                    font.getReverseGlyphMap())
                    lk = B.buildLookup([st])
                _layout_table(font, "GPOS", [lk], [("test", [0])])
                try:
                    data = _compile(font, "GPOS", mode)
                except Exception as e:
                    r.case((kind, mode, "error"))
                    r.fail("%s packer=%r: compile raised %s: %s although the subtable can be split" % (kind, mode, type(e).__name__, str(e)[:100]))
                    continue
                layout = _lookup_shape(lk)
                hbf = _hbfont({"GPOS": data, "GDEF": gdef}, len(order))
                bad = 0
                for t in texts:
                    r.case((kind, mode, layout))
                    got = _positions(_shape(hbf, [idx[g] for g in t], {"test": True}))
                    if kind == "singlepos":
                        want = []
                        for g in t:
                            v = spec.get(g) or ((0, 0, 77) if g in order[1:30] else (0, 0, 0))
                            want.append((ADV + v[2], v[0], v[1]))
                    else:
                        # mark attaches to the preceding base: offset = base anchor - mark anchor, shifted back over
                        # the base's advance (left-to-right); GDEF marks have zero advance
                        b = t[0]
                        want = [(ADV, 0, 0)]
                        for m in t[1:]:
                            c, (mx, my) = mark_spec[m]
                            a = base_spec[b].get(c)
                            want.append((0, a[0] - mx - ADV, a[1] - my) if a else (0, 0, 0))
                    if got != want:
                        bad += 1
                        if bad <= 2:
                            r.fail("%s packer=%r (%d bytes, %s): %s positions %s, in-memory subtable specifies %s"
                                   % (kind, mode, len(data), layout, list(t), got, want))
                r.sample({"type": kind, "packer": str(mode), "bytes": len(data), "layout": str(layout), "texts": len(texts)})
    return r


def _gen_compaction_lookup(rnd, order, hazard):
    """A small PairPos lookup worth compacting: 1..3 subtables (glyph pairs and sparse, block
    structured class matrices), ClassDef1 mentioning glyphs outside the Coverage."""
    pool = rnd.sample(order[1:], rnd.randint(45, 70))      # small universe: coverages overlap
    specs, fmts, extras = [], [], []
    vf1 = rnd.choice((4, 4, 5, 6))
    vf2 = rnd.choice((1, 4, 5)) if hazard == "value2" else 0
    if rnd.random() < 0.4:
        s, f = _gen_glyph_kerning(rnd, order, rnd.randint(2, 8), rnd.randint(1, 4), vf1, vf2, pool=pool)
        specs.append(s)
        fmts.append(f)
    for k in range(rnd.choice((1, 1, 2, 3)) if hazard != "zero-row" else 2):
        n1, n2 = rnd.randint(3, 14), rnd.randint(3, 12)
        s, f, ex = _gen_class_kerning(rnd, order, n1, n2, vf1, vf2, density=1.0, extra_cd1=rnd.choice((0, 2, 6)),
                                      per_class=rnd.choice((1, 2, 3)), class2zero=(hazard == "class2-zero"), pool=pool)
        # sparse block structure: groups of rows use disjoint groups of columns (this is what makes
        # the clustering split the subtable), plus a little noise
        m = s[5]
        nblocks = rnd.randint(1, 4)
        rowb = {c: rnd.randrange(nblocks) for c in range(n1)}
        colb = {c: rnd.randrange(nblocks) for c in range(n2)}
        keep = {}
        for (c1, c2), v in m.items():
            if rowb[c1] == colb[c2] or rnd.random() < 0.05:
                keep[c1, c2] = v
        for c1 in range(n1):                 # no all-zero row: such a row still shadows later subtables
            if not any(a == c1 for a, _ in keep):
                cands = [key for key in m if key[0] == c1]
                if cands:
                    key = rnd.choice(cands)
                    keep[key] = m[key]
                else:
                    keep[c1, rnd.randrange(1, n2)] = ((0, 0, rnd.randint(1, 900)) if vf1 & 4 else (rnd.randint(1, 900), 0, 0), (0, 0, 0))
        if hazard == "zero-row" and k == 0:
            for c1 in rnd.sample(range(n1), max(1, n1 // 3)):
                for key in [key for key in keep if key[0] == c1]:
                    del keep[key]
        m.clear()
        m.update(keep)
        specs.append(s)
        fmts.append(f)
        extras.extend(ex)
    return specs, fmts, extras


@check("C06")
def kerning_compaction_levels_keep_pair_values(tier, rnd):
    """otlLib.optimize.gpos.compact(font, level) for every level 0..9, on PairPos lookups (plain and
    Extension) with glyph-pair and sparse class subtables whose ClassDef1 mentions more glyphs than
    the Coverage, followed by compilation with either packer: every representative glyph pair,
    every ClassDef1-only glyph and random chains get the positions the tables had before compaction."""
    from fontTools.otlLib import builder as B
    from fontTools.otlLib.optimize.gpos import compact

    _quiet()
    r = Result("generated PairPos lookups (1..3 subtables, block-sparse class matrices, ClassDef1 > Coverage, plain/Extension) "
               "x compaction level 0..9 x packer; expected positions from an interpreter of the pre-compaction spec; "
               "distinct = (subtable kinds, extension, level, packer, number of subtables after compaction)")
    order = _order(260)
    n = 36 if tier == "quick" else 400
    modes = (False, None) if tier == "quick" else MODES
    for k in range(n):
        hazard = (None, None, None, "value2", "zero-row", "class2-zero")[k % 6]
        specs, fmts, extras = _gen_compaction_lookup(rnd, order, hazard)
        ext = rnd.random() < 0.4
        texts = _pair_texts(rnd, specs, order, extras, 40)
        kinds = "".join(s[0][0] for s in specs)
        # known: compaction drops first-glyph classes whose row is all zero from the Coverage; in the
        # original lookup such a glyph still matches (with zero values) and stops the subtable search,
        # after compaction a LATER subtable covering the glyph applies its kerning
        zero_row_glyphs = set()
        for i, s in enumerate(specs):
            if s[0] == "classes":
                rows = {c1 for c1, _ in s[5]}
                later = set()
                for s2 in specs[i + 1:]:
                    later.update(s2[2] if s2[0] == "classes" else {g for g, _ in s2[2]})
                zero_row_glyphs.update(g for g in s[2] if s[3].get(g, 0) not in rows and g in later)

        def known(t, zr=zero_row_glyphs):
            return "C06-compact-zero-row-unshadows-later-subtable" if any(g in zr for g in t[:-1]) else None

        for level in range(10):
            for mode in modes:
                font = _font(order)
                gdef = _gdef(font)
                sts = [(_build_pairpos2 if s[0] == "classes" else _build_pairpos1)(s, f, order) for s, f in zip(specs, fmts)]
                lk = B.buildLookup(sts, table="GPOS", extension=ext)
                other = B.buildLookup([B.buildSinglePosSubtable({order[5]: _value(4, (0, 0, 0))}, font.getReverseGlyphMap())])
                _layout_table(font, "GPOS", [other, lk], [("kern", [1])])
                crash_known = _nonzero_record_of_empty_class(font)
                try:
                    compact(font, level)
                    nsub = len(lk.SubTable)
                    data = _compile(font, "GPOS", mode)
                except Exception as e:
                    r.case((kinds, ext, level, mode, "error"))
                    r.fail("compact(level=%d)/compile packer=%r raised %s: %s (subtables %s, hazard %s)" % (level, mode, type(e).__name__, str(e)[:100], kinds, hazard))
                    continue
                for _ in texts:
                    r.case((kinds, ext, level, mode, nsub))
                _check_pairpos(r, "hazard=%s %s ext=%s level=%d packer=%r (%d subtables after compaction)" % (hazard, kinds, ext, level, mode, nsub),
                               data, gdef, order, specs, texts, known=known)
        r.sample({"subtables": kinds, "extension": ext, "texts": len(texts)})
    return r


def _nonzero_record_of_empty_class(font):
    """Some PairPos format 2 subtable has a non-zero Class2Record whose first class has no Coverage
    glyph or whose second class has no glyph listed in ClassDef2 (this includes class 0, 'every other
    glyph').  compact_class_pairs used to raise IndexError on these (repaired; a recurrence is a
    violation like any other exception) - kept as a statistic of how many such tables are exercised."""
    from fontTools.otlLib.optimize.gpos import is_really_zero

    for lk in font["GPOS"].table.LookupList.Lookup:
        for st in lk.SubTable:
            st = getattr(st, "ExtSubTable", None) or st
            if st.__class__.__name__ != "PairPos" or st.Format != 2:
                continue
            used1 = {st.ClassDef1.classDefs.get(g, 0) for g in st.Coverage.glyphs}
            used2 = set(st.ClassDef2.classDefs.values())
            for i, r1 in enumerate(st.Class1Record):
                for j, r2 in enumerate(r1.Class2Record):
                    if (i not in used1 or j not in used2) and not is_really_zero(r2):
                        return True
    return False


# --------------------------------------------------------------------------- corpus

def _glyph_names_in(obj, gset, out, seen):
    if isinstance(obj, str):
        if obj in gset:
            out.add(obj)
    elif isinstance(obj, dict):
        for k, v in obj.items():
            _glyph_names_in(k, gset, out, seen)
            _glyph_names_in(v, gset, out, seen)
    elif isinstance(obj, (list, tuple, set)):
        for v in obj:
            _glyph_names_in(v, gset, out, seen)
    elif hasattr(obj, "__dict__") and id(obj) not in seen:
        seen.add(id(obj))
        for k, v in vars(obj).items():
            if k not in ("reader", "font"):
                _glyph_names_in(v, gset, out, seen)


def _layout_profile(font):
    """(involved glyph ids, feature dict enabling every feature, [(script, lang)])."""
    order = font.getGlyphOrder()
    gset = set(order)
    names, feats, langs = set(), {}, [(None, None)]
    for tag in ("GSUB", "GPOS", "GDEF"):
        if tag not in font:
            continue
        font[tag].ensureDecompiled()
        _glyph_names_in(font[tag].table, gset, names, set())
        t = font[tag].table
        if tag == "GDEF":
            continue
        if getattr(t, "FeatureList", None):
            for fr in t.FeatureList.FeatureRecord:
                feats[str(fr.FeatureTag)] = 1
        if getattr(t, "ScriptList", None):
            for sr in t.ScriptList.ScriptRecord[:3]:
                langs.append((str(sr.ScriptTag), None))
                for lr in sr.Script.LangSysRecord[:1]:
                    langs.append((str(sr.ScriptTag), str(lr.LangSysTag)))
    idx = {g: i for i, g in enumerate(order)}
    return sorted(idx[g] for g in names), feats, sorted(set(langs), key=str)


def _corpus_texts(rnd, involved, nglyphs, npairs, nseq):
    inv = involved or [0]
    texts = [(g,) for g in inv[:200]]
    pairs = [(a, b) for a in inv for b in inv] if len(inv) ** 2 <= npairs else [(rnd.choice(inv), rnd.choice(inv)) for _ in range(npairs)]
    texts += pairs
    for _ in range(nseq):
        texts.append(tuple(rnd.choice(inv) if rnd.random() < 0.9 else rnd.randrange(nglyphs) for _ in range(rnd.randint(3, 8))))
    return texts


def _shape_all(hbf, texts, feats, langs, alt2):
    out = []
    for script, lang in langs:
        for t in texts:
            out.append(_shape(hbf, t, feats, script, lang))
    for t in texts[::5]:
        out.append(_shape(hbf, t, feats, None, None, "rtl"))
    if alt2:
        f2 = {k: 2 for k in feats}
        for t in texts[::3]:
            out.append(_shape(hbf, t, f2))
    return out


def _corpus_fonts():
    pats = ("ttLib/tables/data/aots/*.otf", "cffLib/data/*.otf", "qu2cu/data/*.ttf", "subset/data/*.otf",
            "ttLib/data/*.otf", "ttLib/data/*.ttf", "ttLib/tables/data/*.ttf", "subset/data/*.ttf", "varLib/data/*.ttf")
    out = []
    for p in pats:
        out.extend(sorted(glob.glob(os.path.join(REPO, "Tests", p))))
    return out


@check("C06")
def corpus_tables_recompiled_by_every_packer_shape_like_the_original(tier, rnd):
    """Every binary corpus font with GSUB/GPOS/GDEF (all AOTS lookup-type fonts, real fonts):
    decompile the three tables, optionally run GPOS compaction at a level 1..9, recompile with each
    packer; HarfBuzz shapes singles, pairs and random sequences over the glyphs the tables mention
    (every feature on, every script/language system, ltr and rtl, alternate index 1 and 2) to
    exactly the glyphs, clusters, advances and offsets obtained from the original table bytes."""
    from fontTools.ttLib import TTFont
    from fontTools.otlLib.optimize.gpos import compact

    _quiet()
    r = Result("binary corpus fonts with layout tables x {packer python/hb auto/hb required, compaction level in 1..9 for fonts with "
               "PairPos} x generated texts over involved glyphs; reference = shaping with the file's original table bytes; "
               "distinct = (font, packer, compaction level)")
    npairs, nseq = (250, 60) if tier == "quick" else (2500, 600)
    for path in _corpus_fonts():
        try:
            f0 = TTFont(path, lazy=False)
        except Exception:
            continue
        tags = [t for t in ("GSUB", "GPOS", "GDEF") if t in f0]
        if not tags:
            continue
        name = os.path.relpath(path, os.path.join(REPO, "Tests"))
        nglyphs = len(f0.getGlyphOrder())
        orig = {t: f0.reader[t] for t in tags}
        involved, feats, langs = _layout_profile(f0)
        texts = _corpus_texts(rnd, involved, nglyphs, npairs, nseq)
        alt2 = "GSUB" in tags
        want = _shape_all(_hbfont(orig, nglyphs), texts, feats, langs, alt2)
        has_pairpos = "GPOS" in f0 and any(
            (getattr(st, "ExtSubTable", None) or st).__class__.__name__ == "PairPos"
            for lk in f0["GPOS"].table.LookupList.Lookup for st in lk.SubTable) if "GPOS" in f0 and f0["GPOS"].table.LookupList else False
        configs = [(m, 0) for m in MODES]
        if has_pairpos:
            levels = rnd.sample(range(1, 10), 3) if tier == "quick" else range(1, 10)
            configs += [(rnd.choice(MODES), lv) for lv in levels]
        seen = {}
        for mode, level in configs:
            f = TTFont(path, lazy=False)
            for t in tags:
                f[t].ensureDecompiled()
            crash_known = bool(level) and _nonzero_record_of_empty_class(f)
            try:
                if level:
                    compact(f, level)
                f.cfg[REPACK] = mode
                new = {t: f[t].compile(f) for t in tags}
            except Exception as e:
                r.case((name, mode, level))
                r.fail("%s packer=%r level=%d: compaction/recompiling raised %s: %s" % (name, mode, level, type(e).__name__, str(e)[:120]),
                       )
                continue
            key = tuple(new[t] for t in tags)
            for _ in want:
                r.case((name, mode, level))
            if key in seen or key == tuple(orig[t] for t in tags):
                continue                      # byte-identical to something already compared
            seen[key] = 1
            got = _shape_all(_hbfont(new, nglyphs), texts, feats, langs, alt2)
            bad = [i for i in range(len(want)) if got[i] != want[i]]
            if bad:
                i = bad[0]
                r.fail("%s packer=%r compaction=%d: %d of %d shaping results differ from the original tables, e.g. result #%d: %s vs original %s"
                       % (name, mode, level, len(bad), len(want), i, got[i], want[i]))
        r.sample({"font": name, "tables": tags, "texts": len(want), "features": sorted(feats)})
    return r


def _fea_glyph_order():
    import re

    src = open(os.path.join(REPO, "Tests", "feaLib", "builder_test.py"), encoding="utf-8").read()
    m = re.search(r'def makeTTFont\(\):\s+glyphs = """(.*?)"""', src, re.S)
    return m.group(1).split()


@check("C06")
def feature_file_builds_shape_alike_under_every_packer_and_compaction(tier, rnd):
    """Every feature file of the feaLib corpus that builds: the freshly built (never serialised)
    GSUB/GPOS/GDEF compiled by the pure-python packer, by the HarfBuzz repacker (auto, required)
    and - for files with class kerning - built with COMPRESSION_LEVEL 1..9 shape every generated
    text identically (two independent serialisers agree; compaction does not change positions)."""
    from fontTools.ttLib import TTFont
    from fontTools.feaLib.builder import addOpenTypeFeatures

    _quiet()
    logging.getLogger("fontTools.feaLib").setLevel(logging.CRITICAL)
    r = Result("Tests/feaLib/data/*.fea built with feaLib x packer {python, hb auto, hb required} x COMPRESSION_LEVEL {0, sampled 1..9 (quick) / all "
               "(thorough)}; texts over the glyphs mentioned by the built tables, all features on; reference = pure-python compile of the level-0 "
               "build; distinct = (fea file, packer, level)")
    order = _fea_glyph_order()
    npairs, nseq = (250, 60) if tier == "quick" else (2500, 500)

    def build(path, level):
        f = TTFont()
        f.setGlyphOrder(list(order))
        if level:
            f.cfg[COMPACT] = level
        addOpenTypeFeatures(f, path)
        return f

    built = 0
    for path in sorted(glob.glob(os.path.join(REPO, "Tests", "feaLib", "data", "*.fea"))):
        name = os.path.basename(path)
        try:
            f0 = build(path, 0)
        except Exception:
            continue                               # not a valid feature file for this glyph set: no table to serialise
        tags = [t for t in ("GSUB", "GPOS", "GDEF") if t in f0]
        if not tags:
            continue
        built += 1
        involved, feats, langs = _layout_profile(f0)
        texts = _corpus_texts(rnd, involved, len(order), npairs, nseq)
        class_kerning = "GPOS" in f0 and any(st.__class__.__name__ == "PairPos" and st.Format == 2
                                             for lk in f0["GPOS"].table.LookupList.Lookup for st in lk.SubTable)
        configs = [(m, 0) for m in MODES]
        if class_kerning:
            configs += [(rnd.choice(MODES), lv) for lv in (rnd.sample(range(1, 10), 3) if tier == "quick" else range(1, 10))]
        want, seen = None, set()
        for mode, level in configs:
            try:
                f = build(path, level)
                f.cfg[REPACK] = mode
                new = {t: f[t].compile(f) for t in tags}
            except Exception as e:
                r.case((name, mode, level))
                r.fail("%s packer=%r level=%d: build/compile raised %s: %s" % (name, mode, level, type(e).__name__, str(e)[:120]))
                continue
            key = tuple(new[t] for t in tags)
            fresh = key not in seen
            seen.add(key)
            got = _shape_all(_hbfont(new, len(order)), texts, feats, langs, "GSUB" in tags) if fresh or want is None else want
            if want is None:
                want, ref = got, (mode, level)
            for _ in got:
                r.case((name, mode, level))
            bad = [i for i in range(len(want)) if got[i] != want[i]]
            if bad:
                i = bad[0]
                r.fail("%s: packer=%r level=%d shapes %d of %d texts differently from packer=%r level=%d, e.g. #%d: %s vs %s"
                       % (name, mode, level, len(bad), len(want), ref[0], ref[1], i, got[i], want[i]))
        r.sample({"fea": name, "tables": tags, "results": len(want or ()), "class_kerning": class_kerning})
    if built < 80:
        r.fail("only %d feature files of the corpus could be built" % built)
    return r


def _apply_lookups(kinds_specs, text, alt=1):
    for kind, spec in kinds_specs:
        text = _ref_gsub(kind, spec, list(text), alt)
    return text


def _apply_singles(specs, text):
    """Sequential application of many single-substitution lookups, glyph by glyph: the next lookup
    (in lookup order) that maps the current glyph fires, and the search continues after it."""
    import bisect

    where = getattr(_apply_singles, "_cache", None)
    if where is None or where[0] is not specs:
        idx = {}
        for k, s in enumerate(specs):
            for g in s:
                idx.setdefault(g, []).append(k)
        where = _apply_singles._cache = (specs, idx)
    idx = where[1]
    out = []
    for g in text:
        p = 0
        while True:
            ks = idx.get(g)
            if not ks:
                break
            j = bisect.bisect_left(ks, p)
            if j == len(ks):
                break
            g, p = specs[ks[j]][g], ks[j] + 1
        out.append(g)
    return out


def _multi_subtable_ref(kind, specs, text):
    """One lookup with several subtables: at each position the first subtable that applies wins."""
    out, i = [], 0
    while i < len(text):
        g = text[i]
        for spec in specs:
            if kind == "multiple" and g in spec:
                out.extend(spec[g])
                break
            if kind == "ligature" and g in spec:
                hit = next(((c, l) for c, l in spec[g] if tuple(text[i + 1:i + 1 + len(c)]) == c), None)
                if hit:
                    out.append(hit[1])
                    i += len(hit[0])
                    break
        else:
            out.append(g)
        i += 1
    return out


@check("C06")
def lookup_level_overflow_sharing_and_unpackable_tables(tier, rnd):
    """Tables whose LookupList->Lookup or Lookup->SubTable offsets exceed 16 bits (many lookups
    sharing one Coverage, some byte-identical, some already Extension; one lookup with many large
    subtables) must be written - by Extension promotion, with or without sharing - so that every
    single feature and all features together substitute exactly as the in-memory lookups specify.
    Tables that fontTools cannot split (SingleSubst with > 32767 irregular mappings, thousands of
    Extension lookups) must either raise or, if a packer finds a layout, shape exactly as specified: never a
    table with wrapped offsets."""
    from fontTools.otlLib import builder as B

    _quiet()
    r = Result("generated GSUB tables overflowing at LookupList / Lookup level, with shared and duplicated subtables, and unsplittable oversize "
               "tables x packer {python, hb auto, hb required}; expected glyphs from an interpreter of the spec, or an exception for the "
               "unsplittable class; distinct = (structure, packer, outcome, lookup types after compile)")
    rounds = 1 if tier == "quick" else 3
    for rd in range(rounds):
        # ---- (a) many lookups over one shared coverage
        order = _order(3000)
        idx = {g: i for i, g in enumerate(order)}
        nl = rnd.randint(42, 52)
        src = rnd.sample(order[1:1500], rnd.randint(1100, 1400))
        specs = []
        for k in range(nl):
            if k and rnd.random() < 0.2:
                specs.append(dict(rnd.choice(specs)))                   # byte-identical lookup: whole subtable shared
            else:
                specs.append({g: rnd.choice(order[1500:]) for g in src})
        ext_flags = [rnd.random() < 0.15 for _ in range(nl)]
        texts = [tuple(rnd.sample(src, 3)) + (rnd.choice(order[1:]),) for _ in range(60)]
        for mode in MODES:
            font = _font(order)
            gdef = _gdef(font)
            lks = [B.buildLookup([B.buildSingleSubstSubtable(dict(s))], table="GSUB", extension=e) for s, e in zip(specs, ext_flags)]
            _layout_table(font, "GSUB", lks, [("f%03d" % k, [k]) for k in range(nl)])
            try:
                data = _compile(font, "GSUB", mode)
            except Exception as e:
                r.case(("many-lookups", mode, "error"))
                r.fail("many-lookups (%d) packer=%r: compile raised %s: %s although Extension promotion resolves it" % (nl, mode, type(e).__name__, str(e)[:100]))
                continue
            types = (sum(ext_flags), sum(lk.LookupType == 7 for lk in lks))      # Extension lookups before / after compile
            hbf = _hbfont({"GSUB": data, "GDEF": gdef}, len(order))
            for t in texts:
                for feats, ks in [({"f%03d" % k: True}, [k]) for k in range(nl)] + [({"f%03d" % k: True for k in range(nl)}, range(nl))]:
                    r.case(("many-lookups", mode, "ok", types))
                    got = [order[x[0]] for x in _shape(hbf, [idx[g] for g in t], feats)]
                    want = _apply_lookups([("single", specs[k]) for k in ks], t)
                    if got != want:
                        r.fail("many-lookups packer=%r (%d bytes, Extension lookups before/after %s): %s with features %s -> %s, specified %s"
                               % (mode, len(data), types, list(t), sorted(feats)[:3], got, want))
            r.sample({"structure": "many-lookups", "lookups": nl, "packer": str(mode), "bytes": len(data), "extension_lookups_before_after": types})
        # ---- (b) one lookup with many large subtables (Lookup -> SubTable offsets overflow)
        order = _order(6000)
        idx = {g: i for i, g in enumerate(order)}
        for kind in ("multiple", "ligature"):
            nst = rnd.randint(9, 13)
            parts = [_gsub_case(rnd, kind, order, rnd.randint(7000, 11000)) for _ in range(nst)]
            sspecs = [p[0] for p in parts]
            texts = [t for p in parts for t in p[2][:60]] + [t for p in parts for t in p[2][-30:]]
            for mode in MODES:
                font = _font(order)
                gdef = _gdef(font)
                if kind == "multiple":
                    sts = [B.buildMultipleSubstSubtable({g: list(v) for g, v in s.items()}) for s in sspecs]
                else:
                    sts = [B.buildLigatureSubstSubtable({(f,) + c: l for f, ligs in s.items() for c, l in ligs}) for s in sspecs]
                lk = B.buildLookup(sts)
                _layout_table(font, "GSUB", [lk], [("test", [0])])
                try:
                    data = _compile(font, "GSUB", mode)
                except Exception as e:
                    r.case(("many-subtables-" + kind, mode, "error"))
                    r.fail("many-subtables %s packer=%r: compile raised %s: %s although Extension promotion resolves it" % (kind, mode, type(e).__name__, str(e)[:100]))
                    continue
                hbf = _hbfont({"GSUB": data, "GDEF": gdef}, len(order))
                for t in texts:
                    r.case(("many-subtables-" + kind, mode, "ok", _lookup_shape(lk)))
                    got = [order[x[0]] for x in _shape(hbf, [idx[g] for g in t], {"test": True})]
                    want = _multi_subtable_ref(kind, sspecs, list(t))
                    if got != want:
                        r.fail("many-subtables %s packer=%r (%d bytes, %s): %s -> %s, specified %s" % (kind, mode, len(data), _lookup_shape(lk), list(t), got, want))
                r.sample({"structure": "many-subtables-" + kind, "subtables": nst, "packer": str(mode), "bytes": len(data), "layout": str(_lookup_shape(lk))})
        # ---- (c) unsplittable: error or correct
        big = _order(36000)
        bidx = {g: i for i, g in enumerate(big)}
        n1 = rnd.randint(32800, 34000)
        src1 = rnd.sample(big[1:], n1)
        one = {g: rnd.choice(big[1:]) for g in src1}
        ntiny = rnd.randint(3800, 4400)
        tiny = [{big[1 + k]: big[2 + k + rnd.randint(0, 5)]} for k in range(ntiny)]
        for name in ("single-subst-33k", "4000-ext-lookups"):
            for mode in MODES:
                font = _font(big)
                if name == "single-subst-33k":
                    lks = [B.buildLookup([B.buildSingleSubstSubtable(dict(one))])]
                    applied = [("single", one)]
                    texts = [tuple(rnd.sample(src1, 4)) for _ in range(300)]
                else:
                    # already Extension lookups: nothing is left to promote when the LookupList offsets overflow
                    lks = [B.buildLookup([B.buildSingleSubstSubtable(dict(s))], table="GSUB", extension=True) for s in tiny]
                    applied = None
                    texts = [tuple(big[rnd.randint(1, ntiny + 3)] for _ in range(4)) for _ in range(150)]
                _layout_table(font, "GSUB", lks, [("test", list(range(len(lks))))])
                try:
                    data = _compile(font, "GSUB", mode)
                except Exception as e:
                    r.case((name, mode, "error:" + type(e).__name__))
                    continue                               # an error instead of a table: allowed by the property
                hbf = _hbfont({"GSUB": data}, len(big))
                for t in texts:
                    r.case((name, mode, "ok"))
                    got = [big[x[0]] for x in _shape(hbf, [bidx[g] for g in t], {"test": True})]
                    want = _apply_lookups(applied, t) if applied else _apply_singles(tiny, t)
                    if got != want:
                        r.fail("%s packer=%r: compile returned %d bytes without error but %s -> %s, specified %s" % (name, mode, len(data), list(t), got, want))
                r.sample({"structure": name, "packer": str(mode), "bytes": len(data)})
    return r
