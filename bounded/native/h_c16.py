"""C16: output is deterministic and saving does not disturb the font.

In-process checks compare first/second saves, dumps before/after saves and different lazy modes /
table access orders on the same object or on fresh objects; the cross-process check runs whole
pipelines in subprocesses with different PYTHONHASHSEED / TZ / LANG / cwd values and compares
sha256 digests."""
import glob
import hashlib
import io
import json
import logging
import os
import shutil
import struct
import subprocess
import sys
import tempfile

from harness import check, Result
from _common import REPO

TESTS = os.path.join(REPO, "Tests")
EPOCH_DIFF = 2082844800
_STAMP = 3600000000


class _quiet:
    def __enter__(self):
        logging.disable(logging.CRITICAL)

    def __exit__(self, *a):
        logging.disable(logging.NOTSET)


def _rel(p):
    return os.path.relpath(p, TESTS)


def _save(font, **kw):
    b = io.BytesIO()
    font.save(b, **kw)
    return b.getvalue()


def _dump(font, **kw):
    s = io.StringIO()
    font.saveXML(s, **kw)
    return s.getvalue()


def _first_diff_table(a, b):
    """name of the first table whose data differ between two sfnt byte strings (or 'directory')"""
    from fontTools.ttLib.sfnt import SFNTReader

    try:
        ra, rb = SFNTReader(io.BytesIO(a)), SFNTReader(io.BytesIO(b))
        for t in sorted(set(ra.keys()) | set(rb.keys())):
            if t not in ra or t not in rb:
                return "%s (present in one only)" % t
            da, db = ra[t], rb[t]
            if da != db:
                i = next((i for i, (x, y) in enumerate(zip(da, db)) if x != y), min(len(da), len(db)))
                return "%s (len %d vs %d, first difference at byte %d: %s vs %s)" % (t, len(da), len(db), i, da[i:i + 6].hex(), db[i:i + 6].hex())
    except Exception as e:
        return "unreadable (%s)" % e
    return "directory/padding"


def _diff_tables(a, b):
    from fontTools.ttLib.sfnt import SFNTReader

    ra, rb = SFNTReader(io.BytesIO(a)), SFNTReader(io.BytesIO(b))
    return [t for t in sorted(set(ra.keys()) | set(rb.keys())) if t not in ra or t not in rb or ra[t] != rb[t]]


def _xml_diff(a, b):
    la, lb = a.splitlines(), b.splitlines()
    for i, (x, y) in enumerate(zip(la, lb)):
        if x != y:
            return "line %d: %r vs %r" % (i + 1, x.strip()[:70], y.strip()[:70])
    return "length %d vs %d lines" % (len(la), len(lb))


def _corpus_fonts(exts=("ttf", "otf", "woff", "woff2")):
    out = []
    for ext in exts:
        out += glob.glob(os.path.join(TESTS, "**", "*." + ext), recursive=True)
    return sorted(out)


def _table_of_dump_line(dump, lineno):
    """top-level element (table) containing the given 1-based line of a TTX dump"""
    cur = None
    for i, line in enumerate(dump.splitlines(), 1):
        if line.startswith("  <") and not line.startswith("  </") and not line.startswith("   "):
            cur = line.strip().split()[0].strip("<>/")
        if i >= lineno:
            return cur
    return cur


# Values that the compiler documents as recalculated when a font is saved (TTX marks them "will be
# recalculated by the compiler"; head.flags bit 1 and the bitmap strike glyph ranges likewise): a
# font file with stale values legitimately gets them refreshed by the first save.  They are masked when a dump taken BEFORE the first save is compared with one taken
# after it; dumps taken after the first save are compared verbatim.
_DERIVED = {
    "head": {"checkSumAdjustment", "xMin", "yMin", "xMax", "yMax", "indexToLocFormat"},
    "hhea": {"advanceWidthMax", "minLeftSideBearing", "minRightSideBearing", "xMaxExtent", "numberOfHMetrics"},
    "vhea": {"advanceHeightMax", "minTopSideBearing", "minBottomSideBearing", "yMaxExtent", "numberOfVMetrics"},
    "maxp": {"numGlyphs", "maxPoints", "maxContours", "maxCompositePoints", "maxCompositeContours", "maxSizeOfInstructions",
             "maxComponentElements", "maxComponentDepth"},
    "OS_2": {"usFirstCharIndex", "usLastCharIndex"},
}


_SORTED_ON_COMPILE = ("cmap", "name")      # the compiler puts their records into the order the format prescribes


def _mask_derived(dump):
    """dump text with the recalculated values blanked (line based: TTX writes one element per line),
    XML comments (they carry counts/indices computed at compile time) removed, and the records of
    cmap/name put in a canonical order (compile sorts them as the format prescribes)"""
    import re

    dump = re.sub(r"<!--.*?-->", "", dump, flags=re.S)
    lines, blocks, table = [], None, None
    for line in dump.splitlines():
        if not line.strip():
            continue
        if line.startswith("  <") and not line.startswith("  </"):
            table = line.strip().split()[0].strip("<>/")
            if table in _SORTED_ON_COMPILE and not line.rstrip().endswith("/>"):
                lines.append(line)
                blocks = []
                continue
        if blocks is not None:
            if line.startswith("  </"):
                lines.extend(l for b in sorted(blocks) for l in b)
                blocks = None
            elif line.startswith("    <") and not line.startswith("    </"):
                blocks.append([line])
                continue
            elif blocks:
                blocks[-1].append(line)
                continue
        lines.append(line)
    out, table = [], None
    for line in lines:
        if line.startswith("  <") and not line.startswith("  </"):
            table = line.strip().split()[0].strip("<>/")
        st = line.strip()
        name = st[1:].split()[0].rstrip("/>") if st.startswith("<") and not st.startswith("</") else None
        if table in _DERIVED and name in _DERIVED[table]:
            line = re.sub(r'value="[^"]*"', 'value="*"', line)
        elif table == "glyf" and name == "TTGlyph":
            line = re.sub(r' (xMin|yMin|xMax|yMax)="[^"]*"', r' \1="*"', line)
        elif table == "head" and name == "flags":
            line = re.sub(r'(value="[01 ]*)[01]([01]")', r"\1*\2", line)     # bit 1 (lsb at x=0) is set by maxp.recalc
        elif table in ("EBLC", "CBLC", "bloc") and name in ("startGlyphIndex", "endGlyphIndex"):
            line = re.sub(r'value="[^"]*"', 'value="*"', line)
        elif table in ("EBLC", "CBLC", "bloc") and name and name.startswith("eblc_index_sub_table"):
            line = re.sub(r' (firstGlyphIndex|lastGlyphIndex)="[^"]*"', r' \1="*"', line)
        elif table in ("CFF", "CFF2") and name == "FontBBox":
            line = re.sub(r'value="[^"]*"', 'value="*"', line)
        elif table == "post" and name == "psName" and " psName=" not in line:
            continue      # <extraNames>: the list of non-standard names is rebuilt from the glyph order
        out.append(line)
    return "\n".join(out)


# ----------------------------------------------------------------------------- 1. save / dump idempotence

@check("C16")
def save_and_dump_do_not_disturb(tier, rnd):
    """For a loaded font F: dump, save, dump, save, dump - the two saves are identical bytes, the last
    two dumps identical text, the first dump equals them up to the values the compiler documents as
    recalculated (bounding boxes, maxp/hhea/vhea statistics, metric counts, loca format), and a dump
    taken twice in a row is identical (looking at the model does not change it);
    and the bytes do not depend on the lazy mode or on the order in which the tables were first
    touched (every table is touched, so that the result is compiled from the object model)."""
    from fontTools.ttLib import TTFont

    r = Result("corpus fonts outside aots below 15 kB + a seeded aots sample, 4 (lazy, order) pairs (quick) / all fonts x lazy in "
               "{None, True, False} x 2 seeded table access orders (thorough; 2 seeded pairs for each aots font) + TTX sources "
               "imported (quick: 70 seeded); distinct = (file, lazy, order#)")
    fonts = _corpus_fonts()
    aots = [p for p in fonts if os.sep + "aots" + os.sep in p]
    if tier == "quick":
        keep = set(rnd.sample(aots, 8))
        fonts = [p for p in fonts if (p not in aots or p in keep) and os.path.getsize(p) < 15000]
    for p in fonts:
        ref = None
        big = os.path.getsize(p) > 100000
        if p in aots and tier != "quick":
            combos = rnd.sample([(l, k) for l in (None, True, False) for k in (0, 1)], 2)    # 200 near-identical test fonts
        elif tier == "quick" or big:
            combos = ((None, 0), (None, 1), (True, 0), (False, 1))
        else:
            combos = [(l, k) for l in (None, True, False) for k in (0, 1)]
        for lazy, k in combos:
            r.case((_rel(p), lazy, k))
            label = "%s lazy=%s order#%d" % (_rel(p), lazy, k)
            silf = None
            try:
                with _quiet():
                    F = TTFont(p, lazy=lazy, recalcTimestamp=False)
                    silf = "Silf" in F
                    tags = [t for t in F.keys() if t != "GlyphOrder"]
                    rnd.shuffle(tags)
                    for t in tags:
                        F[t]
                    d0 = _dump(F)
                    d00 = _dump(F)
                if d0 != d00:
                    where = _xml_diff(d0, d00)
                    tab = _table_of_dump_line(d0, int(where.split()[1].rstrip(":"))) if where.startswith("line") else None
                    r.fail("%s: dumping twice gives different text in table %s (%s)" % (label, tab, where),
                           known_id="C16-silf-linear-classes-generator" if tab == "Silf" else None)
                with _quiet():
                    s1 = _save(F)
                    d1 = _dump(F)
                    s2 = _save(F)
                    d2 = _dump(F)
                    F.close()
            except Exception as e:
                import traceback
                kid = "C16-silf-linear-classes-generator" if silf and isinstance(e, TypeError) and "S__i_l_f" in traceback.format_exc() else None
                r.fail("%s: dump/save/dump/save raised %s: %s" % (label, type(e).__name__, str(e)[:160]), known_id=kid)
                continue
            if d1 != d2:
                r.fail("%s: the dump after the second save differs from the dump after the first (%s)" % (label, _xml_diff(d1, d2)))
            m0, m1 = _mask_derived(d00), _mask_derived(d1)
            if m0 != m1:
                r.fail("%s: the first save changed the object model beyond recalculated values (%s)" % (label, _xml_diff(m0, m1)))
            if s1 != s2:
                r.fail("%s: the second save differs from the first in table %s" % (label, _first_diff_table(s1, s2)))
            if ref is None:
                ref = (s1, lazy, k)
            elif s1 != ref[0]:
                r.fail("%s: saved bytes differ from those for lazy=%s order#%d in table %s" % (label, ref[1], ref[2], _first_diff_table(ref[0], s1)))
    # object models that come from TTX import (never were binary)
    ttx = sorted(glob.glob(os.path.join(TESTS, "**", "*.ttx"), recursive=True))
    ttx = [p for p in ttx if os.path.getsize(p) < 300000]
    used = 0
    for p in ttx if tier != "quick" else rnd.sample(ttx, 70):
        try:
            with _quiet():
                F = TTFont(recalcTimestamp=False)
                F.importXML(p)
                d0 = _dump(F)
                s1 = _save(F)
        except Exception:
            continue          # not a complete font
        used += 1
        r.case((_rel(p), "imported"))
        label = "%s (imported from TTX)" % _rel(p)
        try:
            with _quiet():
                d1 = _dump(F)
                s2 = _save(F)
                d2 = _dump(F)
        except Exception as e:
            r.fail("%s: second dump/save raised %s: %s" % (label, type(e).__name__, str(e)[:160]))
            continue
        if s1 != s2:
            d = _diff_tables(s1, s2)
            r.fail("%s: the second save differs from the first in table %s" % (label, _first_diff_table(s1, s2)),
                   known_id="C16-cff2-from-xml-second-compile-adds-charset" if d and set(d) <= {"CFF2", "head"} else None)
        if d1 != d2:
            r.fail("%s: the dump after the second save differs from the dump after the first (%s)" % (label, _xml_diff(d1, d2)))
        if _mask_derived(d0) != _mask_derived(d1):
            r.fail("%s: the first save changed the object model beyond recalculated values (%s)" % (label, _xml_diff(_mask_derived(d0), _mask_derived(d1))))
    r.sample({"fonts": len(fonts), "ttx_sources": used})
    return r


# ----------------------------------------------------------------------------- 2. counts recomputed at save time

def _square(i=0, n=4):
    from fontTools.ttLib.tables._g_l_y_f import Glyph, GlyphCoordinates
    from fontTools.ttLib.tables import ttProgram

    g = Glyph()
    g.numberOfContours = 1
    g.coordinates = GlyphCoordinates([((j * 37 + i) % 500, (j * 91 + 3 * i) % 700) for j in range(n)])
    g.flags = bytearray([1] * n)
    g.endPtsOfContours = [n - 1]
    g.program = ttProgram.Program()
    g.program.fromBytecode(b"")
    return g


def _build_font(nglyphs, hadv, vadv, points=4):
    """TrueType font with hmtx/hhea and vmtx/vhea; hadv/vadv: per-glyph advances (lists of nglyphs ints)."""
    from fontTools.fontBuilder import FontBuilder

    order = [".notdef"] + ["g%03d" % i for i in range(1, nglyphs)]
    fb = FontBuilder(1000, isTTF=True)
    fb.setupGlyphOrder(order)
    fb.setupCharacterMap({0x41 + i: n for i, n in enumerate(order[1:])})
    fb.setupGlyf({n: _square(i, points) for i, n in enumerate(order)})
    fb.setupHorizontalMetrics({n: (hadv[i], i % 7) for i, n in enumerate(order)})
    fb.setupHorizontalHeader(ascent=800, descent=-200)
    fb.setupVerticalMetrics({n: (vadv[i], 10 + i % 5) for i, n in enumerate(order)})
    fb.setupVerticalHeader(ascent=500, descent=-500)
    fb.setupNameTable({"familyName": "C16 Test", "styleName": "Regular"})
    fb.setupOS2()
    fb.setupPost()
    font = fb.font
    font["head"].created = font["head"].modified = _STAMP
    font.recalcTimestamp = False
    return font


def _optimal_count(advances):
    n = len(advances)
    while n > 1 and advances[n - 2] == advances[n - 1]:
        n -= 1
    return n


def _check_saved_metrics(r, label, data, order, hadv, vadv, known_id=None):
    """The saved bytes are self-consistent and carry the model's metrics: own parse of the count
    fields and table lengths + HarfBuzz's advances for every glyph."""
    from fontTools.ttLib.sfnt import SFNTReader
    import uharfbuzz as hb

    rd = SFNTReader(io.BytesIO(data))
    N = struct.unpack(">H", rd["maxp"][4:6])[0]
    if N != len(order):
        r.fail("%s: maxp.numGlyphs in the saved font is %d, the font has %d glyphs" % (label, N, len(order)), known_id=known_id)
        return
    for hdr, mtx, adv in (("hhea", "hmtx", hadv), ("vhea", "vmtx", vadv)):
        if hdr not in rd:
            continue
        n = struct.unpack(">H", rd[hdr][34:36])[0]
        if len(rd[mtx]) != 4 * n + 2 * (N - n):
            r.fail("%s: saved %s has %d bytes but %s says %d long metrics for %d glyphs" % (label, mtx, len(rd[mtx]), hdr, n, N), known_id=known_id)
            return
        if n != _optimal_count(adv):
            r.fail("%s: saved %s count is %d, the advances %s... call for %d" % (label, hdr, n, adv[-4:], _optimal_count(adv)), known_id=known_id)
    face = hb.Face(data)
    font = hb.Font(face)
    for gid in range(N):
        if font.get_glyph_h_advance(gid) != hadv[gid]:
            r.fail("%s: HarfBuzz reads horizontal advance %d for glyph %d of the saved font, the model says %d"
                   % (label, font.get_glyph_h_advance(gid), gid, hadv[gid]), known_id=known_id)
            return
        if "vmtx" in rd and -font.get_glyph_v_advance(gid) != vadv[gid]:
            r.fail("%s: HarfBuzz reads vertical advance %d for glyph %d of the saved font, the model says %d"
                   % (label, -font.get_glyph_v_advance(gid), gid, vadv[gid]), known_id=known_id)
            return


def _advance_patterns(rnd, n):
    """advance lists whose optimal long-metric count is 1, small, n-1, n"""
    pats = {
        "all-equal": [600] * n,
        "all-distinct": [500 + i for i in range(n)],
        "tail-equal": [500 + i for i in range(n // 2)] + [777] * (n - n // 2),
        "last-differs": [600] * (n - 1) + [601],
        "last-two-equal": [500 + i for i in range(n - 2)] + [900, 900],
        "first-differs": [1] + [600] * (n - 1),
        "random": [rnd.choice((500, 600)) for _ in range(n)],
    }
    return pats


@check("C16")
def metric_counts_recomputed_at_save(tier, rnd):
    """hhea/hmtx, vhea/vmtx, maxp, head/loca: when the value stored in the header differs from what
    the data call for at save time (metrics edited after loading, stale count, TTX import with a
    non-optimal count, subsetting), the FIRST save already equals the second, is self-consistent
    (own parse of counts and lengths) and carries the model's advances (HarfBuzz reads them back) -
    whatever the lazy mode and whichever of header / metrics table was touched first or not at all."""
    from fontTools.ttLib import TTFont
    from fontTools import subset

    r = Result("advance patterns {all equal, all distinct, equal tail, last differs, ...} before x after the edit x stale "
               "header count x {h, v} x lazy mode x touch order; TTX import with forged counts; subsetting; loca format "
               "switch; distinct = (scenario, pattern before, pattern after, lazy, touch order)")
    N = 12
    pats = _advance_patterns(rnd, N)
    names = sorted(pats)
    combos = [(a, b) for a in names for b in names]
    if tier == "quick":
        combos = rnd.sample(combos, 16)
    touch_orders = (("hdr", "mtx"), ("mtx", "hdr"), ("mtx",), ())
    for a, b in combos:
        with _quiet():
            base = _save(_build_font(N, pats[a], list(reversed(pats[a]))))
        order = [".notdef"] + ["g%03d" % i for i in range(1, N)]
        ref = None
        for lazy in (None, True, False):
            for touch in touch_orders if tier != "quick" else rnd.sample(touch_orders, 2):
                label = "advances %s -> %s, lazy=%s, touched %s" % (a, b, lazy, "+".join(touch) or "nothing")
                r.case(("edit", a, b, lazy, touch))
                try:
                    with _quiet():
                        F = TTFont(io.BytesIO(base), lazy=lazy, recalcTimestamp=False)
                        for t in touch:
                            F["hhea" if t == "hdr" else "hmtx"]
                            F["vhea" if t == "hdr" else "vmtx"]
                        hadv, vadv = pats[b], list(reversed(pats[b]))
                        for i, n in enumerate(order):
                            F["hmtx"].metrics[n] = (hadv[i], F["hmtx"].metrics[n][1])
                            F["vmtx"].metrics[n] = (vadv[i], F["vmtx"].metrics[n][1])
                        s1 = _save(F)
                        s2 = _save(F)
                except Exception as e:
                    r.fail("%s: %s: %s" % (label, type(e).__name__, str(e)[:160]))
                    continue
                if s1 != s2:
                    r.fail("%s: first and second save differ in table %s" % (label, _first_diff_table(s1, s2)))
                _check_saved_metrics(r, label, s1, order, hadv, vadv)
                if ref is None:
                    ref = s1
                elif s1 != ref:
                    r.fail("%s: bytes differ from the first variant of the same edit in table %s" % (label, _first_diff_table(ref, s1)))
    # TTX import with forged (non-optimal, too small, too large) counts
    import re
    for a in names if tier != "quick" else rnd.sample(names, 4):
        with _quiet():
            xml = _dump(_build_font(N, pats[a], list(reversed(pats[a]))))
        for forged in (1, 2, N - 1, N, N + 5, 0):
            r.case(("ttx-import", a, forged))
            label = "TTX import, advances %s, numberOfHMetrics/numberOfVMetrics/numGlyphs forged to %d" % (a, forged)
            x = re.sub(r'<numberOf(H|V)Metrics value="\d+"/>', lambda m: '<numberOf%sMetrics value="%d"/>' % (m.group(1), forged), xml)
            x = re.sub(r'<numGlyphs value="\d+"/>', '<numGlyphs value="%d"/>' % forged, x)
            try:
                with _quiet():
                    F = TTFont(recalcTimestamp=False)
                    F.importXML(io.StringIO(x))
                    s1 = _save(F)
                    s2 = _save(F)
            except Exception as e:
                r.fail("%s: %s: %s" % (label, type(e).__name__, str(e)[:160]))
                continue
            if s1 != s2:
                r.fail("%s: first and second save differ in table %s" % (label, _first_diff_table(s1, s2)))
            _check_saved_metrics(r, label, s1, [".notdef"] + ["g%03d" % i for i in range(1, N)], pats[a], list(reversed(pats[a])))
    # subsetting: glyphs dropped from the middle / the end change the optimal counts
    for a in names if tier != "quick" else rnd.sample(names, 3):
        with _quiet():
            base = _save(_build_font(N, pats[a], list(reversed(pats[a]))))
        for keep in ([1, 2, 3], [N - 1], [1, N - 2, N - 1], list(range(1, N, 2))):
            for retain in (False, True):
                r.case(("subset", a, tuple(keep), retain))
                label = "subset of advances %s keeping glyph ids %s%s" % (a, keep, ", retain-gids" if retain else "")
                try:
                    with _quiet():
                        F = TTFont(io.BytesIO(base), recalcTimestamp=False)
                        opts = subset.Options(retain_gids=retain, notdef_outline=True, glyph_names=True)
                        sub = subset.Subsetter(opts)
                        sub.populate(gids=keep)
                        sub.subset(F)
                        order = F.getGlyphOrder()
                        hadv = [F["hmtx"].metrics[n][0] for n in order]
                        vadv = [F["vmtx"].metrics[n][0] for n in order]
                        s1 = _save(F)
                        s2 = _save(F)
                except Exception as e:
                    r.fail("%s: %s: %s" % (label, type(e).__name__, str(e)[:160]))
                    continue
                if s1 != s2:
                    r.fail("%s: first and second save differ in table %s" % (label, _first_diff_table(s1, s2)))
                _check_saved_metrics(r, label, s1, order, hadv, vadv)
    # head.indexToLocFormat / loca: glyf data crossing the short-offset limit in both directions
    for big_first in (True, False):
        r.case(("loca-format", big_first))
        label = "glyf %s 128 kB after an edit" % ("shrinks below" if big_first else "grows beyond")
        try:
            with _quiet():
                n1, n2 = (500, 4) if big_first else (4, 500)
                base = _save(_build_font(140, [600] * 140, [700] * 140, points=n1))
                F = TTFont(io.BytesIO(base), recalcTimestamp=False, lazy=True)
                fmt0 = F["head"].indexToLocFormat
                for i, n in enumerate(F.getGlyphOrder()):
                    F["glyf"][n] = _square(i, n2)
                    F["glyf"][n].recalcBounds(F["glyf"])
                s1 = _save(F)
                s2 = _save(F)
                G = TTFont(io.BytesIO(s1))
                want = 1 if n2 == 500 else 0
                if fmt0 == want:
                    r.fail("%s: generator did not cross the limit" % label)
                if struct.unpack(">h", G.reader["head"][50:52])[0] != want or len(G.reader["loca"]) != (141 * (4 if want else 2)):
                    r.fail("%s: saved head.indexToLocFormat/loca length do not match the glyf size" % label)
                if [list(G["glyf"][n].coordinates) for n in G.getGlyphOrder()] != [list(F["glyf"][n].coordinates) for n in F.getGlyphOrder()]:
                    r.fail("%s: glyph outlines read back from the saved font differ from the model" % label)
        except Exception as e:
            r.fail("%s: %s: %s" % (label, type(e).__name__, str(e)[:160]))
            continue
        if s1 != s2:
            r.fail("%s: first and second save differ in table %s" % (label, _first_diff_table(s1, s2)))
    r.sample({"glyphs": N, "patterns": names})
    return r


# ----------------------------------------------------------------------------- 3. cross-process determinism

_WORKER = r'''
import hashlib, io, json, logging, os, sys, tempfile, shutil
logging.disable(logging.CRITICAL)
TESTS, tier = sys.argv[1], sys.argv[2]
import fontTools
assert os.path.realpath(fontTools.__file__).startswith(os.path.realpath(sys.argv[3])), fontTools.__file__
from fontTools.ttLib import TTFont
out = {}
def sha(b): return hashlib.sha256(b).hexdigest()
def save(f, **kw):
    b = io.BytesIO(); f.save(b, **kw); return b.getvalue()
def T(*p): return os.path.join(TESTS, *p)
def imp(path, **kw):
    f = TTFont(**kw); f.importXML(path); return f
def run(name, fn):
    try:
        out[name] = fn()
    except Exception as e:
        out[name] = "EXC %s: %s" % (type(e).__name__, str(e)[:200])
tmp = tempfile.mkdtemp()

# recompile from the object model, timestamps recalculated (pinned by SOURCE_DATE_EPOCH)
def recompile(path):
    f = TTFont(path); f.ensureDecompiled(); return sha(save(f))
for rel in ["ttx/data/TestTTF.ttf", "ttx/data/TestOTF.otf", "ttLib/data/I.otf", "ttLib/tables/data/NotoSans-VF-cubic.subset.ttf",
            "ttLib/tables/data/aots/gsub_chaining3_boundary_f2.otf", "ttLib/tables/data/aots/gpos_context2_classes_f1.otf"]:
    run("recompile:" + rel, lambda rel=rel: recompile(T(rel)))
# TTX import
ttx_sources = ["ttx/data/TestTTF.ttx", "ttx/data/TestOTF.ttx", "fontBuilder/data/test_var.ttf.ttx", "fontBuilder/data/test_var.otf.ttx",
               "subset/data/TestCLR-Regular.ttx", "ttLib/tables/data/COLRv1-clip-boxes-glyf.ttx", "varLib/data/master_ttx_interpolatable_ttf/TestFamily-Master1.ttx",
               "subset/data/Andika-Regular.subset.ttx", "varLib/instancer/data/STATInstancerTest.ttx"]
for rel in ttx_sources if tier == "thorough" else ttx_sources[:6]:
    run("ttx-import:" + rel, lambda rel=rel: sha(save(imp(T(rel)))))
# feature compilation
from fontTools.feaLib.builder import addOpenTypeFeatures
GLYPHS = sys.argv[4].split()
feas = sorted(f for f in os.listdir(T("feaLib", "data")) if f.endswith(".fea"))
if tier != "thorough":
    feas = [f for f in feas if f.startswith(("spec", "GPOS", "GSUB", "bug5", "Contextual", "Chain", "language", "lookup", "STAT", "name", "variable", "aalt", "size", "mark", "Attach", "Lig", "omitted"))]
def feature_build(fea):
    f = TTFont(); f.setGlyphOrder(list(GLYPHS)); addOpenTypeFeatures(f, T("feaLib", "data", fea))
    h = hashlib.sha256()
    for tag in sorted(f.keys()):
        if tag != "GlyphOrder":
            h.update(tag.encode()); h.update(f.getTableData(tag))
    return h.hexdigest()
for fea in feas:
    run("fea:" + fea, lambda fea=fea: feature_build(fea))
# generated feature text: places where a builder collects glyphs from several rules before numbering
# them (aalt over contextual rules giving one glyph several alternates, aalt over single + alternate
# lookups, glyph classes written in non-alphabetical order, many mark classes)
from fontTools.feaLib.builder import addOpenTypeFeaturesFromString
def feature_text_build(text):
    f = TTFont(); f.setGlyphOrder(list(GLYPHS)); addOpenTypeFeaturesFromString(f, text)
    h = hashlib.sha256()
    for tag in sorted(f.keys()):
        if tag != "GlyphOrder":
            h.update(tag.encode()); h.update(f.getTableData(tag))
    return h.hexdigest()
_alts = ["a.alt1", "a.alt2", "a.alt3", "a.end", "A.swash", "B.swash", "C.swash", "D.swash"]
_t = "".join("lookup ALT%d { sub a by %s; } ALT%d;\n" % (i, g, i) for i, g in enumerate(_alts))
_t += "feature calt {\n" + "".join("    sub %s a' lookup ALT%d;\n" % (" ".join(["b"] * (i + 1)), i) for i in range(len(_alts))) + "} calt;\n"
_t += "feature aalt { feature calt; } aalt;\n"
run("fea-gen:aalt-over-chain-context", lambda: feature_text_build(_t))
_t2 = "feature salt { sub a from [a.alt3 a.alt1 a.end a.alt2]; sub d by d.alt; sub e from [e.end e.begin e.mid]; } salt;\n"
_t2 += "feature ss01 { sub a by A.swash; sub e by E.swash; sub d by D.swash; } ss01;\n"
_t2 += "feature aalt { feature ss01; feature salt; sub a by a.alt2; } aalt;\n"
run("fea-gen:aalt-over-single-and-alternate", lambda: feature_text_build(_t2))
_t3 = "@z = [z.end s.end n.end m.begin e.begin d.mid c.mid b.alt a.end];\nfeature kern { pos @z [T_h f_f c_t c_h] -30; pos [s_t f_i c_k] @z 12; } kern;\n"
_t3 += "".join("markClass %s <anchor %d 10> @MC%d;\n" % (g, i, i % 5) for i, g in enumerate(["grave", "acute", "dieresis", "macron", "circumflex", "cedilla", "ogonek", "caron", "breve"]))
_t3 += "feature mark { pos base [a e o u i] <anchor 1 1> mark @MC0 <anchor 2 2> mark @MC3 <anchor 3 3> mark @MC1 <anchor 4 4> mark @MC4 <anchor 5 5> mark @MC2; } mark;\n"
run("fea-gen:classes-and-mark-classes", lambda: feature_text_build(_t3))
# subsetting
from fontTools import subset
def do_subset(rel, unicodes=None, glyphs=None, **opts):
    f = imp(T(rel))
    f = TTFont(io.BytesIO(save(f)))
    o = subset.Options(**opts)
    s = subset.Subsetter(o)
    s.populate(unicodes=unicodes or [], glyphs=glyphs or [])
    s.subset(f)
    return sha(save(f))
def colr_v0_bytes():
    from fontTools.fontBuilder import FontBuilder
    from fontTools.pens.ttGlyphPen import TTGlyphPen
    bases = ["A", "B", "C", "D", "E", "F", "G", "H"]
    layers = ["layer%d" % i for i in range(10)]
    order = [".notdef"] + bases + layers
    fb = FontBuilder(1000, isTTF=True); fb.setupGlyphOrder(order)
    fb.setupCharacterMap({0x41 + i: b for i, b in enumerate(bases)})
    def g(i):
        pen = TTGlyphPen(None); pen.moveTo((i, 0)); pen.lineTo((i, 100 + i)); pen.lineTo((100, 100)); pen.closePath(); return pen.glyph()
    fb.setupGlyf({n: g(i) for i, n in enumerate(order)})
    fb.setupHorizontalMetrics({n: (600, 0) for n in order}); fb.setupHorizontalHeader(ascent=800, descent=-200)
    fb.setupNameTable({"familyName": "COLR v0", "styleName": "Regular"}); fb.setupOS2(); fb.setupPost()
    fb.setupCOLR({b: [(layers[(i * 3 + k) % 10], (i + k) % 4) for k in range(2 + i % 3)] for i, b in enumerate(bases)}, version=0)
    fb.setupCPAL([[(1, 0, 0, 1), (0, 1, 0, 1), (0, 0, 1, 1), (0, 0, 0, 0.5)]])
    f = fb.font; f["head"].created = f["head"].modified = 3600000000
    return save(f)
def subset_colr_v0(unicodes):
    f = TTFont(io.BytesIO(colr_v0_bytes()))
    s = subset.Subsetter(subset.Options()); s.populate(unicodes=unicodes); s.subset(f)
    assert len(f["COLR"].ColorLayers) >= 2, f["COLR"].ColorLayers
    return sha(save(f))
run("subset:COLRv0-keep-4-colour-glyphs", lambda: subset_colr_v0([0x41, 0x43, 0x45, 0x48]))
run("subset:COLRv0-keep-2-colour-glyphs", lambda: subset_colr_v0([0x47, 0x42]))
run("subset:COLRv0-keep-all", lambda: subset_colr_v0(list(range(0x41, 0x49))))
run("subset:COLRv0-corpus", lambda: do_subset("subset/data/BungeeColor-Regular.ttx", unicodes=[0xC0, 0xE0]))
run("subset:COLRv1", lambda: do_subset("ttLib/tables/data/COLRv1-clip-boxes-glyf.ttx", unicodes=list(range(0xE000, 0xE010))))
run("subset:ttf-layout", lambda: do_subset("subset/data/Andika-Regular.subset.ttx", unicodes=list(range(0x20, 0x300)), layout_features=["*"], name_IDs=["*"], notdef_outline=True))
run("subset:cff", lambda: do_subset("subset/data/TestOTF-Regular.ttx", unicodes=[0x41, 0x42, 0x61], desubroutinize=False))
run("subset:cff-desub", lambda: do_subset("subset/data/test_hinted_subrs_CFF.ttx", unicodes=list(range(0x20, 0x80)), desubroutinize=True))
run("subset:gvar", lambda: do_subset("subset/data/TestGVAR.ttx", unicodes=list(range(0x20, 0x80))))
run("subset:cjk", lambda: do_subset("subset/data/NotoSansCJKjp-Regular.subset.ttx", unicodes=list(range(0x3000, 0x9FFF, 7)), layout_features=["*"]))
run("subset:math", lambda: do_subset("subset/data/TestMATH-Regular.ttx", unicodes=list(range(0x20, 0x2300))))
# instancing
from fontTools.varLib import instancer
def inst(rel, loc, **kw):
    f = TTFont(io.BytesIO(save(imp(T(rel)))))
    g = instancer.instantiateVariableFont(f, loc, **kw)
    return sha(save(g))
run("instancer:partial", lambda: inst("varLib/instancer/data/PartialInstancerTest2-VF.ttx", {"wght": 650}))
run("instancer:limits", lambda: inst("varLib/instancer/data/PartialInstancerTest2-VF.ttx", {"wght": (300, 700), "wdth": 80}))
run("instancer:full", lambda: inst("varLib/instancer/data/PartialInstancerTest-VF.ttx", {"wght": 400, "wdth": 100}, updateFontNames=False))
run("instancer:cff2", lambda: inst("varLib/instancer/data/CFF2Instancer-VF-1.ttx", {"wght": 600}))
run("instancer:stat-names", lambda: inst("varLib/instancer/data/PartialInstancerTest2-VF.ttx", {"wght": 900}, updateFontNames=True))
# variable font build
from fontTools import varLib
def vf_build(ds, prefix, ttx_dir="master_ttx_interpolatable_ttf", ext=".ttf"):
    d = os.path.join(tmp, "masters-" + ds)
    os.makedirs(d, exist_ok=True)
    for fn in sorted(os.listdir(T("varLib", "data", ttx_dir))):
        if fn.startswith(prefix) and fn.endswith(".ttx"):
            f = TTFont(recalcBBoxes=False, recalcTimestamp=False); f.importXML(T("varLib", "data", ttx_dir, fn))
            f.save(os.path.join(d, fn.replace(".ttx", ext)))
    vf, _, _ = varLib.build(T("varLib", "data", ds + ".designspace"),
                            lambda s: os.path.join(d, os.path.splitext(os.path.basename(s))[0] + ext))
    return sha(save(vf))
run("varLib.build:Build", lambda: vf_build("Build", "TestFamily-"))
run("varLib.build:FeatureVars", lambda: vf_build("FeatureVars", "TestFamily-"))
if tier == "thorough":
    run("varLib.build:InterpolateLayout", lambda: vf_build("InterpolateLayout", "TestFamily2-"))
    run("varLib.build:SparseMasters", lambda: vf_build("SparseMasters", "SparseMasters-"))
    run("varLib.build:TestCFF2", lambda: vf_build("TestCFF2", "TestCFF2_", "master_cff2", ".otf"))
# merging
from fontTools import merge
def do_merge(rels):
    paths = []
    for i, rel in enumerate(rels):
        p = os.path.join(tmp, "m%d%s" % (i, ".otf" if "CFF" in rel or "OTF" in rel else ".ttf"))
        f = TTFont(recalcTimestamp=False); f.importXML(T(rel)); f.save(p); paths.append(p)
    m = merge.Merger().merge(paths)
    return sha(save(m))
run("merge:cff", lambda: do_merge(["merge/data/CFFFont1.ttx", "merge/data/CFFFont2.ttx"]))
run("merge:ttf", lambda: do_merge(["subset/data/TestTTF-Regular.ttx", "ttx/data/TestTTF.ttx"]))
# TTX text itself
def dump(path):
    s = io.StringIO(); TTFont(path).saveXML(s); return sha(s.getvalue().encode("utf-8"))
run("dump:TestTTF", lambda: dump(T("ttx/data/TestTTF.ttf")))
run("dump:Lobster", lambda: dump(T("subset/data/Lobster.subset.otf")))
shutil.rmtree(tmp, ignore_errors=True)
print("WORKER " + json.dumps(out, sort_keys=True))
'''

_FEA_GLYPHS = """
    .notdef space slash fraction semicolon period comma ampersand
    quotedblleft quotedblright quoteleft quoteright
    zero one two three four five six seven eight nine
    zero.oldstyle one.oldstyle two.oldstyle three.oldstyle
    four.oldstyle five.oldstyle six.oldstyle seven.oldstyle
    eight.oldstyle nine.oldstyle onequarter onehalf threequarters
    onesuperior twosuperior threesuperior ordfeminine ordmasculine
    A B C D E F G H I J K L M N O P Q R S T U V W X Y Z
    a b c d e f g h i j k l m n o p q r s t u v w x y z
    A.sc B.sc C.sc D.sc E.sc F.sc G.sc H.sc I.sc J.sc K.sc L.sc M.sc
    N.sc O.sc P.sc Q.sc R.sc S.sc T.sc U.sc V.sc W.sc X.sc Y.sc Z.sc
    A.alt1 A.alt2 A.alt3 B.alt1 B.alt2 B.alt3 C.alt1 C.alt2 C.alt3
    a.alt1 a.alt2 a.alt3 a.end b.alt c.mid d.alt d.mid
    e.begin e.mid e.end m.begin n.end s.end z.end
    Eng Eng.alt1 Eng.alt2 Eng.alt3
    A.swash B.swash C.swash D.swash E.swash F.swash G.swash H.swash
    I.swash J.swash K.swash L.swash M.swash N.swash O.swash P.swash
    Q.swash R.swash S.swash T.swash U.swash V.swash W.swash X.swash
    Y.swash Z.swash
    f_l c_h c_k c_s c_t f_f f_f_i f_f_l f_i o_f_f_i s_t f_i.begin
    a_n_d T_h T_h.swash germandbls ydieresis yacute breve
    grave acute dieresis macron circumflex cedilla umlaut ogonek caron
    damma hamza sukun kasratan lam_meem_jeem noon.final noon.initial
    by feature lookup sub table uni0327 uni0328 e.fina
    idotbelow idotless iogonek acutecomb brevecomb ogonekcomb dotbelowcomb
""".split() + ["cid%05d" % c for c in range(800, 1002)]


def _run_worker(script, tier, env_extra, cwd):
    env = {k: v for k, v in os.environ.items() if k not in ("PYTHONHASHSEED", "SOURCE_DATE_EPOCH", "TZ", "LANG", "LC_ALL")}
    env["PYTHONPATH"] = os.path.join(REPO, "Lib")
    env.update(env_extra)
    p = subprocess.run([sys.executable, script, TESTS, tier, os.path.join(REPO, "Lib"), " ".join(_FEA_GLYPHS)],
                       env=env, cwd=cwd, stdout=subprocess.PIPE, stderr=subprocess.PIPE, timeout=1500)
    for line in p.stdout.decode("utf-8", "replace").splitlines():
        if line.startswith("WORKER "):
            return json.loads(line[7:]), None
    return None, (p.stderr.decode("utf-8", "replace")[-400:] or "no output")


@check("C16")
def pipelines_across_processes(tier, rnd):
    """Whole pipelines - recompilation, TTX import, feature compilation (feaLib over the corpus .fea
    files), subsetting (COLR v0 keeping several colour glyphs, COLR v1, layout, CFF with and without
    desubroutinisation, gvar, CJK, MATH), instancing, variable-font builds, merging, TTX dumping -
    give the same sha256 in separate processes that differ in PYTHONHASHSEED, TZ, LANG/LC_ALL and
    working directory (timestamps pinned by SOURCE_DATE_EPOCH, recalcTimestamp left at its default),
    and none of them raises."""
    r = Result("~35 (quick) / ~190 (thorough) pipeline x input pairs x 3 (quick) / 6 (thorough) environments "
               "(PYTHONHASHSEED 0, 1, seeded random values; TZ; locale; cwd); distinct = (pipeline, environment)")
    tmp = tempfile.mkdtemp()
    try:
        script = os.path.join(tmp, "worker.py")
        with open(script, "w") as f:
            f.write(_WORKER)
        envs = [{"PYTHONHASHSEED": "0", "TZ": "UTC", "LANG": "C"},
                {"PYTHONHASHSEED": "1", "TZ": "Pacific/Kiritimati", "LANG": "C.UTF-8", "LC_ALL": "C.UTF-8"},
                {"PYTHONHASHSEED": str(rnd.randrange(2, 2 ** 32 - 1)), "TZ": "America/Los_Angeles", "LANG": "tr_TR.UTF-8"}]
        if tier == "thorough":
            envs += [{"PYTHONHASHSEED": str(rnd.randrange(2, 2 ** 32 - 1)), "TZ": "Asia/Kolkata", "LANG": "C"} for _ in range(3)]
        results = []
        for i, e in enumerate(envs):
            e = dict(e, SOURCE_DATE_EPOCH="1600000000")
            cwd = os.path.join(tmp, "cwd%d" % i)
            os.makedirs(cwd)
            out, err = _run_worker(script, tier, e, cwd)
            if out is None:
                r.fail("worker process with %r produced no result: %s" % (e, err))
                continue
            results.append((e, out))
        if results:
            e0, ref = results[0]
            for name in sorted(ref):
                for e, out in results:
                    r.case((name, e["PYTHONHASHSEED"]))
                if ref[name].startswith("EXC") and not ref[name].startswith("EXC FeatureLibError"):
                    # (a FeatureLibError is the defined outcome for the corpus' deliberately invalid feature
                    # files; it has to be the same error in every process, which the comparison below checks)
                    r.fail("pipeline %s raised: %s" % (name, ref[name]))
                    continue
                for e, out in results[1:]:
                    if out.get(name) != ref[name]:
                        r.fail("pipeline %s: output differs between PYTHONHASHSEED=%s/TZ=%s and PYTHONHASHSEED=%s/TZ=%s (%s vs %s)"
                               % (name, e0["PYTHONHASHSEED"], e0["TZ"], e["PYTHONHASHSEED"], e["TZ"], ref[name][:16], str(out.get(name))[:60]))
                        break
            r.sample({"pipelines": len(ref), "environments": len(results), "example": sorted(ref)[0]})
    finally:
        shutil.rmtree(tmp, ignore_errors=True)
    return r


# ----------------------------------------------------------------------------- 4. time and environment

class _FakeClock:
    """stand-in for the `time` module inside fontTools.misc.timeTools with a settable clock"""

    def __init__(self, real):
        self._real = real
        self.now = 0.0

    def time(self):
        return self.now

    def __getattr__(self, name):
        return getattr(self._real, name)


def _head_times(data, fontNumber=0):
    from fontTools.ttLib.sfnt import SFNTReader

    h = SFNTReader(io.BytesIO(data), fontNumber=fontNumber)["head"]
    return struct.unpack(">QQ", h[20:36])


@check("C16")
def timestamps_pinned_or_untouched(tier, rnd):
    """With SOURCE_DATE_EPOCH = E every pipeline that stamps the font (save with recalcTimestamp,
    FontBuilder, merge, TTCollection.save, `ttx --recalc-timestamp`) writes head.modified = E +
    2082844800 and the output bytes do not depend on the clock (two runs at clock values 10^6 s
    apart are identical); with recalcTimestamp=False the loaded value is kept whatever the clock and
    environment; unpinned, modified is the clock value and nothing else in the file changes."""
    from fontTools.ttLib import TTFont, TTCollection
    from fontTools.misc import timeTools
    from fontTools.fontBuilder import FontBuilder
    from fontTools import merge, ttx

    r = Result("pipelines {save x corpus fonts, FontBuilder, merge, TTCollection, ttx CLI} x SOURCE_DATE_EPOCH values "
               "(0, 1, 10^9, seeded) x 2 clock values; distinct = (pipeline, epoch class)")
    tmp = tempfile.mkdtemp()
    real_time = timeTools.time
    saved_env = os.environ.get("SOURCE_DATE_EPOCH")
    clock = _FakeClock(real_time)
    timeTools.time = clock

    def built():
        f = _build_font(6, [600] * 6, [700] * 6)       # FontBuilder stamps created/modified from the clock
        fb = FontBuilder(1000, isTTF=True)
        return f, fb.font["head"].created, fb.font["head"].modified

    fonts = [os.path.join(TESTS, p) for p in ("ttx/data/TestTTF.ttf", "ttx/data/TestOTF.otf", "ttLib/data/I.otf", "ttx/data/TestWOFF.woff")]
    ttc = os.path.join(TESTS, "ttx/data/TestTTC.ttc")
    ttxsrc = os.path.join(tmp, "src.ttx")
    with _quiet():
        TTFont(fonts[0]).saveXML(ttxsrc)

    def cli(args):
        jobs, options = ttx.parseOptions(args)
        for action, inp, outp in jobs:
            action(inp, outp, options)

    def pipelines():
        """name -> bytes, at the current clock / environment"""
        out = {}
        for p in fonts:
            out["save-recalc:" + _rel(p)] = _save(TTFont(p, recalcTimestamp=True))
            out["save-keep:" + _rel(p)] = _save(TTFont(p, recalcTimestamp=False))
            f = TTFont(p, recalcTimestamp=True)
            f.ensureDecompiled()
            out["save-recalc-decompiled:" + _rel(p)] = _save(f)
            f = TTFont(p, recalcTimestamp=False)
            f.ensureDecompiled()
            out["save-keep-decompiled:" + _rel(p)] = _save(f)
        fb = FontBuilder(1000, isTTF=True)
        fb.setupGlyphOrder([".notdef"])
        fb.setupCharacterMap({})
        fb.setupGlyf({".notdef": _square()})
        fb.setupHorizontalMetrics({".notdef": (500, 0)})
        fb.setupHorizontalHeader()
        fb.setupNameTable({"familyName": "x", "styleName": "y"})
        fb.setupOS2()
        fb.setupPost()
        out["fontbuilder"] = _save(fb.font)
        out["merge"] = _save(merge.Merger().merge([fonts[0], fonts[0]]))
        b = io.BytesIO()
        TTCollection(ttc).save(b)
        out["ttc-save"] = b.getvalue()
        o = os.path.join(tmp, "cli.ttf")
        cli(["-q", "--recalc-timestamp", "-o", o, ttxsrc])
        out["ttx --recalc-timestamp"] = open(o, "rb").read()
        cli(["-q", "--no-recalc-timestamp", "-o", o, ttxsrc])
        out["ttx --no-recalc-timestamp"] = open(o, "rb").read()
        cli(["-q", "-o", o, ttxsrc])
        out["ttx (default: TTX file mtime)"] = open(o, "rb").read()
        return out

    try:
        epochs = [0, 1, 10 ** 9, 2 ** 31 - 1, rnd.randrange(10 ** 9, 2 * 10 ** 9)]
        loaded = {}
        with _quiet():
            for p in fonts:
                loaded[_rel(p)] = _head_times(_save(TTFont(p, recalcTimestamp=False)))
        for E in epochs if tier != "quick" else epochs[2:]:
            os.environ["SOURCE_DATE_EPOCH"] = str(E)
            runs = []
            for t in (1.7e9 + 0.25, 1.7e9 + 1e6 + 0.75):
                clock.now = t
                os.utime(ttxsrc, (t, t))
                with _quiet():
                    runs.append(pipelines())
            for name in sorted(runs[0]):
                r.case((name, "small" if E < 10 else "large"))
                a, b = runs[0][name], runs[1][name]
                if a != b:
                    r.fail("SOURCE_DATE_EPOCH=%d: %s gives different bytes at clock 1.7e9 and 1.7e9+1e6 (TTX mtime follows the clock), table %s"
                           % (E, name, _first_diff_table(a, b)),
                           known_id="C16-ttx-compile-mtime-ignores-source-date-epoch" if name.startswith("ttx (default") else None)
                keep = name.startswith(("save-keep", "ttx --no-recalc"))
                n = 2 if name == "ttc-save" else 1
                for k in range(n):
                    created, modified = _head_times(a, k)
                    if keep:
                        want = loaded.get(name.split(":", 1)[-1], loaded["ttx/data/TestTTF.ttf"])[1]
                        if modified != want:
                            r.fail("SOURCE_DATE_EPOCH=%d: %s changed head.modified from %d to %d" % (E, name, want, modified))
                    elif not name.startswith("ttx (default") and modified != E + EPOCH_DIFF:
                        r.fail("SOURCE_DATE_EPOCH=%d: %s wrote head.modified=%d, expected %d" % (E, name, modified, E + EPOCH_DIFF))
                    if name == "fontbuilder" and created != E + EPOCH_DIFF:
                        r.fail("SOURCE_DATE_EPOCH=%d: FontBuilder stamped head.created=%d, expected %d" % (E, created, E + EPOCH_DIFF))
        # not pinned: the clock value is used, and only head (modified, checksum adjustment) depends on it
        os.environ.pop("SOURCE_DATE_EPOCH", None)
        runs = []
        for t in (1.7e9 + 0.25, 1.7e9 + 1e6 + 0.75):
            clock.now = t
            os.utime(ttxsrc, (t, t))
            with _quiet():
                runs.append((t, pipelines()))
        for name in sorted(runs[0][1]):
            r.case((name, "unpinned"))
            for t, out in runs:
                created, modified = _head_times(out[name])
                if name.startswith(("save-recalc", "fontbuilder", "merge", "ttc", "ttx --recalc", "ttx (default")) and modified != int(t) + EPOCH_DIFF:
                    r.fail("no SOURCE_DATE_EPOCH, clock %r: %s wrote head.modified=%d, expected %d" % (t, name, modified, int(t) + EPOCH_DIFF))
            a, b = runs[0][1][name], runs[1][1][name]
            if name.startswith(("save-keep", "ttx --no-recalc")):
                if a != b:
                    r.fail("%s depends on the clock (table %s)" % (name, _first_diff_table(a, b)))
            elif name != "ttc-save":
                from fontTools.ttLib.sfnt import SFNTReader
                ra, rb = SFNTReader(io.BytesIO(a)), SFNTReader(io.BytesIO(b))
                for tag in ra.keys():
                    da, db = ra[tag], rb[tag]
                    if tag == "head":
                        da, db = da[:8] + da[12:20] + da[36:], db[:8] + db[12:20] + db[36:]
                    if da != db:
                        r.fail("%s: table %s depends on the clock beyond head.created/modified" % (name, tag))
    except Exception as e:
        import traceback
        r.fail("timestamp pipelines raised %s: %s | %s" % (type(e).__name__, str(e)[:160], traceback.format_exc()[-300:]))
    finally:
        timeTools.time = real_time
        if saved_env is None:
            os.environ.pop("SOURCE_DATE_EPOCH", None)
        else:
            os.environ["SOURCE_DATE_EPOCH"] = saved_env
        shutil.rmtree(tmp, ignore_errors=True)
    return r


# ----------------------------------------------------------------------------- 5. interleavings

def _edits():
    """deterministic edits (name, applicable(font), apply(font)) touching different tables"""
    def g1(f):
        return f.getGlyphOrder()[1] if len(f.getGlyphOrder()) > 1 else f.getGlyphOrder()[0]

    def e_hmtx(f):
        adv, lsb = f["hmtx"].metrics[g1(f)]
        f["hmtx"].metrics[g1(f)] = (adv + 10, lsb)

    def e_hmtx_last(f):
        n = f.getGlyphOrder()[-1]
        adv, lsb = f["hmtx"].metrics[n]
        f["hmtx"].metrics[n] = (adv + 3, lsb)

    def e_name(f):
        f["name"].setName("Edited Family", 1, 3, 1, 0x409)
        f["name"].setName("Extra", 300, 3, 1, 0x409)

    def e_os2(f):
        f["OS/2"].usWeightClass = 650

    def e_glyf(f):
        g = f["glyf"][g1(f)]
        if g.numberOfContours > 0:
            g.coordinates.translate((5, 0))
            g.recalcBounds(f["glyf"])

    def e_cmap(f):
        for st in f["cmap"].tables:
            if st.isUnicode():
                st.cmap[0x1234 if st.format != 0 else 0x7E] = g1(f)

    def e_post(f):
        f["post"].underlinePosition -= 7

    def e_head(f):
        f["head"].fontRevision = 2.5

    def e_layout(f):
        for tag in ("GSUB", "GPOS"):
            if tag in f and f[tag].table.FeatureList and f[tag].table.FeatureList.FeatureRecord:
                f[tag].table.FeatureList.FeatureRecord[0].FeatureTag = "zz01"

    def e_cff(f):
        tag = "CFF " if "CFF " in f else "CFF2"
        td = f[tag].cff.topDictIndex[0]
        if tag == "CFF ":
            td.UnderlinePosition = -123
        cs = td.CharStrings[g1(f)]
        cs.decompile()
        cs.program = list(cs.program)

    def e_vmtx(f):
        n = f.getGlyphOrder()[-1]
        adv, tsb = f["vmtx"].metrics[n]
        f["vmtx"].metrics[n] = (adv + 11, tsb)

    def e_maxp(f):
        f["maxp"].maxZones = 2 if getattr(f["maxp"], "maxZones", 2) == 1 else getattr(f["maxp"], "maxZones", None) or 2

    return [("hmtx", lambda f: "hmtx" in f, e_hmtx), ("hmtx-last", lambda f: "hmtx" in f, e_hmtx_last), ("name", lambda f: "name" in f, e_name),
            ("OS/2", lambda f: "OS/2" in f, e_os2), ("glyf", lambda f: "glyf" in f, e_glyf), ("cmap", lambda f: "cmap" in f, e_cmap),
            ("post", lambda f: "post" in f, e_post), ("head", lambda f: "head" in f, e_head),
            ("layout", lambda f: "GSUB" in f or "GPOS" in f, e_layout), ("cff", lambda f: "CFF " in f or "CFF2" in f, e_cff),
            ("vmtx", lambda f: "vmtx" in f, e_vmtx)]


def _observers(rnd, lazy_safe):
    """operations that must not change what later operations produce"""
    from fontTools.pens.recordingPen import RecordingPen

    def o_save(f):
        _save(f)

    def o_save_file_reorder(f):
        _save(f, reorderTables=None)

    def o_dump(f):
        _dump(f)

    def o_dump_split(f):
        tags = [t for t in f.keys() if t != "GlyphOrder"]
        _dump(f, tables=tags[::2], disassembleInstructions=False)

    def o_access(f):
        for t in list(f.keys())[1::2]:
            f[t]

    def o_tabledata(f):
        for t in [t for t in f.keys() if t != "GlyphOrder"][::3]:
            f.getTableData(t)

    def o_draw(f):
        gs = f.getGlyphSet()
        for n in f.getGlyphOrder()[:5]:
            gs[n].draw(RecordingPen())

    def o_cmap(f):
        f.getBestCmap()
        f.getReverseGlyphMap(rebuild=True)

    def o_decompile(f):
        f.ensureDecompiled()

    if lazy_safe:       # nothing that decompiles a table the reference run would leave untouched
        return [("save", o_save), ("save-noreorder", o_save_file_reorder), ("save", o_save)]
    return [("save", o_save), ("save-noreorder", o_save_file_reorder), ("dump", o_dump), ("dump-some", o_dump_split), ("access", o_access),
            ("getTableData", o_tabledata), ("draw", o_draw), ("cmap", o_cmap), ("ensureDecompiled", o_decompile)]


@check("C16")
def interleaved_observations(tier, rnd):
    """A sequence of edits gives the same final bytes and the same final dump whether or not saves,
    dumps, table accesses, getTableData, glyph drawing, cmap queries are interleaved with the edits
    (the observers behave as if they had not happened).  Decompiled mode: every table is loaded up
    front in both runs; lazy mode (lazy None/True): nothing is loaded up front and only saves are
    interleaved."""
    from fontTools.ttLib import TTFont

    r = Result("5 corpus fonts + 1 generated font with vmtx x seeded edit sequences x seeded observer interleavings x "
               "{decompiled, lazy=None, lazy=True}; distinct = (font, mode, edit sequence, observers)")
    with _quiet():
        gen = _save(_build_font(9, [500 + i for i in range(7)] + [600, 600], [700] * 9))
    sources = [(rel, open(os.path.join(TESTS, rel), "rb").read()) for rel in
               ("ttx/data/TestTTF.ttf", "ttx/data/TestOTF.otf", "ttLib/data/I.otf", "ttLib/tables/data/NotoSans-VF-cubic.subset.ttf",
                "ttLib/tables/data/aots/gpos_chaining2_next_glyph_f1.otf")] + [("generated-vmtx", gen)]
    edits = _edits()
    trials = 4 if tier == "quick" else 40
    for label, data in sources:
        for mode in ("decompiled", None, True):
            for _ in range(trials if mode == "decompiled" else max(1, trials // 2)):
                def load():
                    f = TTFont(io.BytesIO(data), lazy=None if mode == "decompiled" else mode, recalcTimestamp=False)
                    if mode == "decompiled":
                        f.ensureDecompiled()
                    return f
                try:
                    with _quiet():
                        probe = load()
                        seq = [e for e in edits if e[1](probe)]
                        rnd.shuffle(seq)
                        seq = seq[:rnd.randint(1, len(seq))]
                        obs = _observers(rnd, mode != "decompiled")
                        # reference: edits only
                        ref = load()
                        for name, ok, fn in seq:
                            fn(ref)
                        ref_loaded = set(ref.tables)
                        ref_bytes = _save(ref)
                        ref_dump = _dump(ref)
                        # test: observers before, between and after
                        F = load()
                        used = []
                        for name, ok, fn in seq:
                            for _k in range(rnd.randint(0, 2)):
                                o = rnd.choice(obs)
                                used.append(o[0])
                                o[1](F)
                            fn(F)
                            used.append("EDIT:" + name)
                        for _k in range(rnd.randint(1, 2)):
                            o = rnd.choice(obs)
                            used.append(o[0])
                            o[1](F)
                        got_bytes = _save(F)
                        got_dump = _dump(F)
                except Exception as e:
                    r.case((label, mode, "exception"))
                    r.fail("%s (%s): %s: %s" % (label, mode, type(e).__name__, str(e)[:200]))
                    continue
                r.case((label, mode, tuple(s[0] for s in seq), tuple(used)))
                if got_bytes != ref_bytes:
                    # known: a table that the reference's single save passes through unloaded (and loads as a
                    # side effect of compiling head/maxp/hhea) is recompiled by any later save
                    side = [t for t in _diff_tables(ref_bytes, got_bytes) if t not in ref_loaded]
                    r.fail("%s (%s mode): operations %s give different final bytes than the edits alone, table %s"
                           % (label, mode, " ".join(used), _first_diff_table(ref_bytes, got_bytes)),
                           known_id="C16-save-loads-table-then-recompiles" if side and mode != "decompiled" else None)
                elif got_dump != ref_dump:
                    r.fail("%s (%s mode): operations %s give a different final dump than the edits alone (%s)"
                           % (label, mode, " ".join(used), _xml_diff(ref_dump, got_dump)))
    return r


# ----------------------------------------------------------------------------- 6. partially loaded fonts

@check("C16")
def partially_loaded_save_twice(tier, rnd):
    """A font of which nothing or only some tables have been touched (the normal state of a TTFont
    that was opened and edited in one place): three saves in a row give identical bytes, for every
    lazy mode.  Touched sets: none, each single 'header' table (head, maxp, hhea, OS/2, post, hmtx,
    name), seeded random subsets."""
    from fontTools.ttLib import TTFont

    r = Result("corpus fonts (quick: those outside aots below 15 kB + seeded aots sample) x touched set in {none, 7 single "
               "tables, 2 seeded subsets} x lazy (quick and the aots fonts: one seeded mode per case); distinct = (file, touched set, lazy)")
    fonts = _corpus_fonts()
    aots = [p for p in fonts if os.sep + "aots" + os.sep in p]
    if tier == "quick":
        keep = set(rnd.sample(aots, 6))
        fonts = [p for p in fonts if (p not in aots or p in keep) and os.path.getsize(p) < 15000]
    for p in fonts:
        with _quiet():
            try:
                with TTFont(p, lazy=True) as f0:
                    tags = [t for t in f0.keys() if t != "GlyphOrder"]
            except Exception:
                continue
        sets = [()] + [(t,) for t in ("head", "maxp", "hhea", "OS/2", "post", "hmtx", "name") if t in tags]
        sets += [tuple(rnd.sample(tags, rnd.randint(2, max(2, len(tags) // 2)))) for _ in range(2)]
        for touched in sets:
            for lazy in (None, True, False) if (tier != "quick" and p not in aots) else (rnd.choice((None, True, False)),):
                r.case((_rel(p), touched, lazy))
                label = "%s lazy=%s touched=%s" % (_rel(p), lazy, ",".join(touched) or "nothing")
                try:
                    with _quiet():
                        F = TTFont(p, lazy=lazy, recalcTimestamp=False)
                        for t in touched:
                            F[t]
                        before = set(F.tables)
                        a = _save(F)
                        side = set(F.tables) - before
                        b = _save(F)
                        c = _save(F)
                        F.close()
                except Exception as e:
                    import traceback
                    r.fail("%s: %s: %s" % (label, type(e).__name__, str(e)[:160]),
                           known_id="C16-silf-linear-classes-generator" if "S__i_l_f" in traceback.format_exc() else None)
                    continue
                if a != b or b != c:
                    d = _diff_tables(a, b) if a != b else _diff_tables(b, c)
                    known = a != b and any(t in side for t in d)
                    r.fail("%s: save #%d differs from save #%d in tables %s (tables loaded as a side effect of the first save: %s)"
                           % (label, 2 if a != b else 3, 1 if a != b else 2, d, sorted(side)),
                           known_id="C16-save-loads-table-then-recompiles" if known else None)
    r.sample({"fonts": len(fonts)})
    return r
