"""C04: every saved file is a valid container with consistent derived fields.

The readers in the first half of this module are written from the OpenType / WOFF / WOFF2
specifications and use nothing of fontTools: they parse the raw bytes written by TTFont.save /
TTCollection.save and return (tables, problems).  The checks save corpus fonts and generated fonts
(glyf fonts with empty glyphs, composites, negative side bearings; CFF/CFF2 fonts with fractional
extremes) under every flavour / reorderTables / padding / recalcBBoxes configuration and require
(a) a valid container and (b) recomputed header fields equal to an independent recomputation from
the saved glyph data."""
import io
import math
import os
import struct
import zlib
from fractions import Fraction

from harness import check, Result
from _common import REPO

MAGIC = 0xB1B0AFBA
TTF_ORDER = [b"head", b"hhea", b"maxp", b"OS/2", b"hmtx", b"LTSH", b"VDMX", b"hdmx", b"cmap", b"fpgm", b"prep",
             b"cvt ", b"loca", b"glyf", b"kern", b"name", b"post", b"gasp", b"PCLT"]
OTF_ORDER = [b"head", b"hhea", b"maxp", b"OS/2", b"name", b"cmap", b"post", b"CFF "]
WOFF2_KNOWN = ("cmap head hhea hmtx maxp name OS/2 post cvt_ fpgm glyf loca prep CFF_ VORG EBDT EBLC gasp hdmx kern LTSH "
               "PCLT VDMX vhea vmtx BASE GDEF GPOS GSUB EBSC JSTF MATH CBDT CBLC COLR CPAL SVG_ sbix acnt avar bdat bloc "
               "bsln cvar fdsc feat fmtx fvar gvar hsty just lcar mort morx opbd prop trak Zapf Silf Glat Gloc Feat Sill")
WOFF2_KNOWN = [t.replace("_", " ").encode() for t in WOFF2_KNOWN.split()]


# ------------------------------------------------------------------ independent container readers
def _u16(b, o):
    return struct.unpack_from(">H", b, o)[0]


def _i16(b, o):
    return struct.unpack_from(">h", b, o)[0]


def _pad4(n):
    return (n + 3) & ~3


def _sum32(data):
    data = bytes(data) + b"\0" * (-len(data) % 4)
    return sum(struct.unpack(">%dL" % (len(data) // 4), data)) & 0xFFFFFFFF


def _table_sum(tag, body):
    return _sum32(body[:8] + b"\0\0\0\0" + body[12:]) if tag == b"head" else _sum32(body)


def read_sfnt(data, off=0, standalone=True):
    """-> (sfntVersion, {tag: bytes}, tags in physical order, [(offset, length)], problems)"""
    P = []
    ver, n, sr, es, rs = struct.unpack_from(">4sHHHH", data, off)
    if ver not in (b"\0\1\0\0", b"OTTO", b"true"):
        P.append("bad sfntVersion %r" % ver)
    e = max(n.bit_length() - 1, 0)
    if (sr, es, rs) != (16 << e, e, 16 * n - (16 << e)):
        P.append("search fields (%d,%d,%d) wrong for numTables=%d" % (sr, es, rs, n))
    recs = [struct.unpack_from(">4sLLL", data, off + 12 + 16 * i) for i in range(n)]
    tags = [r[0] for r in recs]
    if any(a >= b for a, b in zip(tags, tags[1:])):
        P.append("table directory not strictly ascending by tag: %r" % tags)
    tables = {}
    for tag, cs, o, l in recs:
        if o % 4:
            P.append("%r starts at unaligned offset %d" % (tag, o))
        if o + l > len(data) or o < 12 + 16 * n:
            P.append("%r lies outside the file / inside the directory" % tag)
            continue
        tables[tag] = data[o:o + l]
        if _table_sum(tag, tables[tag]) != cs:
            P.append("%r directory checksum %08x != %08x" % (tag, cs, _table_sum(tag, tables[tag])))
    spans = sorted((o, l) for _, _, o, l in recs)
    if standalone:
        pos = off + 12 + 16 * n
        for o, l in spans:
            if o != pos:
                P.append("table at %d but previous table (padded) ends at %d: gap or overlap" % (o, pos))
            pos = _pad4(o + l)
            if len(data) < pos or data[o + l:pos].strip(b"\0"):
                P.append("table at %d not zero-padded to a 4-byte boundary" % o)
        if pos != len(data):
            P.append("file length %d but last table ends at %d" % (len(data), pos))
        if b"head" in tables and _sum32(data) != MAGIC:
            P.append("whole-file checksum %08x != B1B0AFBA (bad head.checkSumAdjustment)" % _sum32(data))
    order = [t for _, t in sorted((o, t) for t, _, o, _ in recs)]
    return ver, tables, order, spans, P


def rebuild_sfnt(ver, items):
    """Plain sfnt from [(tag, bytes)] in physical order, head.checkSumAdjustment kept as is."""
    n = len(items)
    e = max(n.bit_length() - 1, 0)
    pos = 12 + 16 * n
    recs, body = [], b""
    for tag, b in items:
        recs.append((tag, _table_sum(tag, b), pos, len(b)))
        body += b + b"\0" * (-len(b) % 4)
        pos += _pad4(len(b))
    head = struct.pack(">4sHHHH", ver, n, 16 << e, e, 16 * n - (16 << e))
    return head + b"".join(struct.pack(">4sLLL", *r) for r in sorted(recs)) + body


def _trailing_blocks(data, pos, metaOff, metaLen, metaOrig, privOff, privLen, decompress, P):
    meta = priv = None
    if pos % 4:
        P.append("table data end %d not 4-byte aligned" % pos)
    if metaLen:
        if metaOff != pos:
            P.append("metaOffset %d but previous block ends at %d" % (metaOff, pos))
        try:
            meta = decompress(data[metaOff:metaOff + metaLen])
            if len(meta) != metaOrig:
                P.append("metaOrigLength %d != %d" % (metaOrig, len(meta)))
        except Exception as ex:
            P.append("metadata does not decompress: %s" % ex)
        pos = metaOff + metaLen
    elif metaOff or metaOrig:
        P.append("metaOffset/metaOrigLength non-zero without metadata")
    if privLen:
        if privOff != _pad4(pos) or data[pos:privOff].strip(b"\0"):
            P.append("privOffset %d but previous block ends at %d (must be next 4-byte boundary, zero padded)" % (privOff, pos))
        priv = data[privOff:privOff + privLen]
        pos = privOff + privLen
    elif privOff:
        P.append("privOffset non-zero without private data")
    if pos != len(data):
        P.append("file length %d but last block ends at %d" % (len(data), pos))
    return meta, priv


def read_woff(data):
    P = []
    (sig, ver, length, n, reserved, totalSfnt, major, minor, metaOff, metaLen, metaOrig, privOff,
     privLen) = struct.unpack_from(">4s4sLHHLHHLLLLL", data, 0)
    if sig != b"wOFF":
        P.append("bad signature")
    if length != len(data):
        P.append("header length %d != file size %d" % (length, len(data)))
    if reserved:
        P.append("reserved != 0")
    recs = [struct.unpack_from(">4sLLLL", data, 44 + 20 * i) for i in range(n)]
    tags = [r[0] for r in recs]
    if any(a >= b for a, b in zip(tags, tags[1:])):
        P.append("WOFF directory not ascending by tag")
    tables = {}
    for tag, o, cl, ol, cs in recs:
        raw = data[o:o + cl]
        if o % 4 or len(raw) != cl:
            P.append("%r unaligned or truncated" % tag)
        if cl > ol:
            P.append("%r compLength > origLength" % tag)
        try:
            body = raw if cl == ol else zlib.decompress(raw)
        except zlib.error as ex:
            P.append("%r does not inflate: %s" % (tag, ex))
            continue
        if len(body) != ol:
            P.append("%r origLength %d != %d" % (tag, ol, len(body)))
        if _table_sum(tag, body) != cs:
            P.append("%r origChecksum wrong" % tag)
        tables[tag] = body
    if totalSfnt != 12 + 16 * n + sum(_pad4(r[3]) for r in recs):
        P.append("totalSfntSize %d wrong" % totalSfnt)
    pos = 44 + 20 * n
    for o, cl in sorted((r[1], r[2]) for r in recs):
        if o != pos:
            P.append("table data at %d but previous block ends at %d" % (o, pos))
        pos = _pad4(o + cl)
        if len(data) < pos or data[o + cl:pos].strip(b"\0"):
            P.append("table data at %d not zero padded" % o)
    meta, priv = _trailing_blocks(data, pos, metaOff, metaLen, metaOrig, privOff, privLen, zlib.decompress, P)
    order = [t for _, t in sorted((r[1], r[0]) for r in recs)]
    if b"head" in tables and len(tables) == n:
        if _sum32(rebuild_sfnt(ver, [(t, tables[t]) for t in order])) != MAGIC:
            P.append("checkSumAdjustment wrong for the sfnt a WOFF decoder reconstructs")
    return dict(ver=ver, tables=tables, order=order, version=(major, minor), meta=meta, priv=priv), P


def _base128(data, pos):
    v = 0
    for i in range(5):
        b = data[pos + i]
        if i == 0 and b == 0x80:
            raise ValueError("UIntBase128 with leading zero")
        v = (v << 7) | (b & 0x7F)
        if not b & 0x80:
            return v, pos + i + 1
    raise ValueError("UIntBase128 longer than 5 bytes")


def read_woff2(data):
    """-> info dict with 'entries': [(tag, transformVersion, origLength, bytes)] in directory order."""
    import brotli
    P = []
    (sig, ver, length, n, reserved, totalSfnt, totalComp, major, minor, metaOff, metaLen, metaOrig, privOff,
     privLen) = struct.unpack_from(">4s4sLHHLLHHLLLLL", data, 0)
    if sig != b"wOF2":
        P.append("bad signature")
    if length != len(data):
        P.append("header length %d != file size %d" % (length, len(data)))
    if reserved:
        P.append("reserved != 0")
    pos, ents = 48, []
    for _ in range(n):
        flags = data[pos]
        pos += 1
        if flags & 0x3F == 0x3F:
            tag = data[pos:pos + 4]
            pos += 4
            if tag in WOFF2_KNOWN:
                P.append("known tag %r written as arbitrary tag" % tag)
        else:
            tag = WOFF2_KNOWN[flags & 0x3F]
        orig, pos = _base128(data, pos)
        tv = flags >> 6
        transformed = (tv != 3) if tag in (b"glyf", b"loca") else (tv != 0)
        tlen = orig
        if transformed:
            tlen, pos = _base128(data, pos)
        if (tag in (b"glyf", b"loca") and tv not in (0, 3)) or (tag == b"hmtx" and tv not in (0, 1)) or \
                (tag not in (b"glyf", b"loca", b"hmtx") and tv):
            P.append("%r has undefined transform version %d" % (tag, tv))
        ents.append([tag, tv, transformed, orig, tlen])
    tags = [e[0] for e in ents]
    if len(set(tags)) != n:
        P.append("duplicate tags")
    if (b"glyf" in tags) != (b"loca" in tags):
        P.append("glyf without loca")
    elif b"glyf" in tags:
        gi, li = tags.index(b"glyf"), tags.index(b"loca")
        if li < gi or ents[gi][2] != ents[li][2]:
            P.append("loca must come after glyf and have the same transform state")
        if ents[li][2] and ents[li][4] != 0:
            P.append("transformed loca must have transformLength 0")
    try:
        raw = brotli.decompress(data[pos:pos + totalComp])
    except Exception as ex:
        return None, P + ["compressed stream does not decode: %s" % ex]
    if sum(e[4] for e in ents) != len(raw):
        P.append("decompressed size %d != sum of table lengths %d" % (len(raw), sum(e[4] for e in ents)))
    if totalSfnt != 12 + 16 * n + sum(_pad4(e[3]) for e in ents):
        P.append("totalSfntSize %d wrong" % totalSfnt)
    p, entries = 0, []
    for tag, tv, transformed, orig, tlen in ents:
        entries.append((tag, transformed, orig, raw[p:p + tlen]))
        p += tlen
    end = pos + totalComp
    if len(data) < _pad4(end) or data[end:_pad4(end)].strip(b"\0"):
        P.append("compressed stream not zero padded to a 4-byte boundary")
    meta, priv = _trailing_blocks(data, _pad4(end), metaOff, metaLen, metaOrig, privOff, privLen, brotli.decompress, P)
    return dict(ver=ver, entries=entries, version=(major, minor), meta=meta, priv=priv), P


# ------------------------------------------------------------------ independent glyph data readers
def parse_glyph(d):
    """One 'glyf' entry -> dict(nc, bbox, end, pts[(x,y,on)], overlap, instr, comps, used)."""
    if not d:
        return None
    nc = _i16(d, 0)
    g = dict(nc=nc, bbox=struct.unpack_from(">hhhh", d, 2), end=[], pts=[], overlap=False, instr=b"", comps=[])
    p = 10
    if nc >= 0:
        g["end"] = list(struct.unpack_from(">%dH" % nc, d, p))
        p += 2 * nc
        il = _u16(d, p)
        g["instr"] = d[p + 2:p + 2 + il]
        p += 2 + il
        npts = g["end"][-1] + 1 if nc else 0
        flags = []
        while len(flags) < npts:
            f = d[p]
            p += 1
            flags.append(f)
            if f & 8:
                flags.extend([f] * d[p])
                p += 1
        coords = []
        for short, same, size in ((2, 16, 0), (4, 32, 0)):
            v, out = 0, []
            for f in flags:
                if f & short:
                    v += d[p] if f & same else -d[p]
                    p += 1
                elif not f & same:
                    v += _i16(d, p)
                    p += 2
                out.append(v)
            coords.append(out)
        g["pts"] = [(x, y, f & 1) for x, y, f in zip(coords[0], coords[1], flags)]
        g["overlap"] = bool(flags and flags[0] & 0x40)
        g["cubic"] = any(f & 0x80 for f in flags)
    else:
        p, g["comps"], instr = parse_components(d, p)
        if instr:
            il = _u16(d, p)
            g["instr"] = d[p + 2:p + 2 + il]
            p += 2 + il
    g["used"] = p
    return g


def parse_components(d, p):
    comps, instr = [], False
    while True:
        flags, gid = struct.unpack_from(">HH", d, p)
        p += 4
        if flags & 1:
            a1, a2 = struct.unpack_from(">hh" if flags & 2 else ">HH", d, p)
            p += 4
        else:
            a1, a2 = struct.unpack_from(">bb" if flags & 2 else ">BB", d, p)
            p += 2
        m = (16384, 0, 0, 16384)                       # xscale, scale01, scale10, yscale in 2.14 units
        if flags & 0x08:
            s = _i16(d, p)
            p += 2
            m = (s, 0, 0, s)
        elif flags & 0x40:
            sx, sy = struct.unpack_from(">hh", d, p)
            p += 4
            m = (sx, 0, 0, sy)
        elif flags & 0x80:
            m = struct.unpack_from(">hhhh", d, p)
            p += 8
        instr = instr or bool(flags & 0x100)
        comps.append((flags & ~0x121, gid, a1, a2, m))   # drop ARG_WORDS / MORE / WE_HAVE_INSTRUCTIONS
        if not flags & 0x20:
            return p, comps, instr


def _255u16(d, p):
    c = d[p]
    if c == 253:
        return _u16(d, p + 1), p + 3
    if c == 255:
        return d[p + 1] + 253, p + 2
    if c == 254:
        return d[p + 1] + 506, p + 2
    return c, p + 1


def decode_woff2_glyf(d):
    """WOFF2 transformed 'glyf' (spec section 5.1) -> (indexFormat, [glyph dict or None])."""
    (ver, opt, num, indexFormat) = struct.unpack_from(">HHHH", d, 0)
    sizes = struct.unpack_from(">7L", d, 8)
    p, st = 36, []
    for s in sizes:
        st.append(d[p:p + s])
        p += s
    nContour, nPoints, flagS, glyphS, compS, bboxS, instrS = st
    overlapBits = d[p:p + ((num + 7) >> 3)] if opt & 1 else None
    assert ver == 0 and p + (len(overlapBits) if overlapBits else 0) == len(d), "transformed glyf size mismatch"
    bitmapLen = ((num + 31) >> 5) << 2
    pp = fp = gp = cp = ip = 0
    bp = bitmapLen
    glyphs = []
    for i in range(num):
        nc = _i16(nContour, 2 * i)
        explicit = bboxS[i >> 3] & (0x80 >> (i & 7))
        if nc == 0:
            assert not explicit, "empty glyph %d with explicit bbox" % i
            glyphs.append(None)
            continue
        g = dict(nc=nc, end=[], pts=[], overlap=False, instr=b"", comps=[], cubic=False)
        if nc > 0:
            tot = 0
            for _ in range(nc):
                k, pp = _255u16(nPoints, pp)
                tot += k
                g["end"].append(tot - 1)
            x = y = 0
            for _ in range(tot):
                f = flagS[fp]
                fp += 1
                on, f = not f & 0x80, f & 0x7F
                sx = 1 if f & 1 else -1
                sy = 1 if (f >> 1) & 1 else -1
                if f < 10:
                    dx, dy, k = 0, sx * (((f & 14) << 7) + glyphS[gp]), 1
                elif f < 20:
                    dx, dy, k = sx * ((((f - 10) & 14) << 7) + glyphS[gp]), 0, 1
                elif f < 84:
                    b0, b1 = f - 20, glyphS[gp]
                    dx, dy, k = sx * (1 + (b0 & 0x30) + (b1 >> 4)), sy * (1 + ((b0 & 0x0C) << 2) + (b1 & 0x0F)), 1
                elif f < 120:
                    b0 = f - 84
                    dx, dy, k = sx * (1 + ((b0 // 12) << 8) + glyphS[gp]), sy * (1 + (((b0 % 12) >> 2) << 8) + glyphS[gp + 1]), 2
                elif f < 124:
                    b2 = glyphS[gp + 1]
                    dx, dy, k = sx * ((glyphS[gp] << 4) + (b2 >> 4)), sy * (((b2 & 0x0F) << 8) + glyphS[gp + 2]), 3
                else:
                    dx, dy, k = sx * ((glyphS[gp] << 8) + glyphS[gp + 1]), sy * ((glyphS[gp + 2] << 8) + glyphS[gp + 3]), 4
                gp += k
                x, y = x + dx, y + dy
                g["pts"].append((x, y, int(on)))
            il, gp = _255u16(glyphS, gp)
            g["instr"] = instrS[ip:ip + il]
            ip += il
            g["overlap"] = bool(overlapBits and overlapBits[i >> 3] & (0x80 >> (i & 7)))
        else:
            cp, g["comps"], instr = parse_components(compS, cp)
            if instr:
                il, gp = _255u16(glyphS, gp)
                g["instr"] = instrS[ip:ip + il]
                ip += il
            assert explicit, "composite glyph %d without explicit bbox" % i
        if explicit:
            g["bbox"] = struct.unpack_from(">hhhh", bboxS, bp)
            bp += 8
        else:
            xs, ys = [q[0] for q in g["pts"]], [q[1] for q in g["pts"]]
            g["bbox"] = (min(xs), min(ys), max(xs), max(ys))
        glyphs.append(g)
    assert (pp, fp, gp, cp, bp, ip) == (len(nPoints), len(flagS), len(glyphS), len(compS), len(bboxS), len(instrS)), \
        "transformed glyf sub-streams not consumed exactly"
    return indexFormat, glyphs


def decode_woff2_hmtx(d, numGlyphs, numHM, xMins):
    flags, p = d[0], 1
    adv = struct.unpack_from(">%dH" % numHM, d, p)
    p += 2 * numHM
    if flags & 1:
        lsb = list(xMins[:numHM])
    else:
        lsb = list(struct.unpack_from(">%dh" % numHM, d, p))
        p += 2 * numHM
    if flags & 2:
        rest = list(xMins[numHM:])
    else:
        rest = list(struct.unpack_from(">%dh" % (numGlyphs - numHM), d, p))
        p += 2 * (numGlyphs - numHM)
    assert p == len(d) and flags & 3 and not flags & ~3, "bad transformed hmtx"
    return b"".join(struct.pack(">Hh", a, l) for a, l in zip(adv, lsb)) + struct.pack(">%dh" % len(rest), *rest)


def read_glyphs(T):
    """{tag: bytes} of a glyf-flavoured font -> (loca offsets, [glyph dict or None], problems)"""
    P = []
    fmt, num, loca, glyf = _i16(T[b"head"], 50), _u16(T[b"maxp"], 4), T[b"loca"], T[b"glyf"]
    if fmt == 0:
        offs = [2 * v for v in struct.unpack(">%dH" % (len(loca) // 2), loca)]
    else:
        offs = list(struct.unpack(">%dL" % (len(loca) // 4), loca))
    if fmt not in (0, 1) or len(loca) != (num + 1) * (4 if fmt else 2):
        P.append("loca has %d bytes for numGlyphs=%d, indexToLocFormat=%d" % (len(loca), num, fmt))
    if any(a > b for a, b in zip(offs, offs[1:])) or (offs and offs[-1] > len(glyf)) or (offs and offs[0] != 0):
        P.append("loca offsets not monotone within glyf")
        return offs, [], P
    if offs and len(glyf) - offs[-1] > 3:
        P.append("glyf has %d bytes after the last glyph" % (len(glyf) - offs[-1]))
    glyphs = []
    for i in range(len(offs) - 1):
        d = glyf[offs[i]:offs[i + 1]]
        try:
            g = parse_glyph(d)
        except (struct.error, IndexError) as ex:
            P.append("glyph %d does not parse: %s" % (i, ex))
            g = None
        if g and (len(d) - g["used"] > 3 or d[g["used"]:].strip(b"\0")):
            P.append("glyph %d: %d trailing bytes, or non-zero padding" % (i, len(d) - g["used"]))
        glyphs.append(g)
    return offs, glyphs, P


def flatten(glyphs, i, memo, stack=()):
    """Exact (Fraction) flattened points, contour count and component depth of glyph i; 4th item: the
    points left when every component whose own points all coincide is dropped (only used to recognise
    the known finding C04-composite-bbox-ignores-one-point-component)."""
    if i in memo:
        return memo[i]
    g = glyphs[i]
    if g is None:
        res = ([], 0, 0, [])
    elif g["nc"] >= 0:
        pts = [(Fraction(x), Fraction(y)) for x, y, _ in g["pts"]]
        res = (pts, g["nc"], 0, pts)
    else:
        assert i not in stack, "component cycle"
        out, ncont, depth, alt = [], 0, 0, []
        for flags, gid, a1, a2, m in g["comps"]:
            pts, nc, dd, apts = flatten(glyphs, gid, memo, stack + (i,))
            a, b, c, d = (Fraction(v, 16384) for v in m)        # x' = a x + c y ; y' = b x + d y
            tp = [(a * x + c * y, b * x + d * y) for x, y in pts]
            if flags & 2:
                dx, dy = Fraction(a1), Fraction(a2)
                if flags & 0x800 and not flags & 0x1000:        # SCALED_COMPONENT_OFFSET
                    dx, dy = a * dx + c * dy, b * dx + d * dy
            else:
                dx, dy = out[a1][0] - tp[a2][0], out[a1][1] - tp[a2][1]
            out.extend((x + dx, y + dy) for x, y in tp)
            if len(set(apts)) > 1:
                alt.extend((a * x + c * y + dx, b * x + d * y + dy) for x, y in apts)
            ncont += nc
            depth = max(depth, dd)
        res = (out, ncont, depth + 1, alt)
    memo[i] = res
    return res


def _bounds(pts):
    return (min(p[0] for p in pts), min(p[1] for p in pts), max(p[0] for p in pts), max(p[1] for p in pts))


def _mtx(data, numLong, num):
    adv = [_u16(data, 4 * i) for i in range(numLong)]
    sb = [_i16(data, 4 * i + 2) for i in range(numLong)]
    sb += [_i16(data, 4 * numLong + 2 * i) for i in range(num - numLong)]
    return adv + [adv[-1]] * (num - numLong), sb


def _check_header_metrics(P, name, hea, mtx, num, boxes, axis):
    """hhea/vhea recomputed fields (axis 0: x / left, 1: y / top) against hmtx/vmtx and glyph boxes."""
    numLong = _u16(hea, 34)
    if not 1 <= numLong <= num or len(mtx) != 4 * numLong + 2 * (num - numLong):
        P.append("%s: %d long metrics, %d glyphs, but %d bytes of metrics" % (name, numLong, num, len(mtx)))
        return
    adv, sb = _mtx(mtx, numLong, num)
    want = num
    while want > 1 and adv[want - 2] == adv[-1]:
        want -= 1
    if numLong != want:
        P.append("%s: number of long metrics %d, minimal is %d" % (name, numLong, want))
    got = (_u16(hea, 10), _i16(hea, 12), _i16(hea, 14), _i16(hea, 16))
    ext = [(sb[i], adv[i] - sb[i] - (b[2 + axis] - b[axis]), sb[i] + b[2 + axis] - b[axis])
           for i, b in enumerate(boxes) if b is not None]
    exp = (max(adv),) + ((min(e[0] for e in ext), min(e[1] for e in ext), max(e[2] for e in ext)) if ext else (0, 0, 0))
    if got != exp:
        P.append("%s (advanceMax, minSB1, minSB2, maxExtent) = %r, recomputed %r" % (name, got, exp))


KNOWN_BBOX = "C04-composite-bbox-ignores-one-point-component"


def check_glyf_derived(T, padding=None, glyphs=None):
    """Problems with the recomputed fields of a saved glyf-flavoured font ({tag: bytes}); `glyphs` is
    given when the glyph data came out of a WOFF2 transformed table (then there is no loca to check).
    A problem that is an instance of a known finding starts with '[known:<id>]'."""
    P = []
    head, maxp = T[b"head"], T[b"maxp"]
    if glyphs is None:
        offs, glyphs, P = read_glyphs(T)
        if not glyphs:
            return P
        if padding in (2, 4) and any(o % padding for o in offs):
            P.append("glyph offsets not multiples of the requested padding %d" % padding)
        short_ok = max(offs) < 0x20000 and not any(o & 1 for o in offs)
        if short_ok != (_i16(head, 50) == 0):
            P.append("indexToLocFormat=%d but short offsets %s possible" % (_i16(head, 50), "are" if short_ok else "are not"))
    num = len(glyphs)
    if num != _u16(maxp, 4):
        P.append("maxp.numGlyphs %d != %d glyphs" % (_u16(maxp, 4), num))
    memo, stats, boxes = {}, [0] * 6, []
    for i, g in enumerate(glyphs):
        boxes.append(g["bbox"] if g else None)
        if g is None:
            continue
        pts, ncont, depth, alt = flatten(glyphs, i, memo)
        if pts:
            ex = _bounds(pts)
            if not all(math.floor(e) <= s <= math.ceil(e) for e, s in zip(ex, g["bbox"])):
                known = g["nc"] < 0 and g["bbox"] == (tuple(int(v) for v in _bounds(alt)) if alt else (0, 0, 0, 0))
                P.append("%sglyph %d bbox %r, exact bounds of its points %r" % (
                    "[known:%s]" % KNOWN_BBOX if known else "", i, g["bbox"], tuple(float(e) for e in ex)))
        j = 0 if g["nc"] >= 0 else 2
        stats[j], stats[j + 1] = max(stats[j], len(pts)), max(stats[j + 1], ncont)
        if j:
            stats[4], stats[5] = max(stats[4], len(g["comps"])), max(stats[5], depth)
    if struct.unpack_from(">L", maxp, 0)[0] == 0x00010000:
        got = list(struct.unpack_from(">4H", maxp, 6)) + list(struct.unpack_from(">2H", maxp, 28))
        if got != stats:
            P.append("maxp (maxPoints, maxContours, maxCompositePoints, maxCompositeContours, maxComponentElements, "
                     "maxComponentDepth) = %r, recomputed %r" % (got, stats))
    bs = [b for b in boxes if b is not None]
    exp = (min(b[0] for b in bs), min(b[1] for b in bs), max(b[2] for b in bs), max(b[3] for b in bs)) if bs else (0, 0, 0, 0)
    if struct.unpack_from(">hhhh", head, 36) != exp:
        P.append("head bbox %r, union of glyph boxes %r" % (struct.unpack_from(">hhhh", head, 36), exp))
    if b"hhea" in T and b"hmtx" in T:
        _check_header_metrics(P, "hhea", T[b"hhea"], T[b"hmtx"], num, boxes, 0)
        numLong = _u16(T[b"hhea"], 34)
        if 1 <= numLong <= num and len(T[b"hmtx"]) == 4 * numLong + 2 * (num - numLong):
            lsb = _mtx(T[b"hmtx"], numLong, num)[1]
            allmatch = all(lsb[i] == b[0] for i, b in enumerate(boxes) if b is not None)
            if bool(_u16(head, 16) & 2) != allmatch:
                P.append("head.flags bit 1 is %d but 'every lsb == xMin' is %s" % (bool(_u16(head, 16) & 2), allmatch))
    if b"vhea" in T and b"vmtx" in T:
        _check_header_metrics(P, "vhea", T[b"vhea"], T[b"vmtx"], num, boxes, 1)
    return P


def report(r, prefix, problems):
    for msg in problems:
        kid = None
        if msg.startswith("[known:"):
            kid, msg = msg[7:msg.index("]")], msg[msg.index("]") + 1:]
        r.fail("%s: %s" % (prefix, msg), known_id=kid)


# ------------------------------------------------------------------ font sources
CORPUS = ["Tests/ttx/data/TestTTF.ttf", "Tests/ttx/data/TestOTF.otf", "Tests/ttx/data/TestWOFF.woff",
          "Tests/ttx/data/TestWOFF2.woff2", "Tests/ttLib/data/I.ttf", "Tests/ttLib/data/I.otf",
          "Tests/ttLib/data/Test-Regular.ttf", "Tests/ttLib/data/issue2824.ttf", "Tests/ttLib/data/TestVGID-Regular.otf",
          "Tests/subset/data/Lobster.subset.otf", "Tests/qu2cu/data/NotoSansArabic-Regular.quadratic.subset.ttf",
          "Tests/cffLib/data/CFFToCFF2-1.otf", "Tests/ttLib/data/IBMPlexSans-Bold.subset.otf",
          "Tests/voltLib/data/Empty.ttf", "Tests/voltLib/data/Nutso.ttf", "Tests/ttLib/data/bogus_post_format_1.ttf",
          "Tests/ttLib/tables/data/Amstelvar-avar2.subset.ttf", "Tests/ttLib/tables/data/aots/base.otf",
          "Tests/ttLib/tables/data/graphite/graphite_tests.ttf"]


LAZY_ONLY = ("graphite_tests.ttf",)     # its Silf table cannot be recompiled at all (TypeError in S__i_l_f.Classes.compile;
#                                         a table-compiler defect, no file is produced): only used as pass-through


def corpus_paths(tier, decompilable=False):
    ps = [os.path.join(REPO, p) for p in CORPUS]
    return [p for p in ps if os.path.exists(p) and not (decompilable and os.path.basename(p) in LAZY_ONLY)]


def _no_adj(T):
    """Tables with head.checkSumAdjustment zeroed (it legitimately depends on the physical table order)."""
    T = dict(T)
    if b"head" in T:
        T[b"head"] = T[b"head"][:8] + b"\0\0\0\0" + T[b"head"][12:]
    return T


def save_bytes(font, flavor=None, reorderTables=True, flavorData=None):
    font.flavor, font.flavorData = flavor, flavorData
    buf = io.BytesIO()
    font.save(buf, reorderTables=reorderTables)
    return buf.getvalue()


def gen_glyf_font(rnd, lsb_is_xmin=False, mono_tail=0, vertical=True, nsimple=5, prefix=""):
    """Random TrueType font: empty glyphs, degenerate (single point) glyphs, plain / scaled / 2x2 /
    point-matched / nested composites, arbitrary (negative) side bearings.  All stored bounding
    boxes and header fields start out wrong so that only a recalculation can make them right."""
    from fontTools.fontBuilder import FontBuilder
    from fontTools.ttLib.tables._g_l_y_f import Glyph, GlyphComponent, GlyphCoordinates
    from fontTools.ttLib.tables import ttProgram

    glyphs, order = {}, []

    def add(name, g):
        name = name if name == ".notdef" else prefix + name
        g.xMin = g.yMin = g.xMax = g.yMax = 7777 if g.numberOfContours else 0
        glyphs[name] = g
        order.append(name)

    def simple(contours):
        g = Glyph()
        pts = [p for c in contours for p in c]
        g.numberOfContours = len(contours)
        g.coordinates = GlyphCoordinates([(x, y) for x, y, _ in pts])
        g.flags = bytearray(on for _, _, on in pts)
        g.endPtsOfContours, n = [], 0
        for c in contours:
            n += len(c)
            g.endPtsOfContours.append(n - 1)
        g.program = ttProgram.Program()
        g.program.fromBytecode(bytes(rnd.randrange(256) for _ in range(rnd.choice((0, 0, 3)))))
        return g

    def comp(base, x=0, y=0, m=None, flags=0x4, pts=None):
        c = GlyphComponent()
        c.glyphName, c.flags = (base if base.startswith(prefix) else prefix + base), flags
        if pts:
            c.firstPt, c.secondPt = pts
        else:
            c.x, c.y = x, y
        if m:
            c.transform = [[m[0] / 16384, m[1] / 16384], [m[2] / 16384, m[3] / 16384]]
        return c

    def composite(*cs):
        g = Glyph()
        g.numberOfContours, g.components = -1, list(cs)
        return g

    def rc(lo=-400, hi=1400):
        return rnd.choice((rnd.randint(lo, hi), rnd.randint(-60, 60), rnd.randint(-130, 130)))

    add(".notdef", simple([[(50, 0, 1), (50, 700, 1), (450, 700, 1), (450, 0, 1)]]))
    add("space", Glyph())
    add("dot", simple([[(rc(), rc(), 1)]]))                          # degenerate one-point glyph
    add("big", simple([[(rnd.randint(-16000, 16000), rnd.randint(-16000, 16000), rnd.random() < .5) for _ in range(6)]]))
    names = []
    for k in range(nsimple):
        cs = [[(rc(), rc(), rnd.random() < .6) for _ in range(rnd.choice((1, 2, 3, 4, 7)))] for _ in range(rnd.randint(1, 3))]
        add("s%d" % k, simple(cs))
        names.append(prefix + "s%d" % k)
    f2 = lambda: rnd.choice((16384, 8192, -16384, 20480, rnd.randint(-32768, 32767), rnd.randint(-9000, 9000)))
    add("c_shift", composite(comp(names[0], rc(), rc()), comp(names[1], rc(-100, 100), rc(-100, 100), flags=0x204)))
    add("c_empty", composite(comp("space", 10, 20), comp(names[2], rc(), rc())))
    add("c_dot", composite(comp(names[0], rc(), rc()), comp("dot", rc(), rc())))
    add("c_only_empty", composite(comp("space", 30, 40)))
    add("c_scale", composite(comp(names[1], rc(), rc(), (lambda s: (s, 0, 0, s))(f2()))))
    add("c_xy", composite(comp(names[2], rc(), rc(), (f2(), 0, 0, f2())), comp(names[0], rc(), rc())))
    add("c_2x2", composite(comp(names[3 % nsimple], rc(), rc(), (f2(), f2(), f2(), f2()))))
    add("c_scaledoff", composite(comp(names[0], rc(), rc(), (f2(), 0, 0, f2()), flags=0x800),
                                 comp(names[1], rc(), rc(), (f2(), f2(), f2(), f2()), flags=0x1000)))
    n0 = len(glyphs[names[0]].coordinates)
    n1 = len(glyphs[names[1]].coordinates)
    add("c_anchor", composite(comp(names[0], rc(), rc()), comp(names[1], pts=(rnd.randrange(n0), rnd.randrange(n1))),
                              comp(names[2], m=(f2(), 0, 0, f2()), pts=(rnd.randrange(n0 + n1), 0))))
    add("c_nest1", composite(comp("c_shift", rc(), rc()), comp("c_dot", rc(), rc())))
    add("c_nest2", composite(comp("c_nest1", rc(), rc(), (lambda s: (s, 0, 0, s))(f2())), comp(names[-1], 0, 0)))
    add("c_nest3", composite(comp("c_nest2", rc(-50, 50), rc(-50, 50))))
    for k in range(mono_tail):
        add("t%d" % k, simple([[(rc(), rc(), 1), (rc(), rc(), 1), (rc(), rc(), 0)]]) if k % 2 else Glyph())
    rnd.shuffle(order)
    order.remove(".notdef")
    order.insert(0, ".notdef")

    fb = FontBuilder(unitsPerEm=1000, isTTF=True)
    fb.setupGlyphOrder(order)
    fb.setupCharacterMap({0x41 + i: n for i, n in enumerate(order[1:])})
    fb.setupGlyf(glyphs, calcGlyphBounds=False)
    tail = set(order[len(order) - mono_tail:]) if mono_tail else set()
    if lsb_is_xmin:                       # needs real boxes: compute them with fontTools once, then spoil them again
        for n in order:
            glyphs[n].recalcBounds(fb.font["glyf"])
    hm = {}
    for n in order:
        adv = 555 if n in tail else rnd.choice((0, 500, rnd.randint(0, 1500)))
        hm[n] = (adv, glyphs[n].xMin if lsb_is_xmin and glyphs[n].numberOfContours else rnd.randint(-300, 300))
    for g in glyphs.values():
        g.xMin = g.yMin = g.xMax = g.yMax = 7777 if g.numberOfContours else 0
    fb.setupHorizontalMetrics(hm)
    fb.setupHorizontalHeader(ascent=800, descent=-200, advanceWidthMax=1, minLeftSideBearing=1, minRightSideBearing=1,
                             xMaxExtent=1, numberOfHMetrics=1)
    if vertical:
        fb.setupVerticalMetrics({n: (1000 if n in tail else rnd.randint(0, 1200), rnd.randint(-200, 300)) for n in order})
        fb.setupVerticalHeader(ascent=500, descent=-500, advanceHeightMax=1, minTopSideBearing=1, minBottomSideBearing=1,
                               yMaxExtent=1, numberOfVMetrics=1)
    fb.setupNameTable({"familyName": "C04", "styleName": "Gen"})
    fb.setupOS2()
    fb.setupPost()
    font = fb.font
    font["head"].xMin = font["head"].yMin = font["head"].xMax = font["head"].yMax = 1
    for a in ("maxPoints", "maxContours", "maxCompositePoints", "maxCompositeContours", "maxComponentElements", "maxComponentDepth"):
        setattr(font["maxp"], a, 9)
    font.recalcTimestamp = False
    return font


def _cubic_extrema(p0, p1, p2, p3):
    """Parameters in (0,1) where the derivative of a 1-D cubic vanishes."""
    a, b, c = -p0 + 3 * p1 - 3 * p2 + p3, 2 * (p0 - 2 * p1 + p2), -p0 + p1
    if abs(a) < 1e-12:
        return [-c / b] if abs(b) > 1e-12 and 0 < -c / b < 1 else []
    disc = b * b - 4 * a * c
    if disc < 0:
        return []
    r = math.sqrt(disc)
    return [t for t in ((-b + r) / (2 * a), (-b - r) / (2 * a)) if 0 < t < 1]


def outline_bounds(recording):
    """Bounds (xMin, yMin, xMax, yMax as floats) of pen commands using only moveTo/lineTo/curveTo, and
    whether a bound is a solved curve extremum so close to an integer that float noise could flip its
    floor/ceil; (None, False) for an empty outline.  On-curve points are exact."""
    xs, ys, cur = [], [], None                       # entries (value, solved?)
    for op, args in recording:
        if op in ("moveTo", "lineTo"):
            cur = args[0]
            xs.append((cur[0], False)); ys.append((cur[1], False))
        elif op == "curveTo":
            pts = [cur] + list(args)
            for dim, acc in ((0, xs), (1, ys)):
                v = [p[dim] for p in pts]
                acc.append((v[3], False))
                for t in _cubic_extrema(*v):
                    acc.append(((1 - t) ** 3 * v[0] + 3 * (1 - t) ** 2 * t * v[1] + 3 * (1 - t) * t * t * v[2] + t ** 3 * v[3], True))
            cur = args[-1]
        elif op == "qCurveTo":
            raise NotImplementedError(op)
    if not xs:
        return None, False
    sides = [min(xs), min(ys), max(xs), max(ys)]
    return tuple(v for v, _ in sides), any(solved and abs(v - round(v)) < 1e-6 for v, solved in sides)


def gen_cff_font(rnd, cff2=False, nglyphs=7, vertical=True):
    """CFF / CFF2 font whose outlines have FRACTIONAL extremes (16.16 operands), lines and curves,
    arbitrary hmtx side bearings (negative too), one empty glyph."""
    from fontTools.fontBuilder import FontBuilder
    from fontTools.pens.t2CharStringPen import T2CharStringPen

    def q():
        return rnd.choice((rnd.randint(-300, 1300), rnd.randint(-300 * 8, 1300 * 8) / 8, rnd.randint(-20, 20) + rnd.choice((.25, .5, .75, .125))))

    order = [".notdef", "space"] + ["g%d" % i for i in range(nglyphs)]
    cs = {}
    for n in order:
        pen = T2CharStringPen(None if cff2 else rnd.randint(0, 1000), None, roundTolerance=0, CFF2=cff2)
        if n != "space":
            for _ in range(rnd.randint(1, 2)):
                pen.moveTo((q(), q()))
                for _ in range(rnd.randint(1, 4)):
                    if rnd.random() < .5:
                        pen.lineTo((q(), q()))
                    else:
                        pen.curveTo((q(), q()), (q(), q()), (q(), q()))
                pen.closePath()
        cs[n] = pen.getCharString()
    fb = FontBuilder(unitsPerEm=1000, isTTF=False)
    fb.setupGlyphOrder(order)
    fb.setupCharacterMap({0x41 + i: n for i, n in enumerate(order[1:])})
    if cff2:
        fb.setupCFF2(cs)
    else:
        fb.setupCFF("C04-Gen", {"FullName": "C04 Gen"}, cs, {})
    fb.setupHorizontalMetrics({n: (rnd.randint(0, 1500), rnd.randint(-300, 300)) for n in order})
    fb.setupHorizontalHeader(ascent=800, descent=-200, advanceWidthMax=1, minLeftSideBearing=1, minRightSideBearing=1, xMaxExtent=1)
    if vertical:
        fb.setupVerticalMetrics({n: (rnd.randint(0, 1200), rnd.randint(-200, 300)) for n in order})
        fb.setupVerticalHeader(ascent=500, descent=-500, advanceHeightMax=1, minTopSideBearing=1, minBottomSideBearing=1, yMaxExtent=1)
    fb.setupNameTable({"familyName": "C04", "styleName": "Gen"})
    fb.setupOS2()
    fb.setupPost()
    # a freshly built CFF2 font does not compile identically twice (the first compile leaves a 'charset' key behind):
    # go through bytes once so that the flavour comparisons start from a font read from a file, then spoil every
    # recomputed field so that only a recalculation can make it right
    from fontTools.ttLib import TTFont
    buf = io.BytesIO()
    fb.font.save(buf)
    font = TTFont(io.BytesIO(buf.getvalue()), recalcTimestamp=False)
    font.ensureDecompiled()
    font["head"].xMin = font["head"].yMin = font["head"].xMax = font["head"].yMax = 1
    for tag, names in (("hhea", ("advanceWidthMax", "minLeftSideBearing", "minRightSideBearing", "xMaxExtent")),
                       ("vhea", ("advanceHeightMax", "minTopSideBearing", "minBottomSideBearing", "yMaxExtent"))):
        for a in names if tag in font else ():
            setattr(font[tag], a, 1)
    if "CFF " in font:
        font["CFF "].cff.topDictIndex[0].FontBBox = [1, 1, 1, 1]
    return font


def cff_charstring_count(d, cff2):
    """Number of charstrings in a 'CFF ' / 'CFF2' table, read from the raw bytes (Adobe TN 5176 / CFF2 spec)."""
    def index_end(p, wide):
        n = struct.unpack_from(">L" if wide else ">H", d, p)[0]
        p += 4 if wide else 2
        if n == 0:
            return n, p, p
        osz = d[p]
        last = int.from_bytes(d[p + 1 + n * osz:p + 1 + (n + 1) * osz], "big")
        first = p + 1 + (n + 1) * osz - 1
        return n, first + int.from_bytes(d[p + 1:p + 1 + osz], "big"), first + last

    if cff2:
        start, end = d[2], d[2] + _u16(d, 3)
    else:
        _, _, p = index_end(d[2], False)              # Name INDEX
        _, start, end = index_end(p, False)             # Top DICT INDEX (one font): its data
    p, stack = start, []
    while p < end:
        b0 = d[p]
        if b0 <= 21:
            op = b0 if b0 != 12 else 1200 + d[p + 1]
            p += 1 if b0 != 12 else 2
            if op == 17:
                return index_end(stack[-1], cff2)[0]
            stack = []
        elif b0 == 28:
            stack.append(_i16(d, p + 1)); p += 3
        elif b0 == 29:
            stack.append(struct.unpack_from(">l", d, p + 1)[0]); p += 5
        elif b0 == 30:
            p += 1
            while d[p] & 0x0F != 0x0F and d[p] >> 4 != 0x0F:
                p += 1
            p += 1
            stack.append(None)
        elif b0 <= 246:
            stack.append(b0 - 139); p += 1
        elif b0 <= 250:
            stack.append((b0 - 247) * 256 + d[p + 1] + 108); p += 2
        else:
            stack.append(-(b0 - 251) * 256 - d[p + 1] - 108); p += 2
    raise ValueError("no CharStrings operator in Top DICT")


def check_cff_derived(data):
    """Saved CFF/CFF2 sfnt bytes: head bbox and hhea/vhea extents against bounds computed from the
    outlines HarfBuzz draws from the same bytes (integer box = floor of minima / ceil of maxima)."""
    import uharfbuzz as hb
    from fontTools.pens.recordingPen import RecordingPen
    _, T, _, _, P = read_sfnt(data)
    face = hb.Face(data)
    font = hb.Font(face)
    num, boxes, fuzzy = _u16(T[b"maxp"], 4), [], False
    for gid in range(num):
        pen = RecordingPen()
        font.draw_glyph_with_pen(gid, pen)
        b, fz = outline_bounds(pen.value)
        fuzzy = fuzzy or fz
        boxes.append(None if b is None else (math.floor(b[0]), math.floor(b[1]), math.ceil(b[2]), math.ceil(b[3])))
    if fuzzy:
        return None
    # a bare moveto (contour without any segment) is dropped by HarfBuzz but kept by fontTools' pens; whether such a
    # point belongs to the bounding box is not specified: fonts containing one are outside this oracle
    from fontTools.ttLib import TTFont
    gs = TTFont(io.BytesIO(data)).getGlyphSet()
    for name in gs.keys():
        pen = RecordingPen()
        gs[name].draw(pen)
        ops = [op for op, _ in pen.value]
        if any(a == "moveTo" and b in ("closePath", "endPath") for a, b in zip(ops, ops[1:])):
            return None
    ncs = cff_charstring_count(T[b"CFF2"], True) if b"CFF2" in T else cff_charstring_count(T[b"CFF "], False)
    if ncs != num:
        P.append("maxp.numGlyphs %d but the CharStrings INDEX has %d entries" % (num, ncs))
    bs = [b for b in boxes if b is not None]
    exp = (min(b[0] for b in bs), min(b[1] for b in bs), max(b[2] for b in bs), max(b[3] for b in bs)) if bs else None
    got = struct.unpack_from(">hhhh", T[b"head"], 36)
    if exp is not None and got != exp:
        P.append("head bbox %r, floor/ceil of the union of outline bounds %r" % (got, exp))
    _check_header_metrics(P, "hhea", T[b"hhea"], T[b"hmtx"], num, boxes, 0)
    if b"vhea" in T:
        _check_header_metrics(P, "vhea", T[b"vhea"], T[b"vmtx"], num, boxes, 1)
    return P


# ------------------------------------------------------------------ checks
def _physical_order_problem(order, reorder, original):
    tags = sorted(order)
    if reorder is True:
        if b"DSIG" in tags:
            tags.remove(b"DSIG"); tags.append(b"DSIG")
        pref = OTF_ORDER if b"CFF " in tags else TTF_ORDER
        want = [t for t in pref if t in tags] + [t for t in tags if t not in pref]
        if order != want:
            return "reorderTables=True: physical order %r, recommended order %r" % (order, want)
    elif reorder is False and original is not None:
        want = [t for t in original if t in tags] + [t for t in tags if t not in original]
        if order != want:
            return "reorderTables=False: physical order %r, original order %r" % (order, want)
    return None


@check("C04")
def sfnt_container_invariants(tier, rnd):
    """Plain sfnt output of TTFont.save: directory sorted by tag, search fields, per-table checksums,
    whole-file checksum B1B0AFBA, 4-byte aligned / zero padded / gap-free / non-overlapping tables,
    and the physical table order promised by reorderTables (True: OpenType recommended order, False:
    order of the file the font was read from, None: any).  Fonts are saved both as lazily loaded
    pass-through and fully decompiled; generated fonts with 12..51 tables (quick) cover both sides of
    the powers of two 16 and 32 (thorough: 64, 128) for the search fields."""
    from fontTools.ttLib import TTFont, newTable
    r = Result("corpus fonts x {pass-through, fully decompiled} x reorderTables {True, False, None} + generated fonts with "
               "0..39 (thorough 0..139) extra tables of lengths 0..9 / 4096 / 4097 (all residues mod 4); "
               "distinct = (font, mode, reorder) / (table count, reorder)")
    fonts = []
    for p in corpus_paths(tier):
        for mode in ("lazy", "full"):
            fonts.append((os.path.basename(p), mode, p))
    for name, mode, p in fonts:
        if mode == "full" and name in LAZY_ONLY:
            continue
        for reorder in (True, False, None):
            r.case((name, mode, reorder))
            f = TTFont(p, recalcTimestamp=False)
            original = [t.encode("latin-1") if isinstance(t, str) else t for t in f.reader.keys()]
            if mode == "full":
                f.ensureDecompiled()
            try:
                data = save_bytes(f, None, reorder)
            except Exception as ex:
                r.fail("save(%s, %s, reorderTables=%r) raised %s: %s" % (name, mode, reorder, type(ex).__name__, ex))
                continue
            ver, T, order, _, P = read_sfnt(data)
            if set(T) != set(original):
                P.append("tables %r, expected %r" % (sorted(T), sorted(original)))
            op = _physical_order_problem(order, reorder, original if f.reader.flavor is None else None)
            for msg in P + ([op] if op else []):
                r.fail("%s [%s, reorderTables=%r]: %s" % (name, mode, reorder, msg))
    nextra = list(range(0, 40)) if tier == "quick" else list(range(0, 140))
    for k in nextra:
        f = gen_glyf_font(rnd, nsimple=4, vertical=bool(k % 2))
        for j in range(k):
            t = newTable("Z%03d" % j if j % 3 else "z%02x " % j)
            t.data = bytes(rnd.randrange(256) for _ in range(rnd.choice((0, 1, 2, 3, 4, 5, 6, 7, 9, 4096, 4097))))
            f[t.tableTag] = t
        for reorder in (True, None, False):
            r.case(("generated", len(f.keys()) - 1, reorder))
            data = save_bytes(f, None, reorder)
            ver, T, order, _, P = read_sfnt(data)
            op = _physical_order_problem(order, reorder, None)
            for msg in P + ([op] if op else []):
                r.fail("generated font with %d tables, reorderTables=%r: %s" % (len(T), reorder, msg))
    r.sample({"font": "TestTTF.ttf", "tables": len(T)})
    return r


def _woff_flavor_data(rnd, kind, cls):
    fd = cls()
    if kind & 1:
        fd.metaData = b"<?xml version='1.0'?><metadata version='1.0'>" + bytes(rnd.choice(b"abc <>/") for _ in range(rnd.randint(1, 300))) + b"</metadata>"
    if kind & 2:
        fd.privData = bytes(rnd.randrange(256) for _ in range(rnd.randint(1, 41)))
    if kind & 4:
        fd.majorVersion, fd.minorVersion = rnd.randint(1, 60000), rnd.randint(0, 60000)
    return fd


@check("C04")
def woff_container_and_content(tier, rnd):
    """WOFF output: header (length, totalSfntSize, reserved, version = flavorData version or
    head.fontRevision), directory sorted by tag, aligned zero padded blocks in order tables /
    metadata / private data, every table inflates to origLength with origChecksum, the sfnt a
    decoder rebuilds has a correct whole-file checksum, and every table is byte-identical to the
    plain sfnt save of the same font (changing the flavour changes no table content)."""
    from fontTools.ttLib import TTFont
    from fontTools.ttLib.sfnt import WOFFFlavorData
    r = Result("corpus + generated glyf/CFF fonts x flavorData kinds {none, metadata, private, both, explicit version} x "
               "reorderTables; distinct = (font, flavorData kind, reorder)")
    sources = [(os.path.basename(p), (lambda p=p: TTFont(p, recalcTimestamp=False))) for p in corpus_paths(tier)]
    for i in range(12 if tier == "quick" else 150):
        sources.append(("gen-glyf-%d" % i, lambda: gen_glyf_font(rnd, lsb_is_xmin=rnd.random() < .5)))
        sources.append(("gen-cff-%d" % i, lambda i=i: gen_cff_font(rnd, cff2=bool(i % 2))))
    for k, (name, make) in enumerate(sources):
        f = make()
        if "gen" in name or (k % 2 and name not in LAZY_ONLY):
            f.ensureDecompiled()
        plain = _no_adj(read_sfnt(save_bytes(f, None, True))[1])
        for kind in ((0, 3, 7) if tier == "quick" else range(8)):
            for reorder in (True, None):
                r.case((name, kind, reorder))
                fd = _woff_flavor_data(rnd, kind, WOFFFlavorData) if kind else None
                data = save_bytes(f, "woff", reorder, fd)
                info, P = read_woff(data)
                got = _no_adj(info["tables"])
                if got != plain:
                    bad = [t for t in set(plain) | set(got) if plain.get(t) != got.get(t)]
                    P.append("tables %r differ from the plain sfnt save" % sorted(bad))
                want = (fd.majorVersion, fd.minorVersion) if kind & 4 else struct.unpack_from(">HH", plain[b"head"], 4)
                if info["version"] != tuple(want):
                    P.append("WOFF version %r, expected %r" % (info["version"], tuple(want)))
                if info["meta"] != (fd.metaData if kind & 1 else None) or info["priv"] != (fd.privData if kind & 2 else None):
                    P.append("metadata / private data not stored as given")
                for msg in P:
                    r.fail("%s [woff, flavorData kind %d, reorderTables=%r]: %s" % (name, kind, reorder, msg))
    r.sample({"font": name, "woff_bytes": len(data)})
    return r


def _same_glyph(a, b):
    if a is None or b is None:
        return a is b
    return all(a[k] == b[k] for k in ("nc", "bbox", "end", "pts", "overlap", "comps")) and bytes(a["instr"]) == bytes(b["instr"])


@check("C04")
def woff2_container_and_glyph_normalisation(tier, rnd):
    """WOFF2 output, read by an independent WOFF2 reader (header, variable-length directory, Brotli
    stream, transformed glyf/loca/hmtx decoders written from the spec): header fields consistent;
    loca follows glyf; every untransformed table except head is byte-identical to the plain sfnt
    save (DSIG is dropped, as specified); head differs only in flags bit 11 and checkSumAdjustment;
    the decoded glyphs (contours, points, on-curve flags, overlap bit, instructions, bounding boxes,
    components) equal those parsed from the plain save; a transformed hmtx reconstructs to the plain
    hmtx; with the null transform / for CFF fonts the checkSumAdjustment matches the rebuilt sfnt;
    the WOFF2 version is the flavorData version when given, else head.fontRevision."""
    from fontTools.ttLib import TTFont
    from fontTools.ttLib.woff2 import WOFF2FlavorData
    r = Result("corpus + generated glyf/CFF fonts x transformedTables {default, none, glyf+loca+hmtx} x flavorData "
               "{none, metadata+private, explicit version}; distinct = (font, transforms, flavorData kind)")
    sources = [(os.path.basename(p), (lambda p=p: TTFont(p, recalcTimestamp=False))) for p in corpus_paths(tier)]
    for i in range(16 if tier == "quick" else 200):
        sources.append(("gen-glyf-%d" % i, lambda i=i: gen_glyf_font(rnd, lsb_is_xmin=bool(i % 2), mono_tail=(0, 3, 1)[i % 3])))
        sources.append(("gen-glyf-keepboxes-%d" % i, lambda i=i: gen_glyf_font(rnd, mono_tail=i % 2)))
        sources.append(("gen-cff-%d" % i, lambda i=i: gen_cff_font(rnd, cff2=bool(i % 2))))
        # glyph records not padded to 4 bytes in the plain save (glyf.padding 0/1/2): the WOFF2 writer
        # re-pads them, which can flip the loca format - head must follow what is stored
        sources.append(("gen-glyf-pad%d-%d" % ((0, 1, 2)[i % 3], i), lambda i=i: gen_glyf_font(rnd, nsimple=5 + i % 3)))
    for k, (name, make) in enumerate(sources):
        f = make()
        if "gen" in name or (k % 2 and name not in LAZY_ONLY):
            f.ensureDecompiled()
        if "-pad" in name:
            f["glyf"].padding = int(name.split("-pad")[1][0])
        f.recalcBBoxes = "keepboxes" not in name          # wrong stored boxes must survive as explicit WOFF2 boxes
        plain = read_sfnt(save_bytes(f, None, True))[1]
        is_tt = b"glyf" in plain
        pg = read_glyphs(plain)[1] if is_tt else None
        cubic = is_tt and any(g and g.get("cubic") for g in pg)
        for transforms in (None, (), ("glyf", "loca", "hmtx")):
            for kind in (0, 3, 4):
                if kind and (k + len(transforms or "x")) % 3 and tier == "quick":
                    continue
                r.case((name, transforms, kind))
                fd = _woff_flavor_data(rnd, kind, WOFF2FlavorData)
                if transforms is not None:
                    fd.transformedTables = set(transforms)
                try:
                    data = save_bytes(f, "woff2", True, fd)
                    info, P = read_woff2(data)
                except Exception as ex:
                    r.fail("%s: woff2 save/independent read raised %s: %s" % (name, type(ex).__name__, ex))
                    continue
                if info is None:
                    for msg in P:
                        r.fail("%s: %s" % (name, msg))
                    continue
                E = {t: (tr, ol, b) for t, tr, ol, b in info["entries"]}
                tags = [e[0] for e in info["entries"]]
                if tags != sorted(tags):
                    P.append("WOFF2 tables not sorted by tag (fontTools promises it): %r" % tags)
                if set(E) != set(plain) - {b"DSIG"}:
                    P.append("table set %r differs from plain save" % sorted(E))
                for t, (tr, ol, b) in E.items():
                    if t == b"head":
                        hp = plain[t]
                        want = hp[:8] + b[8:12] + hp[12:16] + struct.pack(">H", _u16(hp, 16) | 0x800) + hp[18:50] + b[50:52] + hp[52:]
                        if b != want:
                            P.append("head differs from plain save in more than flags bit 11 / checkSumAdjustment / indexToLocFormat")
                    elif not tr and t not in (b"glyf", b"loca") and b != plain.get(t):
                        P.append("%r content differs from the plain sfnt save" % t)
                if is_tt and not cubic:
                    try:
                        P.extend(_compare_woff2_glyphs(E, plain, pg))
                    except (AssertionError, struct.error, IndexError) as ex:
                        P.append("transformed glyf/hmtx does not decode: %s" % ex)
                if not any(tr for tr, _, _ in E.values()):
                    sf = rebuild_sfnt(info["ver"], [(t, E[t][2]) for t in tags])
                    if _sum32(sf) != MAGIC:
                        P.append("checkSumAdjustment wrong for the sfnt a WOFF2 decoder reconstructs (no transformed tables)")
                if info["meta"] != (fd.metaData if kind & 1 else None) or info["priv"] != (fd.privData if kind & 2 else None):
                    P.append("metadata / private data not stored as given")
                for msg in P:
                    r.fail("%s [woff2 transforms=%r kind=%d]: %s" % (name, transforms, kind, msg))
                want = (fd.majorVersion, fd.minorVersion) if kind & 4 else struct.unpack_from(">HH", plain[b"head"], 4)
                if info["version"] != tuple(want):
                    r.fail("%s: WOFF2 header version %r, but flavorData says %r (head.fontRevision %r)" % (
                        name, info["version"], tuple(want), struct.unpack_from(">HH", plain[b"head"], 4)),
                        known_id="C04-woff2-flavordata-version-dropped" if kind & 4 else None)
    r.sample({"font": name, "entries": [(t.decode("latin-1"), tr, ol) for t, tr, ol, _ in info["entries"]][:6]})
    return r


def _compare_woff2_glyphs(E, plain, pg):
    P = []
    tr, ol, gb = E[b"glyf"]
    if tr:
        fmt, wg = decode_woff2_glyf(gb)
        if struct.unpack_from(">h", E[b"head"][2], 50)[0] != fmt:
            P.append("head.indexToLocFormat %d contradicts the transformed glyf's indexFormat %d (a decoder rebuilds loca in the latter)" % (
                struct.unpack_from(">h", E[b"head"][2], 50)[0], fmt))
        if E[b"loca"][1] != (len(wg) + 1) * (4 if fmt else 2):
            P.append("loca origLength %d inconsistent with indexFormat %d and %d glyphs" % (E[b"loca"][1], fmt, len(wg)))
    else:
        T = dict(plain)
        T.update({b"glyf": gb, b"loca": E[b"loca"][2], b"head": E[b"head"][2]})
        offs, wg, P2 = read_glyphs(T)
        P.extend(P2)
    if len(wg) != len(pg):
        P.append("%d glyphs in WOFF2, %d in plain save" % (len(wg), len(pg)))
    for i, (a, b) in enumerate(zip(wg, pg)):
        if not _same_glyph(a, b):
            P.append("glyph %d differs between WOFF2 and plain save: %r vs %r" % (i, a, b))
            break
    if b"hmtx" in E and E[b"hmtx"][0]:
        xmins = [g["bbox"][0] if g else 0 for g in wg]
        rec = decode_woff2_hmtx(E[b"hmtx"][2], len(wg), _u16(E[b"hhea"][2], 34), xmins)
        if rec != plain[b"hmtx"]:
            P.append("transformed hmtx does not reconstruct to the plain hmtx")
        if E[b"hmtx"][1] != len(plain[b"hmtx"]):
            P.append("hmtx origLength wrong")
    return P


@check("C04")
def glyf_derived_fields_recomputed(tier, rnd):
    """After save with recalcBBoxes=True every recomputed field equals an independent recomputation
    from the SAVED bytes: per-glyph boxes (exact rational flattening of composites: scaled, 2x2,
    scaled-offset, point-matched, nested; a stored box must lie within floor..ceil of the exact
    bounds, i.e. be exact for integer bounds), maxp point/contour/component/depth maxima, head box and
    flags bit 1, indexToLocFormat minimal and loca consistent, glyph offsets honouring glyf.padding,
    hhea/vhea advance max, min side bearings, max extent and minimal long-metric counts.  With
    recalcBBoxes=False none of these fields may be touched.  All fields start out wrong."""
    from fontTools.ttLib import TTFont
    r = Result("generated glyf fonts (empty glyphs, one-point glyphs, 9 composite kinds, random negative bearings, "
               "equal-advance tails) x padding {0,1,2,4} x flavour {None, woff, woff2}; corpus glyf fonts fully "
               "decompiled; distinct = (source, padding, flavour, lsb=xMin?, tail)")
    n = 240 if tier == "quick" else 3000
    for i in range(n):
        lsbx, tail, padding = rnd.random() < .35, rnd.choice((0, 1, 2, 5)), (0, 1, 2, 4)[(i // 4) % 4]
        flavor = (None, None, "woff", "woff2")[i % 4]
        f = gen_glyf_font(rnd, lsb_is_xmin=lsbx, mono_tail=tail, vertical=bool(i % 5), nsimple=rnd.randint(4, 7))
        f["glyf"].padding = padding
        r.case(("gen", padding, flavor, lsbx, tail))
        data = save_bytes(f, flavor, (True, None)[i % 2])
        if flavor is None:
            _, T, _, _, P = read_sfnt(data)
            P = P + check_glyf_derived(T, padding=padding)
        elif flavor == "woff":
            info, P = read_woff(data)
            P = P + check_glyf_derived(info["tables"], padding=padding)
        else:                               # the glyphs as an independent WOFF2 decoder sees them
            info, P = read_woff2(data)
            E = {t: b for t, tr, ol, b in info["entries"]}
            P = P + check_glyf_derived(E, glyphs=decode_woff2_glyf(E[b"glyf"])[1])
        report(r, "generated glyf font #%d (padding %d, flavour %s)" % (i, padding, flavor), P)
    for p in corpus_paths(tier, decompilable=True):
        f = TTFont(p, recalcTimestamp=False)
        if "glyf" not in f:
            continue
        f.ensureDecompiled()
        for padding in (0, 1, 2, 4):
            r.case((os.path.basename(p), padding))
            f["glyf"].padding = padding
            _, T, _, _, P = read_sfnt(save_bytes(f, None, True))
            report(r, "%s (decompiled, padding %d)" % (os.path.basename(p), padding), P + check_glyf_derived(T, padding=padding))
    # a font READ BACK lazily (glyphs still packed as raw data): stored wrong boxes are repaired on save, and
    # a composite left untouched still gets the box of its EDITED base
    for i in range(24 if tier == "quick" else 300):
        f = gen_glyf_font(rnd, mono_tail=i % 3, nsimple=rnd.randint(4, 7))
        f.recalcBBoxes = False
        wrong = save_bytes(f, None, True)            # every stored box is the generator's deliberately wrong one
        lazy = (None, True, False)[i % 3]
        g = TTFont(io.BytesIO(wrong), lazy=lazy, recalcTimestamp=False)
        edit = i % 2
        r.case(("reloaded", lazy, edit))
        for tag in ("head", "maxp", "hhea", "vhea", "hmtx", "vmtx", "loca", "glyf"):
            if tag in g:
                g[tag]                                # a table that is never loaded is copied, not recomputed
        if edit:
            glyf = g["glyf"]
            used = {c.glyphName for n in glyf.keys() if glyf[n].isComposite() for c in glyf[n].components}
            simple_bases = [n for n in sorted(used) if glyf[n].numberOfContours > 0]
            if simple_bases:
                base = glyf[rnd.choice(simple_bases)]
                base.coordinates.translate((rnd.randint(-900, 900), rnd.randint(-900, 900)))
        _, T, _, _, P = read_sfnt(save_bytes(g, None, True))
        report(r, "generated glyf font #%d reloaded (lazy=%s, base edited=%d)" % (i, lazy, edit), P + check_glyf_derived(T, padding=None))
    # recalcBBoxes=False: nothing recomputed, stored (deliberately wrong) values survive
    for i in range(6 if tier == "quick" else 40):
        f = gen_glyf_font(rnd, mono_tail=i % 3)
        f.recalcBBoxes = False
        r.case(("norecalc", i % 3))
        T = read_sfnt(save_bytes(f, None, True))[1]
        glyphs = read_glyphs(T)[1]
        if struct.unpack_from(">hhhh", T[b"head"], 36) != (1, 1, 1, 1) or list(struct.unpack_from(">4H", T[b"maxp"], 6)) != [9] * 4 \
                or any(g and g["bbox"] != (7777,) * 4 for g in glyphs) or struct.unpack_from(">Hhhh", T[b"hhea"], 10) != (1, 1, 1, 1):
            r.fail("recalcBBoxes=False but stored boxes / maxp / hhea extents were modified on save")
    r.sample({"generated_fonts": n})
    return r


@check("C04")
def cff_derived_fields_fractional(tier, rnd):
    """CFF and CFF2 fonts whose outlines have fractional extremes: after save, head's box is
    (floor, floor, ceil, ceil) of the union of the true outline bounds and hhea/vhea advance max, min
    side bearings and max extent follow from hmtx/vmtx and each glyph's integer box
    (floor(min)..ceil(max)).  Outlines are obtained from the saved bytes with HarfBuzz; curve extrema
    are solved independently.  For CFF the TopDict FontBBox must equal head's box."""
    from fontTools.ttLib import TTFont
    r = Result("generated CFF and CFF2 fonts, operands on a 1/8 grid and near-integers n+-1/4, lines and curves, random "
               "(negative) side bearings x flavour {None, woff}; plus corpus CFF fonts decompiled; distinct = (kind, flavour, #glyphs)")
    n = 400 if tier == "quick" else 6000
    for i in range(n):
        cff2, flavor = bool(i % 2), (None, "woff")[(i // 2) % 2]
        f = gen_cff_font(rnd, cff2=cff2, nglyphs=rnd.randint(1, 8), vertical=bool(i % 3))
        data = save_bytes(f, flavor, True)
        if flavor == "woff":
            info, P0 = read_woff(data)
            data = rebuild_sfnt(info["ver"], [(t, info["tables"][t]) for t in info["order"]])
        P = check_cff_derived(data)
        if P is None:                  # a solved curve extremum within 1e-6 of an integer: oracle undecided, not counted
            continue
        r.case(("CFF2" if cff2 else "CFF", flavor, len(f.getGlyphOrder())))
        if not cff2:
            g = TTFont(io.BytesIO(data))
            if tuple(g["CFF "].cff.topDictIndex[0].FontBBox) != struct.unpack_from(">hhhh", read_sfnt(data)[1][b"head"], 36):
                P.append("CFF FontBBox %r != head bbox" % (g["CFF "].cff.topDictIndex[0].FontBBox,))
        for msg in P:
            r.fail("generated %s font #%d: %s" % ("CFF2" if cff2 else "CFF", i, msg))
    for p in corpus_paths(tier):
        f = TTFont(p, recalcTimestamp=False)
        if "glyf" in f:
            continue
        f.ensureDecompiled()
        P = check_cff_derived(save_bytes(f, None, True))
        if P is not None:
            r.case((os.path.basename(p),))
        for msg in P or []:
            r.fail("%s (decompiled): %s" % (os.path.basename(p), msg))
    r.sample({"generated_fonts": n})
    return r


def _read_ttc(data):
    P = []
    tag, version, n = struct.unpack_from(">4sLL", data, 0)
    if tag != b"ttcf" or version not in (0x10000, 0x20000):
        P.append("bad TTC header")
    offs = struct.unpack_from(">%dL" % n, data, 12)
    hdr_end = 12 + 4 * n + (12 if version == 0x20000 else 0)
    fonts, covered = [], [(0, hdr_end)]
    if version == 0x20000:
        dtag, dlen, doff = struct.unpack_from(">4sLL", data, 12 + 4 * n)
        if dtag == b"DSIG":
            covered.append((doff, doff + dlen))
        elif (dtag, dlen, doff) != (b"\0\0\0\0", 0, 0):
            P.append("TTC v2 DSIG fields inconsistent")
    for o in offs:
        ver, T, order, spans, P1 = read_sfnt(data, o, standalone=False)
        P.extend(P1)
        fonts.append((ver, T, spans))
        covered.append((o, o + 12 + 16 * len(spans)))
        covered.extend((a, a + l) for a, l in spans)
    pos = 0
    for a, b in sorted(set(covered)):
        if a < pos:
            P.append("blocks overlap at %d" % a)
        if data[pos:a].strip(b"\0") or a - pos > 3:
            P.append("gap of %d bytes / non-zero padding before %d" % (a - pos, a))
        pos = max(pos, b)
    if len(data) - pos > 3 or data[pos:].strip(b"\0") or len(data) % 4:
        P.append("trailing bytes after last table")
    return fonts, P


@check("C04")
def ttc_container_and_sharing(tier, rnd):
    """TTCollection.save: 'ttcf' header and offsets, every member directory valid (sorted, search
    fields, checksums, alignment), all blocks disjoint or identical, zero padding, no gaps; member
    tables byte-identical to saving the member alone; with shareTables=True identical tables are
    stored once, with shareTables=False never."""
    from fontTools.ttLib import TTFont, TTCollection
    r = Result("corpus TTCs + collections of 2..4 generated / corpus fonts with partly identical tables x shareTables "
               "{True, False}; distinct = (collection, share)")
    colls = []
    for p in ("Tests/ttx/data/TestTTC.ttc", "Tests/ttx/data/TestTTCv2.ttc"):
        colls.append((os.path.basename(p), lambda p=p: TTCollection(os.path.join(REPO, p), recalcTimestamp=False)))

    def make(k):
        c = TTCollection()
        seed = rnd.random()
        import random
        for j in range(2 + k % 3):
            f = gen_glyf_font(random.Random(seed), mono_tail=k % 3)      # identical fonts ...
            if j % 2:
                f["hmtx"].metrics[".notdef"] = (321 + j, 5)               # ... except some tables
                f["name"].setName("Other %d" % j, 1, 3, 1, 0x409)
            c.fonts.append(f)
        if k % 2:
            c.fonts.append(TTFont(os.path.join(REPO, "Tests/ttx/data/TestOTF.otf"), recalcTimestamp=False))
        return c
    for k in range(12 if tier == "quick" else 120):
        colls.append(("gen-%d" % k, lambda k=k: make(k)))
    for name, mk in colls:
        for share in (True, False):
            r.case((name, share))
            c = mk()
            buf = io.BytesIO()
            c.save(buf, shareTables=share)
            fonts, P = _read_ttc(buf.getvalue())
            alone = [_no_adj(read_sfnt(save_bytes(f, None, True))[1]) for f in c.fonts]
            for i, ((ver, T, spans), A) in enumerate(zip(fonts, alone)):
                T = _no_adj(T)
                if T != A:
                    P.append("member %d tables %r differ from saving the member alone" % (i, sorted(t for t in A if A[t] != T.get(t))))
            seen = {}
            for i, (ver, T, spans) in enumerate(fonts):
                data = buf.getvalue()
                o = struct.unpack_from(">%dL" % len(fonts), data, 12)[i]
                for j in range(_u16(data, o + 4)):
                    tag, cs, off, l = struct.unpack_from(">4sLLL", data, o + 12 + 16 * j)
                    key = (tag, data[off:off + l])
                    if key in seen and (seen[key] == off) != share and l:
                        P.append("table %r of member %d is %sshared with an identical earlier table (shareTables=%r)" % (
                            tag, i, "" if seen[key] == off else "not ", share))
                    seen.setdefault(key, off)
            for msg in P:
                r.fail("%s shareTables=%r: %s" % (name, share, msg))
    r.sample({"collections": len(colls)})
    return r


@check("C04")
def operation_outputs_validate(tier, rnd):
    """Fonts produced by library operations (subset, instantiate, merge, varLib.build, TTX import)
    and then saved in each flavour are valid containers with consistent derived fields."""
    from fontTools.ttLib import TTFont
    from fontTools import subset
    r = Result("subset(corpus glyf/CFF fonts, random glyph subsets) / instancer(I.ttf at random wght) / merge(two generated "
               "fonts) x flavour {None, woff, woff2}; distinct = (operation, font, flavour)")

    def validate(what, f):
        # default settings (recalcTimestamp=True): validity does not depend on the time stamp.  (With
        # recalcTimestamp=False an untouched 'head' is passed through and its box is not refreshed for CFF fonts.)
        for flavor in (None, "woff", "woff2"):
            r.case((what.split(":")[0], what.split(":")[1].split("#")[0], flavor))
            data = save_bytes(f, flavor, True)
            if flavor is None:
                _, T, _, _, P = read_sfnt(data)
            elif flavor == "woff":
                info, P = read_woff(data)
                T = info["tables"]
            else:
                info, P = read_woff2(data)
                T = None
            if T is not None and b"glyf" in T:
                P = P + check_glyf_derived(T)
            elif T is not None and flavor is None and (b"CFF " in T or b"CFF2" in T):
                P = P + (check_cff_derived(data) or [])
            report(r, "%s saved as %s" % (what, flavor), P)

    reps = 4 if tier == "quick" else 40
    for p in corpus_paths(tier):
        base = os.path.basename(p)
        if base in ("Empty.ttf", "graphite_tests.ttf", "Amstelvar-avar2.subset.ttf"):
            continue
        for k in range(reps):
            f = TTFont(p)
            order = f.getGlyphOrder()
            keep = [g for g in order if rnd.random() < (.3, .7)[k % 2]] or order[:1]
            opts = subset.Options(notdef_outline=bool(k % 2), glyph_names=True, retain_gids=bool(k % 3 == 2))
            s = subset.Subsetter(opts)
            s.populate(glyphs=keep)
            try:
                s.subset(f)
            except Exception as ex:
                r.fail("subset:%s#%d raised %s: %s" % (base, k, type(ex).__name__, ex))
                continue
            validate("subset:%s#%d" % (base, k), f)
    from fontTools.varLib import instancer
    for p in ("Tests/ttLib/data/I.ttf", "Tests/ttLib/data/I.otf"):
        for k in range(reps):
            f = TTFont(os.path.join(REPO, p))
            ax = f["fvar"].axes[0]
            v = rnd.choice((ax.minValue, ax.maxValue, rnd.uniform(ax.minValue, ax.maxValue)))
            inst = instancer.instantiateVariableFont(f, {ax.axisTag: v} if k % 2 else {ax.axisTag: (ax.minValue, v)})
            validate("instance:%s#%d" % (os.path.basename(p), k), inst)
    from fontTools.merge import Merger
    import tempfile, shutil
    tmp = tempfile.mkdtemp()
    try:
        for k in range(reps):
            paths = []
            for j in range(2):
                f = gen_glyf_font(rnd, mono_tail=j, vertical=False, prefix="m%d_" % j)
                f.save(os.path.join(tmp, "m%d.ttf" % j))
                paths.append(os.path.join(tmp, "m%d.ttf" % j))
            try:
                merged = Merger().merge(paths)
            except Exception as ex:
                r.fail("merge:generated#%d raised %s: %s" % (k, type(ex).__name__, ex))
                continue
            validate("merge:generated#%d" % k, merged)
    finally:
        shutil.rmtree(tmp, ignore_errors=True)
    return r
