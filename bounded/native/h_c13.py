"""C13 native checks: curve conversion stays within tolerance and keeps masters compatible.

Oracles are written here from the definitions, not taken from the code under test:
* cubic -> quadratic spline: for each of the n equal-parameter pieces of the cubic (control points
  by blossoming) the error curve against the degree-elevated quadratic is a cubic Bezier; it is
  bounded by adaptive subdivision of its control polygon (Bernstein/convex-hull bound) and probed by
  dense sampling.  A violation is only reported with a concrete curve point farther than the
  tolerance.
* quadratic -> cubic: two-sided distance between densely sampled curves and polylines whose own
  flattening error is bounded analytically and added to the tolerance."""
import math

from harness import check, Result


# ---------------------------------------------------------------------------------------
# geometry helpers (complex numbers)
# ---------------------------------------------------------------------------------------

def C(p):
    return complex(p[0], p[1])


def lerp(a, b, t):
    return a + (b - a) * t


def cubic_at(c, t):
    a, b, cc, d = c
    ab, bc, cd = lerp(a, b, t), lerp(b, cc, t), lerp(cc, d, t)
    return lerp(lerp(ab, bc, t), lerp(bc, cd, t), t)


def quad_at(q, t):
    a, b, c = q
    return lerp(lerp(a, b, t), lerp(b, c, t), t)


def blossom3(c, u, v, w):
    a, b, cc, d = c
    ab, bc, cd = lerp(a, b, u), lerp(b, cc, u), lerp(cc, d, u)
    return lerp(lerp(ab, bc, v), lerp(bc, cd, v), w)


def sub_cubic(c, t0, t1):
    return (blossom3(c, t0, t0, t0), blossom3(c, t0, t0, t1), blossom3(c, t0, t1, t1), blossom3(c, t1, t1, t1))


def elevate(q):
    a, b, c = q
    return (a, a + (b - a) * (2.0 / 3.0), c + (b - c) * (2.0 / 3.0), c)


def spline_quads(spline):
    """TrueType-style spline [on, off, off, ..., on] -> list of (p0, p1, p2)."""
    pts = [C(p) if not isinstance(p, complex) else p for p in spline]
    n = len(pts) - 2
    out = []
    start = pts[0]
    for i in range(n):
        off = pts[i + 1]
        end = pts[-1] if i == n - 1 else (pts[i + 1] + pts[i + 2]) * 0.5
        out.append((start, off, end))
        start = end
    return out


def bezier_exceeds(e, tol, depth=0):
    """Error curve e (cubic Bezier control points around the origin).  Returns None when the whole
    curve is certified within tol (control polygon inside the disc), or a value > tol attained BY THE
    CURVE ITSELF; undecidable slivers at the float limit count as within."""
    m = max(abs(e[0]), abs(e[1]), abs(e[2]), abs(e[3]))
    if m <= tol * (1 + 1e-9) + 1e-12:
        return None
    for end in (e[0], e[3]):
        if abs(end) > tol * (1 + 1e-6) + 1e-9:
            return abs(end)
    mid = (e[0] + 3 * (e[1] + e[2]) + e[3]) * 0.125
    if abs(mid) > tol * (1 + 1e-6) + 1e-9:
        return abs(mid)
    if depth >= 40:
        return None
    d3 = (e[3] + e[2] - e[1] - e[0]) * 0.125
    left = (e[0], (e[0] + e[1]) * 0.5, mid - d3, mid)
    right = (mid, mid + d3, (e[2] + e[3]) * 0.5, e[3])
    return bezier_exceeds(left, tol, depth + 1) or bezier_exceeds(right, tol, depth + 1)


def spline_error(cubic, spline, tol, samples=16):
    """None if the quadratic spline is within tol of the cubic along its whole length (piece i of
    the spline against parameter interval [i/n, (i+1)/n] of the cubic), else (distance, piece, where)."""
    quads = spline_quads(spline)
    n = len(quads)
    for i, q in enumerate(quads):
        sc = sub_cubic(cubic, i / n, (i + 1) / n)
        eq = elevate(q)
        e = tuple(a - b for a, b in zip(eq, sc))
        bad = bezier_exceeds(e, tol)
        if bad:
            return (bad, i, "bound")
        for k in range(samples + 1):
            t = k / samples
            d = abs(quad_at(q, t) - cubic_at(cubic, (i + t) / n))
            if d > tol * (1 + 1e-6) + 1e-9:
                return (d, i, "sample t=%g" % t)
    return None


def extent(cc):
    return max(abs(a - b) for a in cc for b in cc)


def finite(pts):
    return all(math.isfinite(x) for p in pts for x in p)


# ---------------------------------------------------------------------------------------
# curve generators
# ---------------------------------------------------------------------------------------

def gen_cubic(rnd, kind, scale=1000.0):
    R = lambda: (rnd.uniform(-scale, scale), rnd.uniform(-scale, scale))
    if kind == "generic":
        return [R(), R(), R(), R()]
    if kind == "smooth":          # a typical font curve: handles along a turning tangent
        p0 = R()
        a = rnd.uniform(0, 2 * math.pi)
        l1, l2, l3 = (rnd.uniform(5, scale / 2) for _ in range(3))
        turn = rnd.uniform(-1.5, 1.5)
        p1 = (p0[0] + l1 * math.cos(a), p0[1] + l1 * math.sin(a))
        p2 = (p1[0] + l2 * math.cos(a + turn / 2), p1[1] + l2 * math.sin(a + turn / 2))
        p3 = (p2[0] + l3 * math.cos(a + turn), p2[1] + l3 * math.sin(a + turn))
        return [p0, p1, p2, p3]
    if kind == "integer":
        I = lambda: (rnd.randint(-1000, 1000), rnd.randint(-1000, 1000))
        return [I(), I(), I(), I()]
    if kind == "point":
        p = R()
        return [p, p, p, p]
    if kind == "p0=p1":
        p = R()
        return [p, p, R(), R()]
    if kind == "p2=p3":
        p = R()
        return [R(), R(), p, p]
    if kind == "p1=p2":
        p = R()
        return [R(), p, p, R()]
    if kind == "p0=p1=p2":
        p = R()
        return [p, p, p, R()]
    if kind == "p1=p2=p3":
        p = R()
        return [R(), p, p, p]
    if kind == "p0=p3":           # closed loop
        p = R()
        return [p, R(), R(), p]
    if kind == "line":            # both handles on the chord (retracted)
        a, b = R(), R()
        return [a, a, b, b]
    if kind == "collinear":
        a, d = C(R()), C(R() )
        ts = [rnd.uniform(-0.5, 1.5) for _ in range(2)]
        pts = [a] + [lerp(a, d, t) for t in ts] + [d]
        return [(p.real, p.imag) for p in pts]
    if kind == "collinear-int":
        x0, dx, dy = rnd.randint(-500, 500), rnd.randint(-20, 20), rnd.randint(-20, 20)
        ks = [0, rnd.randint(-10, 30), rnd.randint(-10, 30), rnd.randint(1, 25)]
        return [(x0 + k * dx, k * dy) for k in ks]
    if kind == "cusp":            # handles cross: p1 beyond p3 side and p2 beyond p0 side
        a, d = C(R()), C(R())
        n = (d - a) * 1j * rnd.uniform(0.2, 1.5)
        return [(z.real, z.imag) for z in (a, d + n, a + n, d)]
    if kind == "loop":
        a, d = C(R()), C(R())
        n = (d - a) * 1j * rnd.uniform(0.5, 3)
        k = rnd.uniform(0.5, 2)
        return [(z.real, z.imag) for z in (a, d + (d - a) * k + n, a - (d - a) * k + n, d)]
    if kind == "s-curve":
        a, d = C(R()), C(R())
        n = (d - a) * 1j * rnd.uniform(0.1, 1.0)
        return [(z.real, z.imag) for z in (a, lerp(a, d, 0.33) + n, lerp(a, d, 0.66) - n, d)]
    if kind == "tiny":
        p = R()
        e = lambda: (p[0] + rnd.uniform(-1e-6, 1e-6), p[1] + rnd.uniform(-1e-6, 1e-6))
        return [p, e(), e(), e()]
    if kind == "near-parallel":   # handles almost parallel: the tangent intersection runs away
        a = C(R())
        v = C(R()) * 0.1
        w = v * complex(1, rnd.choice((1e-9, 1e-6, 1e-3, -1e-6)))
        d = a + v + w + C(R()) * 0.05
        return [(z.real, z.imag) for z in (a, a + v, d - w, d)]
    raise ValueError(kind)


CUBIC_KINDS = ["generic", "smooth", "integer", "point", "p0=p1", "p2=p3", "p1=p2", "p0=p1=p2", "p1=p2=p3", "p0=p3", "line",
               "collinear", "collinear-int", "cusp", "loop", "s-curve", "tiny", "near-parallel"]
TOLERANCES = [0.001, 0.05, 0.5, 1.0, 2.5, 10.0, 100.0]


def perturb(rnd, cubic, amount):
    return [(x + rnd.uniform(-amount, amount), y + rnd.uniform(-amount, amount)) for x, y in cubic]


# ---------------------------------------------------------------------------------------
# 1. one curve
# ---------------------------------------------------------------------------------------

@check("C13")
def curve_to_quadratic_within_tolerance(tier, rnd):
    """curve_to_quadratic(cubic, tol, all_quadratic): the result starts and ends exactly on the cubic's
    end points, has finite coordinates, is a spline of n <= MAX_N quadratics (all_quadratic) or one
    quadratic / the unchanged cubic (not all_quadratic), and every piece stays within tol of the
    corresponding parameter interval of the cubic (sampling + convex-hull bound); when nothing
    fits, ApproxNotFoundError is raised - never another exception, never a worse curve."""
    from fontTools.cu2qu import curve_to_quadratic
    from fontTools.cu2qu.errors import ApproxNotFoundError
    from fontTools.cu2qu import cu2qu as M

    r = Result("18 cubic classes (generic, smooth, integer, coincident control points in every combination, retracted handles, collinear, cusp, loop, "
               "inflection, 1e-6-sized, near-parallel handles) x 7 tolerances 0.001..100 x all_quadratic x coordinate scales 1e0..1e5; "
               "distinct = (class, tolerance, all_quadratic, outcome)")
    rounds = 40 if tier == "quick" else 400
    for kind in CUBIC_KINDS:
        for tol in TOLERANCES:
            for allq in (True, False):
                for _ in range(rounds):
                    scale = rnd.choice((1.0, 100.0, 1000.0, 1000.0, 1e5))
                    cubic = gen_cubic(rnd, kind, scale)
                    cc = [C(p) for p in cubic]
                    try:
                        out = curve_to_quadratic(cubic, tol, all_quadratic=allq)
                    except ApproxNotFoundError:
                        r.case((kind, tol, allq, "error"))
                        # an error is the allowed answer only if the cheapest candidates really do not fit:
                        # (the search is over equal-parameter splits with <= MAX_N pieces, so even a straight line with
                        # retracted handles may legitimately fail at a tight tolerance); a single point must convert
                        if kind == "point" or (allq and extent(cc) <= 1e3 * tol):
                            r.fail("curve_to_quadratic(%r, %r, all_quadratic=%s) raised ApproxNotFoundError although the curve is only %.4g units "
                                   "across: 100 equal pieces approximate it to ~1e-6 of its size" % (cubic, tol, allq, extent(cc)))
                        continue
                    except Exception as e:
                        r.case((kind, tol, allq, "crash"))
                        r.fail("curve_to_quadratic(%r, %r, all_quadratic=%s) raised %s: %s" % (cubic, tol, allq, type(e).__name__, e))
                        continue
                    desc = "curve_to_quadratic(%r, %r, all_quadratic=%s) = %r" % (cubic, tol, allq, out)
                    if not finite(out):
                        r.case((kind, tol, allq, "nan"))
                        r.fail("%s has non-finite coordinates" % desc)
                        continue
                    if tuple(out[0]) != tuple(map(float, cubic[0])) or tuple(out[-1]) != tuple(map(float, cubic[3])):
                        r.fail("%s does not start/end on the cubic's end points" % desc)
                        continue
                    if not allq and len(out) == 4:
                        r.case((kind, tol, allq, "cubic"))
                        if [tuple(p) for p in out] != [tuple(map(float, p)) for p in cubic]:
                            r.fail("%s: a returned cubic must be the input itself" % desc)
                        continue
                    if not allq and len(out) != 3:
                        r.fail("%s: with all_quadratic=False the result must have 3 or 4 points" % desc)
                        continue
                    n = len(out) - 2
                    r.case((kind, tol, allq, min(n, 8)))
                    if n < 1 or n > M.MAX_N:
                        r.fail("%s has %d segments" % (desc, n))
                        continue
                    bad = spline_error(cc, out, tol)
                    if bad:
                        r.fail("%s: piece %d is %.6g away from the cubic (tolerance %g, %s)" % (desc, bad[1], bad[0], tol, bad[2]))
    try:
        r.sample({"cubic": [(0, 0), (100, 100), (0, 100), (100, 0)], "tolerance": 1.0, "result": curve_to_quadratic([(0, 0), (100, 100), (0, 100), (100, 0)], 1.0)})
    except Exception:
        pass
    return r


# ---------------------------------------------------------------------------------------
# 2. several curves together
# ---------------------------------------------------------------------------------------

@check("C13")
def curves_to_quadratic_compatible_and_within_own_tolerance(tier, rnd):
    """curves_to_quadratic(curves, max_errors, all_quadratic): all results have the same number of
    points; result i starts/ends on curve i and is within ITS OWN max_errors[i] (tight after
    loose, loose after tight, equal); with all_quadratic=False all are single quadratics or all
    the unchanged cubics; a wrong number of tolerances is a ValueError, an empty list gives [];
    failure is ApproxNotFoundError; the answer for a list is the same whatever position a curve has."""
    from fontTools.cu2qu import curves_to_quadratic
    from fontTools.cu2qu.errors import ApproxNotFoundError

    r = Result("lists of 1..5 curves: 'masters' (one class, perturbed copies) or unrelated classes x tolerance patterns (equal, loose-then-tight, "
               "tight-then-loose, seeded, ratios up to 1e5) x all_quadratic; distinct = (size, kind of list, tolerance pattern, all_quadratic, outcome)")
    rounds = 2500 if tier == "quick" else 40000
    for _ in range(rounds):
        k = rnd.randint(1, 5)
        if rnd.random() < 0.6:
            kind = rnd.choice(CUBIC_KINDS)
            base = gen_cubic(rnd, kind, 1000.0)
            curves = [base] + [perturb(rnd, base, rnd.choice((0.5, 5, 50, 300))) for _ in range(k - 1)]
            lk = "masters:" + kind
        else:
            curves = [gen_cubic(rnd, rnd.choice(CUBIC_KINDS), 1000.0) for _ in range(k)]
            lk = "mixed"
        pat = rnd.choice(("equal", "loose-tight", "tight-loose", "seeded"))
        if pat == "equal":
            tols = [rnd.choice(TOLERANCES)] * k
        elif pat == "loose-tight":
            tols = sorted((rnd.choice(TOLERANCES) for _ in range(k)), reverse=True)
            tols[-1] = min(tols[-1], tols[0] / rnd.choice((10, 1000, 1e5)))
        elif pat == "tight-loose":
            tols = sorted(rnd.choice(TOLERANCES) for _ in range(k))
            tols[0] = min(tols[0], tols[-1] / rnd.choice((10, 1000, 1e5)))
        else:
            tols = [rnd.choice(TOLERANCES) for _ in range(k)]
        allq = rnd.random() < 0.75
        try:
            out = curves_to_quadratic(curves, tols, all_quadratic=allq)
        except ApproxNotFoundError:
            r.case((k, lk, pat, allq, "error"))
            if allq and all(extent([C(p) for p in c]) <= 1e3 * t for c, t in zip(curves, tols)):
                r.fail("curves_to_quadratic(%r, %r) raised ApproxNotFoundError although every curve is at most 1000 tolerances across" % (curves, tols))
            continue
        except Exception as e:
            r.case((k, lk, pat, allq, "crash"))
            r.fail("curves_to_quadratic(%r, %r, all_quadratic=%s) raised %s: %s" % (curves, tols, allq, type(e).__name__, e))
            continue
        desc = "curves_to_quadratic(%r, %r, all_quadratic=%s)" % (curves, tols, allq)
        lens = {len(s) for s in out}
        r.case((k, lk, pat, allq, min(len(out[0]) - 2, 6)))
        if len(out) != k or len(lens) != 1:
            r.fail("%s returned %d results with lengths %r: not interpolation compatible" % (desc, len(out), [len(s) for s in out]))
            continue
        for i, (cubic, spline, tol) in enumerate(zip(curves, out, tols)):
            if not finite(spline):
                r.fail("%s: result %d has non-finite coordinates" % (desc, i))
                break
            if tuple(spline[0]) != tuple(map(float, cubic[0])) or tuple(spline[-1]) != tuple(map(float, cubic[3])):
                r.fail("%s: result %d does not start/end on its cubic" % (desc, i))
                break
            if not allq and len(spline) == 4:
                if [tuple(p) for p in spline] != [tuple(map(float, p)) for p in cubic]:
                    r.fail("%s: result %d is a cubic different from the input" % (desc, i))
                    break
                continue
            if not allq and len(spline) != 3:
                r.fail("%s: result %d has %d points with all_quadratic=False" % (desc, i, len(spline)))
                break
            bad = spline_error([C(p) for p in cubic], spline, tol)
            if bad:
                r.fail("%s: result %d (%r) is %.6g away from its cubic in piece %d; its own tolerance is %g (%s)" % (desc, i, spline, bad[0], bad[1], tol, bad[2]))
                break
        # order independence: rotating the list rotates the answer
        if k > 1 and rnd.random() < 0.3:
            s = rnd.randrange(1, k)
            try:
                out2 = curves_to_quadratic(curves[s:] + curves[:s], tols[s:] + tols[:s], all_quadratic=allq)
                if out2 != out[s:] + out[:s]:
                    r.fail("%s: the result depends on the order of the curves (rotation by %d)" % (desc, s))
            except ApproxNotFoundError:
                r.fail("%s succeeds but the rotated list raises ApproxNotFoundError" % desc)
    # argument validation
    r.case(("validation",))
    if curves_to_quadratic([], []) != []:
        r.fail("curves_to_quadratic([], []) != []")
    c = [(0, 0), (10, 20), (30, 20), (40, 0)]
    for curves, tols in (([c, c], [1.0]), ([c], [1.0, 2.0]), ([c, c, c], [1.0, 1.0])):
        try:
            res = curves_to_quadratic(curves, tols)
            r.fail("curves_to_quadratic with %d curves and %d tolerances returned %r instead of raising ValueError" % (len(curves), len(tols), res))
        except ValueError:
            pass
        except Exception as e:
            r.fail("curves_to_quadratic with %d curves and %d tolerances raised %s instead of ValueError" % (len(curves), len(tols), type(e).__name__))
    try:
        r.sample({"curves": 2, "max_errors": [10.0, 0.01], "lengths": [len(s) for s in curves_to_quadratic([c, perturb(rnd, c, 3)], [10.0, 0.01])]})
    except Exception:
        pass
    return r


# ---------------------------------------------------------------------------------------
# 3. UFO glyphs and fonts
# ---------------------------------------------------------------------------------------

def gen_structure(rnd):
    """a glyph skeleton: contours of typed segments, mixed on purpose"""
    contours = []
    for _ in range(rnd.randint(1, 3)):
        closed = rnd.random() < 0.7
        style = rnd.choice(("cubic", "mixed", "q-then-c", "lines+cubic", "superbezier"))
        segs = []
        for _s in range(rnd.randint(1, 6)):
            if style == "cubic":
                segs.append(("curve", 3))
            elif style == "q-then-c":
                segs.append(("qcurve", rnd.randint(2, 4)))
                segs.append(("curve", 3))
            elif style == "lines+cubic":
                segs.append(rnd.choice((("line", 1), ("curve", 3))))
            else:
                segs.append(rnd.choice((("line", 1), ("curve", 3), ("qcurve", rnd.randint(2, 4)), ("curve", 3))))
        contours.append((closed, segs))
    return contours


def instantiate(rnd, structure, jitter, base=None):
    """coordinates for one master: a smooth-ish walk; with `base`, a perturbed copy of it"""
    out = []
    for ci, (closed, segs) in enumerate(structure):
        if base is not None:
            start, pts = base[ci]
            start = (start[0] + rnd.uniform(-jitter, jitter), start[1] + rnd.uniform(-jitter, jitter))
            pts = [[(x + rnd.uniform(-jitter, jitter), y + rnd.uniform(-jitter, jitter)) for x, y in seg] for seg in pts]
            out.append((start, pts))
            continue
        x, y = rnd.uniform(-200, 800), rnd.uniform(-200, 800)
        start = (round(x), round(y))
        ang = rnd.uniform(0, 6.28)
        pts = []
        for kind, n in segs:
            seg = []
            for _ in range(n):
                ang += rnd.uniform(-0.9, 0.9)
                step = rnd.uniform(10, 160)
                x, y = x + step * math.cos(ang), y + step * math.sin(ang)
                seg.append((round(x), round(y)) if rnd.random() < 0.7 else (x, y))
            pts.append(seg)
        out.append((start, pts))
    return out


def draw_master(pen, structure, coords):
    for (closed, segs), (start, pts) in zip(structure, coords):
        pen.moveTo(start)
        for (kind, n), seg in zip(segs, pts):
            if kind == "line":
                pen.lineTo(*seg)
            elif kind == "curve":
                pen.curveTo(*seg)
            else:
                pen.qCurveTo(*seg)
        if closed:
            pen.closePath()
        else:
            pen.endPath()


def record_glyph(glyph):
    from fontTools.pens.recordingPen import RecordingPen
    from fontTools.pens.pointPen import PointToSegmentPen

    rec = RecordingPen()
    glyph.drawPoints(PointToSegmentPen(rec, outputImpliedClosingLine=True))
    return rec.value


def compare_converted(before, after, tol, allq):
    """segment-by-segment: returns (error text or None, tuple of spline lengths)"""
    if len(before) != len(after):
        return "segment count changed %d -> %d" % (len(before), len(after)), ()
    cur = None
    lengths = []
    for k, ((op0, a0), (op1, a1)) in enumerate(zip(before, after)):
        if op0 != "curveTo":
            if (op0, a0) != (op1, a1):
                return "segment %d (%s) changed: %r -> %r %r" % (k, op0, a0, op1, a1), ()
        else:
            cubic = [C(cur)] + [C(p) for p in a0]
            if op1 == "curveTo":
                if allq:
                    return "segment %d is still cubic" % k, ()
                if a1 != a0:
                    return "segment %d: kept cubic differs from the input" % k, ()
                lengths.append(4)
            elif op1 == "qCurveTo":
                if tuple(a1[-1]) != tuple(map(float, a0[-1])) and tuple(a1[-1]) != tuple(a0[-1]):
                    return "segment %d: end point moved %r -> %r" % (k, a0[-1], a1[-1]), ()
                spline = [cur] + list(a1)
                if not allq and len(a1) != 2:
                    return "segment %d: %d-point spline with all_quadratic=False" % (k, len(a1) + 1), ()
                bad = spline_error(cubic, spline, tol)
                if bad:
                    return "segment %d: piece %d of the spline is %.6g away from the cubic, tolerance %g" % (k, bad[1], bad[0], tol), ()
                lengths.append(len(a1) + 1)
            else:
                return "segment %d: curveTo became %s" % (k, op1), ()
        if a0:
            cur = a0[-1]
    return None, tuple(lengths)


@check("C13")
def ufo_glyphs_to_quadratic_mixed_masters(tier, rnd):
    """cu2qu.ufo.glyphs_to_quadratic on 1..4 compatible master glyphs whose contours mix lines,
    cubic segments and quadratic segments - in particular a qCurveTo immediately followed by a
    curveTo - open and closed, with one tolerance or one per master: afterwards every master has the
    same segment structure; each former cubic segment is a quadratic spline from the same start to
    the same end point within that master's tolerance (or, with all_quadratic=False, an unchanged
    cubic), with the same number of points in every master; all other segments are untouched;
    reverse_direction gives exactly the reversed contours; masters with different segment types
    raise IncompatibleGlyphsError, invalid tolerances ValueError."""
    from ufoLib2.objects import Glyph
    from fontTools.cu2qu.ufo import glyphs_to_quadratic
    from fontTools.cu2qu.errors import IncompatibleGlyphsError, ApproxNotFoundError
    from fontTools.pens.reverseContourPen import ReverseContourPen

    r = Result("seeded glyph skeletons (1..3 contours, 1..12 segments: cubic only / quadratic-then-cubic pairs / lines+cubics / freely mixed; closed and open) "
               "x 1..4 masters (jitter 0..60 units, integer and float coordinates) x scalar or per-master tolerances (ratios to 1000) x all_quadratic x reverse; "
               "distinct = (style flags, masters, tolerance pattern, all_quadratic, reverse)")
    rounds = 700 if tier == "quick" else 12000
    for _ in range(rounds):
        structure = gen_structure(rnd)
        nm = rnd.randint(1, 4)
        base = instantiate(rnd, structure, 0)
        masters = [base] + [instantiate(rnd, structure, rnd.choice((0, 2, 15, 60)), base) for _ in range(nm - 1)]
        pat = rnd.choice(("scalar", "loose-tight", "tight-loose", "default"))
        if pat == "scalar":
            max_err = rnd.choice((0.2, 1.0, 5.0))
            tols = [max_err] * nm
        elif pat == "default":
            max_err = None
            tols = [1.0] * nm
        else:
            tols = sorted((rnd.choice((0.01, 0.1, 1.0, 10.0)) for _ in range(nm)), reverse=(pat == "loose-tight"))
            max_err = list(tols) if rnd.random() < 0.5 else tuple(tols)
        allq = rnd.random() < 0.7
        rev = rnd.random() < 0.3
        hasq_then_c = any(a[0] == "qcurve" and b[0] == "curve" for _c, segs in structure for a, b in zip(segs, segs[1:]))
        r.case((hasq_then_c, any(not c for c, _ in structure), nm, pat, allq, rev))

        def build():
            gl = []
            for m in masters:
                g = Glyph("a")
                draw_master(g.getPen(), structure, m)
                gl.append(g)
            return gl

        glyphs = build()
        before = [record_glyph(g) for g in glyphs]
        desc = "structure=%r masters=%r max_err=%r all_quadratic=%s" % (structure, masters, max_err, allq)
        has_cubic = any(k == "curve" for _c, segs in structure for k, _n in segs)
        try:
            modified = glyphs_to_quadratic(glyphs, max_err=max_err, all_quadratic=allq, reverse_direction=False)
        except ApproxNotFoundError:
            if allq and min(tols) >= 1.0:      # segments are a few hundred units long
                r.fail("glyphs_to_quadratic raised ApproxNotFoundError at tolerances %r; %s" % (tols, desc))
            continue
        except Exception as e:
            r.fail("glyphs_to_quadratic raised %s: %s; %s" % (type(e).__name__, e, desc))
            continue
        after = [record_glyph(g) for g in glyphs]
        lens = set()
        ok = True
        for i, (b, a, tol) in enumerate(zip(before, after, tols)):
            err, lengths = compare_converted(b, a, tol, allq)
            if err:
                r.fail("glyphs_to_quadratic, master %d: %s; %s" % (i, err, desc))
                ok = False
                break
            lens.add(lengths)
        if not ok:
            continue
        if len(lens) > 1:
            r.fail("glyphs_to_quadratic: masters got different spline lengths %r; %s" % (sorted(lens), desc))
        if before != after and not modified:
            r.fail("glyphs_to_quadratic returned %r but the glyphs changed; %s" % (modified, desc))
        if allq and has_cubic and not modified:
            r.fail("glyphs_to_quadratic returned False although cubic segments were present; %s" % desc)
        if rev:
            rg = build()
            try:
                glyphs_to_quadratic(rg, max_err=max_err, all_quadratic=allq, reverse_direction=True)
            except Exception as e:
                r.fail("glyphs_to_quadratic(reverse_direction=True) raised %s: %s; %s" % (type(e).__name__, e, desc))
                continue
            for i, (g, h) in enumerate(zip(glyphs, rg)):
                want = Glyph("a")
                g.draw(ReverseContourPen(want.getPen()))
                if record_glyph(want) != record_glyph(h):
                    r.fail("glyphs_to_quadratic(reverse_direction=True), master %d, is not the reverse of the plain conversion; %s" % (i, desc))
                    break
    # incompatible masters and invalid tolerances are errors, not silent damage
    for _ in range(40 if tier == "quick" else 400):
        structure = gen_structure(rnd)
        flat = [(ci, si) for ci, (_c, segs) in enumerate(structure) for si, s in enumerate(segs) if s[0] == "curve"]
        if not flat:
            continue
        ci, si = rnd.choice(flat)
        other = [(c, list(segs)) for c, segs in structure]
        other[ci][1][si] = rnd.choice((("qcurve", 3), ("line", 1)))
        base = instantiate(rnd, structure, 0)
        b2 = instantiate(rnd, other, 0)
        g1, g2 = Glyph("a"), Glyph("a")
        draw_master(g1.getPen(), structure, base)
        draw_master(g2.getPen(), other, b2)
        r.case(("incompatible", other[ci][1][si][0]))
        try:
            glyphs_to_quadratic([g1, g2], max_err=1.0)
            r.fail("glyphs_to_quadratic accepted masters whose segment %d/%d is a curve in one and %s in the other" % (ci, si, other[ci][1][si][0]))
        except IncompatibleGlyphsError:
            pass
        except Exception as e:
            r.fail("glyphs_to_quadratic on incompatible masters raised %s: %s" % (type(e).__name__, e))
    g = Glyph("a")
    draw_master(g.getPen(), [(True, [("curve", 3)])], [((0, 0), [[(10, 50), (60, 50), (80, 0)]])])
    for bad in (0, -1.0, [1.0, 1.0], [0.0]):
        r.case(("bad-tolerance", repr(bad)))
        try:
            glyphs_to_quadratic([g], max_err=bad)
            r.fail("glyphs_to_quadratic accepted max_err=%r" % (bad,))
        except ValueError:
            pass
        except Exception as e:
            r.fail("glyphs_to_quadratic(max_err=%r) raised %s instead of ValueError" % (bad, type(e).__name__))
    r.sample({"structure": structure, "max_err": "per master", "all_quadratic": True})
    return r


@check("C13")
def ufo_fonts_to_quadratic_sparse_masters(tier, rnd):
    """cu2qu.ufo.fonts_to_quadratic on 1..3 master fonts with partly shared glyph sets, tolerances
    given as max_err_em / max_err / per-font lists: every glyph is converted within the tolerance of
    its own font (max_err_em x unitsPerEm), same-named glyphs stay compatible, the returned set
    names exactly the changed glyphs, the curve-type lib key is set and a second call is a no-op."""
    from ufoLib2.objects import Font
    from fontTools.cu2qu.ufo import fonts_to_quadratic, CURVE_TYPE_LIB_KEY
    from fontTools.cu2qu.errors import ApproxNotFoundError

    r = Result("1..3 fonts (unitsPerEm 1000/2048/250) x 2..6 glyph names, each present in a seeded subset of the fonts, skeletons as in the glyph check, "
               "plus empty glyphs; tolerance as em fraction / absolute / per-font list; distinct = (fonts, tolerance form, all_quadratic)")
    rounds = 250 if tier == "quick" else 3000
    for _ in range(rounds):
        nf = rnd.randint(1, 3)
        upems = [rnd.choice((1000, 2048, 250)) for _ in range(nf)]
        names = ["g%d" % i for i in range(rnd.randint(2, 6))]
        fonts = [Font() for _ in range(nf)]
        for f, u in zip(fonts, upems):
            f.info.unitsPerEm = u
        originals = {}
        structures = {}
        for name in names:
            present = [i for i in range(nf) if rnd.random() < 0.7] or [rnd.randrange(nf)]
            if rnd.random() < 0.15:
                for i in present:
                    fonts[i].newGlyph(name)          # empty glyph
                continue
            structure = gen_structure(rnd)
            structures[name] = structure
            base = instantiate(rnd, structure, 0)
            for j, i in enumerate(present):
                g = fonts[i].newGlyph(name)
                coords = base if j == 0 else instantiate(rnd, structure, rnd.choice((0, 5, 40)), base)
                draw_master(g.getPen(), structure, coords)
                originals[(i, name)] = record_glyph(g)
        form = rnd.choice(("em", "em-list", "abs", "abs-list", "default"))
        kw = {}
        if form == "em":
            e = rnd.choice((0.001, 0.0002, 0.01))
            kw["max_err_em"] = e
            tols = [u * e for u in upems]
        elif form == "em-list":
            es = [rnd.choice((0.001, 0.0001, 0.01)) for _ in range(nf)]
            kw["max_err_em"] = es
            tols = [u * e for u, e in zip(upems, es)]
        elif form == "abs":
            kw["max_err"] = rnd.choice((0.3, 1.0, 4.0))
            tols = [kw["max_err"]] * nf
        elif form == "abs-list":
            tols = [rnd.choice((0.05, 1.0, 8.0)) for _ in range(nf)]
            kw["max_err"] = list(tols)
        else:
            tols = [u * 0.001 for u in upems]
        allq = rnd.random() < 0.7
        r.case((nf, form, allq))
        desc = "upem=%r %r all_quadratic=%s glyphs=%r" % (upems, kw, allq, {k: v for k, v in structures.items()})
        try:
            modified = fonts_to_quadratic(fonts, all_quadratic=allq, **kw)
        except ApproxNotFoundError:
            continue
        except Exception as e:
            r.fail("fonts_to_quadratic raised %s: %s; %s" % (type(e).__name__, e, desc))
            continue
        changed = set()
        for name in structures:
            lens = set()
            for i in range(nf):
                if (i, name) not in originals:
                    continue
                after = record_glyph(fonts[i][name])
                err, lengths = compare_converted(originals[(i, name)], after, tols[i], allq)
                if err:
                    r.fail("fonts_to_quadratic, font %d glyph %s: %s; %s" % (i, name, err, desc))
                    break
                lens.add(lengths)
                if after != originals[(i, name)]:
                    changed.add(name)
            if len(lens) > 1:
                r.fail("fonts_to_quadratic: glyph %s got different spline lengths across fonts: %r; %s" % (name, sorted(lens), desc))
        if not changed <= set(modified or ()):
            r.fail("fonts_to_quadratic returned %r but also changed %r; %s" % (modified, sorted(changed - set(modified or ())), desc))
        want = "quadratic" if allq else "mixed"
        if any(f.lib.get(CURVE_TYPE_LIB_KEY) != want for f in fonts):
            r.fail("fonts_to_quadratic did not record curve type %r in every font lib; %s" % (want, desc))
        snap = {(i, n): record_glyph(fonts[i][n]) for (i, n) in originals}
        again = fonts_to_quadratic(fonts, all_quadratic=allq, **kw)
        if again or snap != {(i, n): record_glyph(fonts[i][n]) for (i, n) in originals}:
            r.fail("a second fonts_to_quadratic call changed converted fonts (returned %r); %s" % (again, desc))
    r.sample({"fonts": nf, "unitsPerEm": upems, "tolerance": kw})
    return r


# ---------------------------------------------------------------------------------------
# 4. quadratic -> cubic
# ---------------------------------------------------------------------------------------

def close(a, b):
    return abs(a - b) <= 1e-9 * (1 + abs(a))


def flatten(curve, n):
    """polyline with n chords + analytic bound on its distance to the curve"""
    if len(curve) == 3:
        pts = [quad_at(curve, k / n) for k in range(n + 1)]
        second = 2 * abs(curve[0] - 2 * curve[1] + curve[2])
    else:
        pts = [cubic_at(curve, k / n) for k in range(n + 1)]
        second = 6 * max(abs(curve[0] - 2 * curve[1] + curve[2]), abs(curve[1] - 2 * curve[2] + curve[3]))
    return pts, second / (8.0 * n * n)


def dist_to_polyline(p, poly):
    best = float("inf")
    for a, b in zip(poly, poly[1:]):
        ab = b - a
        den = ab.real * ab.real + ab.imag * ab.imag
        if den == 0:
            d = abs(p - a)
        else:
            t = ((p - a).real * ab.real + (p - a).imag * ab.imag) / den
            t = 0.0 if t < 0 else 1.0 if t > 1 else t
            d = abs(p - (a + ab * t))
        if d < best:
            best = d
    return best


def two_sided(curvesA, curvesB, n=24):
    """max over samples of A of distance to B and vice versa, and the flattening slack"""
    polyA, slackA, polyB, slackB = [], 0.0, [], 0.0
    for c in curvesA:
        pts, s = flatten(c, n)
        polyA += pts if not polyA else pts[1:]
        slackA = max(slackA, s)
    for c in curvesB:
        pts, s = flatten(c, n)
        polyB += pts if not polyB else pts[1:]
        slackB = max(slackB, s)
    dAB = max(dist_to_polyline(p, polyB) for p in polyA)
    dBA = max(dist_to_polyline(p, polyA) for p in polyB)
    return dAB, slackB, dBA, slackA


def gen_quadratic_splines(rnd, how):
    """a connected list of TrueType quadratic splines"""
    from fontTools.cu2qu import curve_to_quadratic

    if how == "from-cubics":      # what cu2qu produces: the intended input of qu2cu
        out = []
        start = (float(rnd.randint(-300, 300)), float(rnd.randint(-300, 300)))
        ang = rnd.uniform(0, 6.28)
        for _ in range(rnd.randint(1, 4)):
            pts = [start]
            x, y = start
            for _k in range(3):
                ang += rnd.uniform(-0.8, 0.8)
                step = rnd.uniform(20, 200)
                x, y = x + step * math.cos(ang), y + step * math.sin(ang)
                pts.append((x, y))
            try:
                spl = curve_to_quadratic(pts, rnd.choice((0.05, 0.5, 2.0)))
            except Exception:
                continue
            out.append(spl)
            start = spl[-1]
            if rnd.random() < 0.3:
                ang += rnd.uniform(1.0, 2.5)         # a corner
        return out
    out = []
    start = (float(rnd.randint(-300, 300)), float(rnd.randint(-300, 300)))
    ang = rnd.uniform(0, 6.28)
    for _ in range(rnd.randint(1, 4)):
        pts = [start]
        x, y = start
        for _k in range(rnd.randint(2, 6)):
            if how == "smooth":
                ang += rnd.uniform(-0.5, 0.5)
            elif how == "wild":
                ang = rnd.uniform(0, 6.28)
            else:                  # integer grid incl. coincident points
                ang += rnd.uniform(-1.0, 1.0)
            step = rnd.uniform(0 if how == "grid" else 10, 120)
            x, y = x + step * math.cos(ang), y + step * math.sin(ang)
            if how == "grid":
                x, y = float(round(x / 10) * 10), float(round(y / 10) * 10)
            pts.append((x, y))
        out.append(pts)
        start = pts[-1]
    return out


@check("C13")
def quadratic_to_curves_within_tolerance(tier, rnd):
    """quadratic_to_curves(splines, max_err, all_cubic): the output curves connect end to start, begin
    and end on the input's end points, every output joint is an on-curve point of the input
    (explicit or implied) in order, quadratic outputs are input segments verbatim, only cubics
    with all_cubic, never more curves than input segments; every output cubic is within max_err
    of the run of quadratic segments it replaces and vice versa (two-sided distance, flattening
    error accounted); complex and tuple inputs agree; bad input raises ValueError."""
    from fontTools.qu2cu import quadratic_to_curves

    r = Result("connected lists of 1..4 quadratic splines: produced by cu2qu from smooth cubic chains (with corners), smooth random, wild, integer grid with "
               "coincident points x max_err {0.01, 0.1, 0.5, 2, 10} x all_cubic; distinct = (source, max_err, all_cubic, merged?)")
    rounds = 200 if tier == "quick" else 2500
    for how in ("from-cubics", "smooth", "wild", "grid"):
        for tol in (0.01, 0.1, 0.5, 2.0, 10.0):
            for _ in range(rounds // 5 if how != "from-cubics" else rounds // 2):
                splines = gen_quadratic_splines(rnd, how)
                if not splines:
                    continue
                allc = rnd.random() < 0.4
                desc = "quadratic_to_curves(%r, %r, all_cubic=%s)" % (splines, tol, allc)
                try:
                    out = quadratic_to_curves(splines, tol, all_cubic=allc)
                except Exception as e:
                    r.case((how, tol, allc, "crash"))
                    r.fail("%s raised %s: %s" % (desc, type(e).__name__, e))
                    continue
                quads = [q for s in splines for q in spline_quads(s)]
                merged = len(out) < len(quads)
                r.case((how, tol, allc, merged))
                if not out or any(len(c) not in (3, 4) for c in out) or not all(finite(c) for c in out):
                    r.fail("%s returned malformed curves %r" % (desc, out))
                    continue
                oc = [tuple(C(p) for p in c) for c in out]
                if oc[0][0] != quads[0][0] or oc[-1][-1] != quads[-1][2]:    # explicit points: exact
                    r.fail("%s = %r does not start/end on the input's end points" % (desc, out))
                    continue
                if any(a[-1] != b[0] for a, b in zip(oc, oc[1:])):
                    r.fail("%s = %r: output curves do not connect" % (desc, out))
                    continue
                if allc and any(len(c) != 4 for c in out):
                    r.fail("%s returned a quadratic although all_cubic=True: %r" % (desc, out))
                    continue
                if len(out) > len(quads):
                    r.fail("%s returned %d curves for %d input segments" % (desc, len(out), len(quads)))
                    continue
                # map each output curve to the run of input segments between its joints
                qi = 0
                ok = True
                for c in oc:
                    if qi >= len(quads) or not close(quads[qi][0], c[0]):
                        ok = False
                        break
                    run = []
                    while qi < len(quads):
                        run.append(quads[qi])
                        qi += 1
                        if close(run[-1][2], c[-1]) and (len(c) == 4 or len(run) == 1):
                            # zero-length segments make joints ambiguous: take the longest run that still leaves
                            # enough segments for the remaining curves only when points repeat
                            break
                    if not close(run[-1][2], c[-1]):
                        ok = False
                        break
                    if len(c) == 3:
                        if len(run) != 1 or not all(close(x, y) for x, y in zip(run[0], c)):
                            r.fail("%s: quadratic output %r is not the input segment %r" % (desc, c, run[0]))
                            ok = None
                            break
                        continue
                    dAB, sB, dBA, sA = two_sided([c], run)
                    if dAB > tol + sB + 1e-7 or dBA > tol + sA + 1e-7:
                        r.fail("%s: cubic %r is %.6g / %.6g away from the %d segments it replaces (max_err %g, flattening slack %.3g)"
                               % (desc, c, dAB, dBA, len(run), tol, max(sA, sB)))
                        ok = None
                        break
                if ok is False and how != "grid":
                    r.fail("%s = %r: output joints are not input on-curve points in order" % (desc, out))
                # complex input, same answer
                if rnd.random() < 0.2:
                    outc = quadratic_to_curves([[C(p) for p in s] for s in splines], tol, all_cubic=allc)
                    if [tuple(c) for c in outc] != [tuple(c) for c in oc]:
                        r.fail("%s: complex and tuple inputs give different results" % desc)
    r.case(("validation",))
    if quadratic_to_curves([], 1.0) != []:
        r.fail("quadratic_to_curves([]) != []")
    for bad, tol in (([[(0, 0), (1, 1)]], 1.0), ([[(0, 0), (5, 5), (10, 0)], [(11, 0), (15, 5), (20, 0)]], 1.0), ([[(0, 0), (5, 5), (10, 0)]], 0), ([[(0, 0), (5, 5), (10, 0)]], -1)):
        try:
            res = quadratic_to_curves(bad, tol)
            r.fail("quadratic_to_curves(%r, %r) returned %r instead of raising ValueError" % (bad, tol, res))
        except ValueError:
            pass
        except Exception as e:
            r.fail("quadratic_to_curves(%r, %r) raised %s instead of ValueError" % (bad, tol, type(e).__name__))
    try:
        r.sample({"splines": [[(0, 0), (0, 50), (50, 100), (100, 100)]], "max_err": 0.5, "result": quadratic_to_curves([[(0.0, 0.0), (0.0, 50.0), (50.0, 100.0), (100.0, 100.0)]], 0.5)})
    except Exception:
        pass
    return r


# ---------------------------------------------------------------------------------------
# 5. pens
# ---------------------------------------------------------------------------------------

def seg2pt(pointPen):
    """feed a point pen from segment-pen calls"""
    from fontTools.pens.pointPen import SegmentToPointPen

    return SegmentToPointPen(pointPen)


@check("C13")
def cu2qu_and_qu2cu_pens(tier, rnd):
    """Cu2QuPen / Cu2QuPointPen / Cu2QuMultiPen / Qu2CuPen on seeded contours mixing lines, cubic
    (also 'super Bezier' curveTo with more than 3 points) and quadratic segments, a qCurveTo
    directly before a curveTo, closed and open: non-cubic segments pass through unchanged, each
    cubic becomes a spline from the same start to the same end within max_err (all_quadratic) or
    stays / becomes one quadratic, segment pen and point pen agree, the multi pen gives every master
    the same structure within tolerance, reverse_direction is the reversed plain result; Qu2CuPen
    output stays within max_err of its input contour and has only cubics with all_cubic."""
    from fontTools.pens.cu2quPen import Cu2QuPen, Cu2QuPointPen, Cu2QuMultiPen
    from fontTools.pens.qu2cuPen import Qu2CuPen
    from fontTools.pens.recordingPen import RecordingPen, RecordingPointPen
    from fontTools.pens.pointPen import PointToSegmentPen
    from fontTools.pens.reverseContourPen import ReverseContourPen
    from fontTools.pens.basePen import decomposeSuperBezierSegment
    from fontTools.cu2qu.errors import ApproxNotFoundError

    r = Result("seeded skeletons as in the glyph check + super-Bezier segments x max_err {0.1, 1, 5} x all_quadratic x reverse; 2..3 masters for the multi pen; "
               "quadratic contours for Qu2CuPen; distinct = (pen, flags)")

    def expand_super(value):
        """what the pens are specified to see: super-Bezier curveTo split into plain cubics"""
        out = []
        for op, args in value:
            if op == "curveTo" and len(args) > 3:
                for seg in decomposeSuperBezierSegment(args):
                    out.append(("curveTo", tuple(seg)))
            elif op == "curveTo" and len(args) < 3:
                out.append(("qCurveTo", tuple(args)))
            else:
                out.append((op, tuple(args)))
        return out

    rounds = 400 if tier == "quick" else 5000
    for _ in range(rounds):
        structure = gen_structure(rnd)
        if rnd.random() < 0.3:       # super-Bezier segments
            structure = [(c, [(k, rnd.randint(4, 6)) if k == "curve" and rnd.random() < 0.5 else (k, n) for k, n in segs]) for c, segs in structure]
        coords = instantiate(rnd, structure, 0)
        src = RecordingPen()
        draw_master(src, structure, coords)
        tol = rnd.choice((0.1, 1.0, 5.0))
        allq = rnd.random() < 0.7
        rev = rnd.random() < 0.3
        desc = "contours=%r max_err=%r all_quadratic=%s" % (src.value, tol, allq)
        r.case(("Cu2QuPen", allq, rev, any(n > 3 for _c, segs in structure for k, n in segs if k == "curve")))
        out = RecordingPen()
        try:
            src.replay(Cu2QuPen(out, tol, all_quadratic=allq))
        except ApproxNotFoundError:
            continue
        except Exception as e:
            r.fail("Cu2QuPen raised %s: %s; %s" % (type(e).__name__, e, desc))
            continue
        err, _l = compare_converted(expand_super(src.value), out.value, tol, allq)
        if err:
            r.fail("Cu2QuPen: %s; %s -> %r" % (err, desc, out.value))
            continue
        if rev:
            out_r = RecordingPen()
            src.replay(Cu2QuPen(out_r, tol, all_quadratic=allq, reverse_direction=True))
            want = RecordingPen()
            out.replay(ReverseContourPen(want))
            if out_r.value != want.value:
                r.fail("Cu2QuPen(reverse_direction=True) is not the reverse of the plain result; %s" % desc)
        # point pen: same outline as the segment pen
        r.case(("Cu2QuPointPen", allq))
        pp = RecordingPointPen()
        try:
            src.replay(seg2pt(Cu2QuPointPen(pp, tol, all_quadratic=allq)))
            back = RecordingPen()
            pp.replay(PointToSegmentPen(back, outputImpliedClosingLine=True))
            ref = RecordingPen()
            out.replay(seg2pt(PointToSegmentPen(ref, outputImpliedClosingLine=True)))
            if back.value != ref.value:
                r.fail("Cu2QuPointPen and Cu2QuPen disagree: %r vs %r; %s" % (back.value, ref.value, desc))
        except ApproxNotFoundError:
            pass
        except Exception as e:
            r.fail("Cu2QuPointPen raised %s: %s; %s" % (type(e).__name__, e, desc))
        # multi pen
        plain = [(c, [(k, 3 if k == "curve" else n) for k, n in segs]) for c, segs in structure]
        nm = rnd.randint(2, 3)
        base = instantiate(rnd, plain, 0)
        masters = [base] + [instantiate(rnd, plain, rnd.choice((1, 10, 50)), base) for _ in range(nm - 1)]
        recs = [RecordingPen() for _ in masters]
        srcs = []
        for m in masters:
            s = RecordingPen()
            draw_master(s, plain, m)
            srcs.append(s.value)
        r.case(("Cu2QuMultiPen", nm))
        multi = Cu2QuMultiPen(recs, tol)
        try:
            for ops in zip(*srcs):
                name = ops[0][0]
                getattr(multi, name)(*([[o[1] for o in ops]] if name not in ("closePath", "endPath") else []))
        except ApproxNotFoundError:
            continue
        except Exception as e:
            r.fail("Cu2QuMultiPen raised %s: %s; masters=%r" % (type(e).__name__, e, srcs))
            continue
        lens = set()
        for s, o in zip(srcs, recs):
            err, lengths = compare_converted(s, o.value, tol, True)
            if err:
                r.fail("Cu2QuMultiPen: %s; master=%r -> %r" % (err, s, o.value))
                break
            lens.add(lengths)
        if len(lens) > 1:
            r.fail("Cu2QuMultiPen gave masters different spline lengths %r; masters=%r" % (sorted(lens), srcs))
    # Qu2CuPen
    for _ in range(120 if tier == "quick" else 2500):
        how = rnd.choice(("from-cubics", "smooth", "grid"))
        splines = gen_quadratic_splines(rnd, how)
        if not splines:
            continue
        closed = rnd.random() < 0.5
        tol = rnd.choice((0.1, 0.5, 2.0))
        allc = rnd.random() < 0.5
        src = RecordingPen()
        src.moveTo(splines[0][0])
        for i, s in enumerate(splines):
            src.qCurveTo(*s[1:])
            if rnd.random() < 0.3 and i < len(splines) - 1:
                src.lineTo(s[-1])
        if closed:
            src.lineTo(splines[0][0])
            src.closePath()
        else:
            src.endPath()
        r.case(("Qu2CuPen", how, allc, closed))
        out = RecordingPen()
        try:
            src.replay(Qu2CuPen(out, tol, all_cubic=allc))
        except Exception as e:
            r.fail("Qu2CuPen raised %s: %s on %r" % (type(e).__name__, e, src.value))
            continue
        desc = "Qu2CuPen(max_err=%r, all_cubic=%s) on %r -> %r" % (tol, allc, src.value, out.value)
        if allc and any(op == "qCurveTo" for op, _ in out.value):
            r.fail("%s left a quadratic segment" % desc)
            continue
        if [op for op, _ in out.value if op in ("moveTo", "closePath", "endPath")] != [op for op, _ in src.value if op in ("moveTo", "closePath", "endPath")]:
            r.fail("%s changed the contour structure" % desc)
            continue

        def curves_of(value):
            cur, res = None, []
            for op, args in value:
                if op == "moveTo":
                    cur = C(args[0])
                elif op == "lineTo":
                    cur = C(args[0])
                elif op == "qCurveTo":
                    for q in spline_quads([(cur.real, cur.imag)] + list(args)):
                        res.append(q)
                    cur = C(args[-1])
                elif op == "curveTo":
                    res.append((cur,) + tuple(C(p) for p in args))
                    cur = C(args[-1])
            return res, cur

        a, enda = curves_of(src.value)
        b, endb = curves_of(out.value)
        if enda != endb or not b:
            r.fail("%s does not end where the input ends" % desc)
            continue
        dAB, sB, dBA, sA = two_sided(a, b)
        if dAB > tol + sB + 1e-7 or dBA > tol + sA + 1e-7:
            r.fail("%s: outlines are %.6g / %.6g apart" % (desc, dAB, dBA))
    r.sample({"pens": ["Cu2QuPen", "Cu2QuPointPen", "Cu2QuMultiPen", "Qu2CuPen"]})
    return r
