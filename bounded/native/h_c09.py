"""C09 native checks: variation arithmetic is exact.

The real fontTools functions are run on an exact rational number type (Q, a Fraction
subclass that absorbs ints and floats exactly), so that "returns exactly that master" and
"leaves every value unchanged" can be decided with == instead of a float tolerance.  The
oracles (OpenType region scalar, IUP inference, piecewise linear maps) are transcribed from
the OpenType specification, not from the code."""
import copy
import itertools
import operator
from fractions import Fraction

from harness import check, Result


# ---------------------------------------------------------------------------------------
# exact numbers
# ---------------------------------------------------------------------------------------

class Q(Fraction):
    """A Fraction that is closed under + - * / with ints AND floats (floats are converted
    exactly, never the other way round)."""

    __slots__ = ()

    def __new__(cls, a=0, b=None):
        f = Fraction(a) if b is None else Fraction(a, b)
        self = object.__new__(cls)
        self._numerator = f.numerator
        self._denominator = f.denominator
        return self


def _install(name, op):
    def fwd(a, b):
        return Q(op(Fraction(a), Fraction(b)))

    def rev(b, a):
        return Q(op(Fraction(a), Fraction(b)))

    setattr(Q, "__%s__" % name, fwd)
    setattr(Q, "__r%s__" % name, rev)


for _n, _o in (("add", operator.add), ("sub", operator.sub), ("mul", operator.mul), ("truediv", operator.truediv)):
    _install(_n, _o)
Q.__neg__ = lambda a: Q(-Fraction(a))
Q.__abs__ = lambda a: Q(abs(Fraction(a)))
Q.__pos__ = lambda a: a


def F(x):
    return Fraction(x)


# ---------------------------------------------------------------------------------------
# specification oracles
# ---------------------------------------------------------------------------------------

def ot_axis_scalar(v, lower, peak, upper):
    """OpenType 'Algorithm for interpolation of instance values', one axis."""
    v, lower, peak, upper = F(v), F(lower), F(peak), F(upper)
    if lower > peak or peak > upper:
        return Fraction(1)
    if lower < 0 and upper > 0:
        return Fraction(1)
    if peak == 0:
        return Fraction(1)
    if v < lower or v > upper:
        return Fraction(0)
    if v == peak:
        return Fraction(1)
    if v < peak:
        return (v - lower) / (peak - lower)
    return (upper - v) / (upper - peak)


def ot_scalar(loc, support):
    s = Fraction(1)
    for axis, (lo, pk, up) in support.items():
        s *= ot_axis_scalar(loc.get(axis, 0), lo, pk, up)
    return s


def ot_normalize(v, lower, default, upper):
    v, lower, default, upper = F(v), F(lower), F(default), F(upper)
    v = min(max(v, lower), upper)
    if v < default:
        return (v - default) / (default - lower)
    if v > default:
        return (v - default) / (upper - default)
    return Fraction(0)


def spec_piecewise(v, mapping):
    """avar-style segment map continued with slope 1 outside the mapped range."""
    v = F(v)
    if not mapping:
        return v
    keys = sorted(mapping)
    if v <= keys[0]:
        return v + F(mapping[keys[0]]) - keys[0]
    if v >= keys[-1]:
        return v + F(mapping[keys[-1]]) - keys[-1]
    for a, b in zip(keys, keys[1:]):
        if a <= v <= b:
            t = (v - a) / (F(b) - a)
            return F(mapping[a]) + (F(mapping[b]) - F(mapping[a])) * t


POOL = [Q(-1), Q(-3, 4), Q(-1, 2), Q(-1, 3), Q(-1, 4), Q(1, 4), Q(1, 3), Q(1, 2), Q(2, 3), Q(3, 4), Q(1)]


def _coord(rnd):
    if rnd.random() < 0.8:
        return rnd.choice(POOL)
    k = rnd.randrange(-16384, 16385)
    return Q(k or 5, 16384)


def gen_master_locations(rnd, nAxes, kind):
    """kind: 'on' (on-axis masters only), 'corners' (all-extreme combinations), 'off'
    (on-axis + intermediate off-axis), 'sparse' (arbitrary subsets of axes per master)."""
    axes = ["a", "b", "c", "d"][:nAxes]
    locs = [{}]
    seen = {()}

    def add(loc):
        loc = {k: v for k, v in loc.items() if v != 0}
        key = tuple(sorted(loc.items()))
        if key not in seen:
            seen.add(key)
            locs.append(loc)

    if kind == "on":
        for ax in axes:
            for _ in range(rnd.randint(1, 3)):
                add({ax: _coord(rnd)})
    elif kind == "corners":
        ext = {ax: rnd.sample([Q(-1), Q(1)], rnd.randint(1, 2)) for ax in axes}
        for r in range(1, nAxes + 1):
            for sub in itertools.combinations(axes, r):
                for vals in itertools.product(*(ext[a] for a in sub)):
                    if rnd.random() < 0.8:
                        add(dict(zip(sub, vals)))
    elif kind == "off":
        for ax in axes:
            for _ in range(rnd.randint(1, 2)):
                add({ax: _coord(rnd)})
        for _ in range(rnd.randint(1, 5)):
            add({ax: _coord(rnd) for ax in axes})
    else:
        for _ in range(rnd.randint(1, 8)):
            sub = rnd.sample(axes, rnd.randint(1, nAxes))
            add({ax: _coord(rnd) for ax in sub})
    return axes, locs


def probe_locations(rnd, axes, locs, n):
    out = []
    for _ in range(n):
        loc = {}
        for ax in axes:
            u = rnd.random()
            if u < 0.2:
                continue
            if u < 0.5:
                vals = [l[ax] for l in locs if ax in l]
                loc[ax] = rnd.choice(vals) if vals else _coord(rnd)
            else:
                loc[ax] = Q(rnd.randrange(-16384, 16385), 16384)
        out.append(loc)
    return out


# ---------------------------------------------------------------------------------------
# 1. VariationModel
# ---------------------------------------------------------------------------------------

@check("C09")
def model_reproduces_masters_and_deltas_equal_weights(tier, rnd):
    """For every finite set of distinct master locations containing the origin (1..3 axes,
    4 in the thorough tier; on-axis, corner, off-axis and sparse): interpolating at a master's
    location returns exactly that master (via master scalars and via deltas+supports);
    at arbitrary locations deltas x region scalars (spec oracle) == interpolateFromDeltas ==
    interpolateFromMasters; master scalars sum to 1; the result does not depend on the order
    in which the masters were given."""
    from fontTools.varLib.models import VariationModel

    r = Result("structure (axes 1..3/4 x on/corners/off/sparse) x seeded rational coordinates (pool with many coincidences + k/16384), "
               "rational master values, run on an exact Fraction type; distinct = (axes, kind, master count)")

    def one(nAxes, kind):
        axes, locs = gen_master_locations(rnd, nAxes, kind)
        order = list(range(len(locs)))
        rnd.shuffle(order)
        locs = [locs[i] for i in order]
        vals = [Q(rnd.randint(-1000, 1000), rnd.choice((1, 1, 2, 3))) for _ in locs]
        r.case((nAxes, kind, len(locs)))
        axisOrder = rnd.choice((None, axes, list(reversed(axes))))
        model = VariationModel(locs, axisOrder=axisOrder)
        deltas = model.getDeltas(vals)
        desc = "locations=%r values=%r" % ([{k: str(v) for k, v in l.items()} for l in locs], [str(v) for v in vals])
        for loc, want in zip(locs, vals):
            got = model.interpolateFromMasters(loc, vals)
            if got is None or F(got) != want:
                r.fail("interpolateFromMasters at master %r returned %s, master is %s; %s" % (loc, got, want, desc))
            got = model.interpolateFromDeltas(loc, deltas)
            if got is None or F(got) != want:
                r.fail("interpolateFromDeltas at master %r returned %s, master is %s; %s" % (loc, got, want, desc))
        # sorted masters: deltas are stored in model order, supports alongside
        for loc in probe_locations(rnd, axes, locs, 6):
            ref = sum((F(d) * ot_scalar(loc, s) for d, s in zip(deltas, model.supports)), Fraction(0))
            a = model.interpolateFromDeltas(loc, deltas)
            b = model.interpolateFromMasters(loc, vals)
            c = model.interpolateFromMastersAndScalars(vals, model.getScalars(loc))
            if not (F(a) == F(b) == F(c) == ref):
                r.fail("at %r: deltas x regions (spec) = %s, interpolateFromDeltas = %s, interpolateFromMasters = %s, "
                       "interpolateFromMastersAndScalars = %s; %s" % (loc, ref, a, b, c, desc))
            ms = model.getMasterScalars(loc)
            if sum((F(x) for x in ms), Fraction(0)) != 1:
                r.fail("master scalars at %r sum to %s; %s" % (loc, sum(F(x) for x in ms), desc))
            # history independence: another input order, same function
            perm = list(range(len(locs)))
            rnd.shuffle(perm)
            m2 = VariationModel([locs[i] for i in perm], axisOrder=axisOrder)
            b2 = m2.interpolateFromMasters(loc, [vals[i] for i in perm])
            if F(b2) != ref:
                r.fail("value at %r depends on master order: %s vs %s; %s" % (loc, b2, ref, desc))
        return (locs, vals)

    locs, vals = [], []
    rounds = 28 if tier == "quick" else 300
    for nAxes in ((1, 2, 3) if tier == "quick" else (1, 2, 3, 4)):
        for kind in ("on", "corners", "off", "sparse"):
            for _ in range(rounds):
                try:
                    locs, vals = one(nAxes, kind)
                except Exception as e:
                    r.fail("VariationModel raised %s: %s (axes=%d, kind=%s)" % (type(e).__name__, e, nAxes, kind))
    r.sample({"locations": [{k: str(v) for k, v in l.items()} for l in locs], "values": [str(v) for v in vals]})
    return r


@check("C09")
def model_sparse_masters_and_extrapolation(tier, rnd):
    """Sparse master sets (some masters None, default present): getDeltasAndSupports /
    getSubModel reproduce every present master exactly and agree with the spec oracle elsewhere;
    reorderMasters keeps the function.  extrapolate=True: masters are still reproduced exactly
    and, on one axis, values outside the master range continue the outermost segment linearly."""
    from fontTools.varLib.models import VariationModel

    r = Result("master sets as in the first check with a random subset of non-default masters set to None; 1-axis extrapolating models "
               "with 1..4 masters per side; distinct = (axes, kind, present/total) or ('extrapolate', masters)")

    def one_sparse(nAxes, kind):
        axes, locs = gen_master_locations(rnd, nAxes, kind)
        order = list(range(len(locs)))
        rnd.shuffle(order)
        locs = [locs[i] for i in order]
        vals = [Q(rnd.randint(-500, 500)) for _ in locs]
        items = [v if (not l or rnd.random() < 0.6) else None for l, v in zip(locs, vals)]
        present = [(l, v) for l, v in zip(locs, items) if v is not None]
        r.case((nAxes, kind, len(present), len(locs)))
        model = VariationModel(locs)
        deltas, supports = model.getDeltasAndSupports(items)
        sub, subItems = model.getSubModel(items)
        desc = "locations=%r items=%r" % ([{k: str(v) for k, v in l.items()} for l in locs], [None if v is None else str(v) for v in items])
        if len(deltas) != len(present) or len(supports) != len(present):
            r.fail("getDeltasAndSupports returned %d deltas / %d supports for %d present masters; %s" % (len(deltas), len(supports), len(present), desc))
            return None
        for loc, want in present:
            ref = sum((F(d) * ot_scalar(loc, s) for d, s in zip(deltas, supports)), Fraction(0))
            if ref != want:
                r.fail("sparse model: deltas x supports at master %r = %s, master is %s; %s" % (loc, ref, want, desc))
            got = sub.interpolateFromMasters(loc, subItems)
            if F(got) != want:
                r.fail("sub-model interpolateFromMasters at %r = %s, master is %s; %s" % (loc, got, want, desc))
        for loc in probe_locations(rnd, axes, locs, 3):
            ref = sum((F(d) * ot_scalar(loc, s) for d, s in zip(deltas, supports)), Fraction(0))
            if F(sub.interpolateFromMasters(loc, subItems)) != ref:
                r.fail("sub-model at %r: masters-weighted != deltas x supports; %s" % (loc, desc))
        # reorderMasters: same function on the permuted list
        perm = list(range(len(locs)))
        rnd.shuffle(perm)
        full = VariationModel(locs)
        m3 = VariationModel(locs)
        newvals = m3.reorderMasters(list(vals), perm)
        for l, v in zip(locs, vals):
            if F(m3.interpolateFromMasters(l, newvals)) != v:
                r.fail("after reorderMasters(%r) the master at %r is no longer reproduced; %s" % (perm, l, desc))
                break
        d3 = m3.getDeltas(newvals)
        if [F(x) for x in d3] != [F(x) for x in full.getDeltas(vals)]:
            r.fail("reorderMasters(%r) changed the deltas; %s" % (perm, desc))
        return None

    def one_extrapolating():
        neg = sorted({_coord(rnd) for _ in range(rnd.randint(0, 3))} - {Q(0)})
        coords = sorted({abs(c) if rnd.random() < 0.5 else -abs(c) for c in neg} | {abs(_coord(rnd)) for _ in range(rnd.randint(1, 3))})
        coords = [c for c in coords if c != 0]
        locs = [{}] + [{"a": c} for c in coords]
        rnd.shuffle(locs)
        vals = [Q(rnd.randint(-300, 300)) for _ in locs]
        r.case(("extrapolate", len(locs)))
        model = VariationModel(locs, extrapolate=True)
        pts = sorted([(F(l.get("a", 0)), F(v)) for l, v in zip(locs, vals)])
        desc = "masters=%r" % ([(str(x), str(y)) for x, y in pts],)
        for x, y in pts:
            if F(model.interpolateFromMasters({"a": Q(x)}, vals)) != y:
                r.fail("extrapolating model does not reproduce master at %s; %s" % (x, desc))
        if len(pts) < 2:
            return pts
        for v in (pts[-1][0] + Fraction(1, 3), pts[-1][0] + 2, pts[0][0] - Fraction(1, 5), pts[0][0] - 3):
            if v > pts[-1][0]:
                (x0, y0), (x1, y1) = pts[-2], pts[-1]
            else:
                (x0, y0), (x1, y1) = pts[0], pts[1]
            want = y0 + (y1 - y0) * (v - x0) / (x1 - x0)
            got = model.interpolateFromMasters({"a": Q(v)}, vals)
            got2 = model.interpolateFromDeltas({"a": Q(v)}, model.getDeltas(vals))
            if F(got) != want or F(got2) != want:
                r.fail("extrapolation at %s: got %s / %s, linear continuation is %s; %s" % (v, got, got2, want, desc))
        return pts

    rounds = 20 if tier == "quick" else 250
    for nAxes in (1, 2, 3):
        for kind in ("on", "corners", "off", "sparse"):
            for _ in range(rounds):
                try:
                    one_sparse(nAxes, kind)
                except Exception as e:
                    r.fail("sparse VariationModel raised %s: %s (axes=%d, kind=%s)" % (type(e).__name__, e, nAxes, kind))
    # extrapolation on one axis
    pts = []
    for _ in range(40 if tier == "quick" else 600):
        try:
            pts = one_extrapolating() or pts
        except Exception as e:
            r.fail("extrapolating VariationModel raised %s: %s" % (type(e).__name__, e))
    r.sample({"masters": [(str(x), str(y)) for x, y in pts]})
    return r


# ---------------------------------------------------------------------------------------
# 2. scalar functions against the specification
# ---------------------------------------------------------------------------------------

@check("C09")
def scalars_and_maps_match_spec(tier, rnd):
    """supportScalar == OpenType region scalar (product over axes; ill-formed, zero-peak and
    zero-straddling axes ignored), normalizeValue == fvar default normalisation,
    piecewiseLinearMap == segment map with slope-1 continuation: complete grids of rational
    arguments plus seeded samples, exact comparison."""
    from fontTools.varLib.models import supportScalar, normalizeValue, piecewiseLinearMap

    r = Result("all (lower,peak,upper) triples over a 9-point grid in [-2,2] (also ill-formed ones) x 13 coordinates, pairs of axes, "
               "missing axes; all (min,default,max) over a 5-point grid x 9 values; seeded maps of 0..6 points; distinct = branch class")
    grid = [Q(-2), Q(-1), Q(-1, 2), Q(-1, 4), Q(0), Q(1, 3), Q(1, 2), Q(1), Q(2)]
    vs = grid + [Q(-3, 4), Q(1, 4), Q(3, 4), Q(3, 2)]
    triples = list(itertools.product(grid, repeat=3))
    if tier == "quick":
        triples = [t for i, t in enumerate(triples) if t[0] <= t[1] <= t[2] or i % 4 == 0]
    for t in triples:
        for v in vs:
            wf = t[0] <= t[1] <= t[2]
            r.case(("tent", wf, t[1] == 0, t[0] < 0 < t[2], v == t[1], t[0] < v < t[2]))
            got = supportScalar({"a": v}, {"a": t})
            want = ot_axis_scalar(v, *t)
            if F(got) != want:
                r.fail("supportScalar({a:%s}, {a:%s}) = %s, OT region scalar = %s" % (v, tuple(map(str, t)), got, want))
        got = supportScalar({}, {"a": t})
        if F(got) != ot_axis_scalar(0, *t):
            r.fail("supportScalar({}, {a:%s}) = %s, OT region scalar at 0 = %s" % (tuple(map(str, t)), got, ot_axis_scalar(0, *t)))
    wf = [t for t in triples if t[0] <= t[1] <= t[2]]
    for _ in range(3000 if tier == "quick" else 60000):
        sup = {ax: rnd.choice(wf) for ax in rnd.sample("abc", rnd.randint(1, 3))}
        loc = {ax: rnd.choice(vs) for ax in rnd.sample("abcd", rnd.randint(0, 4))}
        r.case(("multi", len(sup), len(loc)))
        got = supportScalar(loc, sup)
        if F(got) != ot_scalar(loc, sup):
            r.fail("supportScalar(%r, %r) = %s, product of OT axis scalars = %s" % (loc, sup, got, ot_scalar(loc, sup)))
    ngrid = [Q(-100), Q(0), Q(100), Q(400), Q(900)]
    for lo, de, up in itertools.product(ngrid, repeat=3):
        if not lo <= de <= up:
            continue
        for v in ngrid + [Q(-150), Q(50), Q(650), Q(1000)]:
            r.case(("normalize", lo == de, de == up, v < de, v > de))
            got = normalizeValue(v, (lo, de, up))
            if lo == de and v < de or de == up and v > de:
                want = Fraction(0)
            else:
                want = ot_normalize(v, lo, de, up)
            if F(got) != want:
                r.fail("normalizeValue(%s, (%s,%s,%s)) = %s, expected %s" % (v, lo, de, up, got, want))
            # extrapolate=True: the same two linear pieces continued; a degenerate side continues
            # with the other side's slope; a degenerate axis maps everything to 0
            try:
                got = normalizeValue(v, (lo, de, up), extrapolate=True)
            except Exception as e:
                r.fail("normalizeValue(%s, (%s,%s,%s), extrapolate=True) raised %s: %s" % (v, lo, de, up, type(e).__name__, e))
                continue
            if lo == up or v == de:
                want = Fraction(0)
            elif (v < de and lo != de) or (v > de and up == de):
                want = (F(v) - de) / (F(de) - lo)
            else:
                want = (F(v) - de) / (F(up) - de)
            if F(got) != want:
                r.fail("normalizeValue(%s, (%s,%s,%s), extrapolate=True) = %s, expected %s" % (v, lo, de, up, got, want))
    for _ in range(1500 if tier == "quick" else 30000):
        n = rnd.randint(0, 6)
        keys = sorted(rnd.sample(range(-16, 17), n))
        outs = sorted(rnd.choice(range(-16, 17)) for _ in range(n))
        mapping = {Q(k, 16): Q(o, 16) for k, o in zip(keys, outs)}
        v = Q(rnd.randrange(-40, 41), 32)
        r.case(("pwl", n, v in mapping, bool(mapping) and v < min(mapping), bool(mapping) and v > max(mapping)))
        got = piecewiseLinearMap(v, mapping)
        want = spec_piecewise(v, mapping)
        if F(got) != want:
            r.fail("piecewiseLinearMap(%s, %r) = %s, expected %s" % (v, {str(k): str(o) for k, o in mapping.items()}, got, want))
    r.exhaustive = tier != "quick"
    r.sample({"supportScalar": "{a: 1/4}, {a: (0, 1/2, 1)}", "value": str(supportScalar({"a": Q(1, 4)}, {"a": (Q(0), Q(1, 2), Q(1))}))})
    return r


# ---------------------------------------------------------------------------------------
# 3. rebaseTent
# ---------------------------------------------------------------------------------------

@check("C09")
def rebase_tent_preserves_values_on_new_range(tier, rnd):
    """rebaseTent(tent, limits): for every point v of the new range, the sum of scalar_i x the
    OpenType scalar of the returned tent_i at renormalizeValue(v) (gain tent = always 1) equals
    the scalar of the original tent at v.  Quantified over well-formed tents (lower <= peak <=
    upper in [-2,2], peak != 0, not straddling zero, continuous over [-1,1]: a one-sided tent
    has its step at |peak| >= 1) x all axis limits on a grid x unequal distances."""
    from fontTools.varLib.instancer import NormalizedAxisTripleAndDistances
    from fontTools.varLib.instancer.solver import rebaseTent

    r = Result("all well-formed tents over a 13-point grid in [-2,2] x all (min,default,max) over a 9-point grid in [-1,1] (quick: seeded third) "
               "x 3 distance pairs x (grid + midpoints + tent vertices) inside the new range; exact rationals; distinct = (tent class, limit class)")
    tg = [Q(-2), Q(-3, 2), Q(-1), Q(-3, 4), Q(-1, 2), Q(-1, 4), Q(0), Q(1, 4), Q(1, 2), Q(3, 4), Q(1), Q(3, 2), Q(2)]
    lg = [Q(-1), Q(-3, 4), Q(-1, 2), Q(-1, 4), Q(0), Q(1, 4), Q(1, 2), Q(3, 4), Q(1)]
    tents = []
    for lo, pk, up in itertools.product(tg, repeat=3):
        if not lo <= pk <= up or pk == 0 or (lo < 0 < up):
            continue
        if not (lo < pk or pk <= -1) or not (pk < up or pk >= 1):
            continue
        tents.append((lo, pk, up))
    limits = [(a, b, c) for a, b, c in itertools.product(lg, repeat=3) if a <= b <= c]
    dists = [(1, 1), (Q(3), Q(1, 2)), (Q(2, 5), Q(7))]

    def cls(x):
        return -1 if x < 0 else 1 if x > 0 else 0

    for tent in tents:
        for lim in limits:
            if tier == "quick" and rnd.random() < 0.65:
                continue
            dn, dp = dists[rnd.randrange(3)]
            axisLimit = NormalizedAxisTripleAndDistances(lim[0], lim[1], lim[2], dn, dp)
            r.case((cls(tent[0]), cls(tent[1]), cls(tent[2]), tent[0] == tent[1], tent[1] == tent[2],
                    cls(lim[0]), cls(lim[1]), cls(lim[2]), lim[0] == lim[1], lim[1] == lim[2],
                    (tent[1] > lim[1]) - (tent[1] < lim[1]), (tent[1] > lim[2]) - (tent[1] < lim[2])))
            desc = "rebaseTent(%r, %r dist=%s,%s)" % (tuple(map(str, tent)), tuple(map(str, lim)), dn, dp)
            try:
                sols = rebaseTent(tent, axisLimit)
            except Exception as e:
                r.fail("%s raised %s: %s" % (desc, type(e).__name__, e))
                continue
            pts = {lim[0], lim[1], lim[2]}
            for x in list(tent) + lg:
                if lim[0] <= x <= lim[2]:
                    pts.add(x)
            sp = sorted(pts)
            for a, b in zip(sp, sp[1:]):
                pts.add((a + b) / 2)
                pts.add(a + (b - a) / 7)
            for v in sorted(pts):
                want = ot_axis_scalar(v, *tent)
                nv = axisLimit.renormalizeValue(v) if lim[0] < lim[2] else 0
                got = Fraction(0)
                for scalar, t in sols:
                    got += F(scalar) * (1 if t is None else ot_axis_scalar(nv, *t))
                if got != want:
                    r.fail("%s: at v=%s (new coordinate %s) the rebased tents give %s, the original tent gives %s; solution %r"
                           % (desc, v, nv, got, want, [(str(s), None if t is None else tuple(map(str, t))) for s, t in sols]))
                    break
            for scalar, t in sols:
                if t is not None and not (F(t[0]) <= F(t[1]) <= F(t[2])):
                    r.fail("%s returned an unordered tent %r" % (desc, tuple(map(str, t))))
    r.exhaustive = tier != "quick"
    r.sample({"tent": "(0, 1/2, 1)", "limits": "(-1, 1/4, 3/4)",
              "solution": [(str(s), None if t is None else tuple(map(str, t))) for s, t in rebaseTent((Q(0), Q(1, 2), Q(1)), NormalizedAxisTripleAndDistances(Q(-1), Q(1, 4), Q(3, 4)))]})
    return r


# ---------------------------------------------------------------------------------------
# 4. variation stores
# ---------------------------------------------------------------------------------------

def _axis(tag):
    from fontTools.ttLib.tables._f_v_a_r import Axis

    a = Axis()
    a.axisTag = tag
    return a


STORE_COORDS = [-1.0, -0.75, -0.5, -0.25, 0.25, 0.5, 0.75, 1.0, 0.3333740234375, -0.100036621093750]


def gen_region(rnd, axes):
    sup = {}
    for ax in rnd.sample(axes, rnd.randint(1, len(axes))):
        pk = rnd.choice(STORE_COORDS)
        same = [c for c in STORE_COORDS if (c > 0) == (pk > 0)]
        lo = rnd.choice([0.0] + [c for c in same if abs(c) <= abs(pk)])
        up = rnd.choice([c for c in same if abs(c) >= abs(pk)])
        if pk < 0:
            lo, up = (min(up, pk), max(lo, pk))
        sup[ax] = (lo, pk, up)
    return sup


def gen_delta(rnd):
    u = rnd.random()
    if u < 0.3:
        return 0
    if u < 0.6:
        return rnd.randint(-128, 127)
    if u < 0.85:
        return rnd.choice((-32768, 32767, 128, -129, 255, 256, rnd.randint(-32768, 32767)))
    return rnd.choice((32768, -32769, 65536, -65537, 2 ** 31 - 1, -2 ** 31, rnd.randint(-2 ** 31, 2 ** 31 - 1)))


def gen_store(rnd, axes, wide=True):
    """A hand-built VarStore: shared region list, several VarData with different (possibly
    repeated) region index lists, rows of every width class, zero rows and duplicate rows."""
    from fontTools.varLib.builder import buildVarRegionList, buildVarData, buildVarStore

    regions = []
    for _ in range(rnd.randint(1, 7)):
        g = gen_region(rnd, axes)
        if g not in regions:
            regions.append(g)
    datas = []
    for _ in range(rnd.randint(1, 4)):
        k = rnd.randint(0, len(regions))
        idx = rnd.sample(range(len(regions)), k)
        if idx and rnd.random() < 0.15:
            idx.append(rnd.choice(idx))          # the same region referenced twice: legal, contributions add
        style = rnd.random()
        items = []
        for _ in range(rnd.randint(0, 6)):
            if style < 0.15:
                row = [rnd.choice((-1, 0, 0, 1)) for _ in idx]      # columns holding only -1 / 0 / 1
            elif style < 0.3:
                row = [rnd.randint(-100, 100) if rnd.random() < 0.6 else 0 for _ in idx]
            elif not wide or style < 0.7:
                row = [min(32767, max(-32768, gen_delta(rnd))) for _ in idx]
            else:
                row = [gen_delta(rnd) for _ in idx]
            if len(set(idx)) < len(idx):          # contributions of a repeated region add up: keep the sum representable
                row = [min(2 ** 30 - 1, max(-2 ** 30, v)) for v in row]
            items.append(row)
            if rnd.random() < 0.2:
                items.append(list(row))
            if rnd.random() < 0.1:
                items.append([0] * len(idx))
        datas.append(buildVarData(idx, items, optimize=rnd.random() < 0.5))
    return buildVarStore(buildVarRegionList(regions, axes), datas)


def store_lattice(rnd, axes, n):
    vals = [Q(-1), Q(-3, 4), Q(-5, 8), Q(-1, 2), Q(-1, 4), Q(-1, 10), Q(0), Q(1, 8), Q(1, 4), Q(1, 3), Q(1, 2), Q(5, 8), Q(3, 4), Q(7, 8), Q(1)]
    full = list(itertools.product(vals, repeat=len(axes)))
    if len(full) > n:
        full = rnd.sample(full, n)
    return [dict(zip(axes, p)) for p in full]


def spec_store_value(store, axes, varIdx, loc):
    """Item variation store semantics from the spec, read straight from the table objects."""
    if varIdx == 0xFFFFFFFF:
        return Fraction(0)
    data = store.VarData[varIdx >> 16]
    row = data.Item[varIdx & 0xFFFF]
    total = Fraction(0)
    for ri, d in zip(data.VarRegionIndex, row):
        reg = store.VarRegionList.Region[ri]
        s = Fraction(1)
        for tag, ra in zip(axes, reg.VarRegionAxis):
            s *= ot_axis_scalar(loc.get(tag, 0), ra.StartCoord, ra.PeakCoord, ra.EndCoord)
        total += d * s
    return total


def all_varidxes(store):
    return [(major << 16) + minor for major, data in enumerate(store.VarData) for minor in range(len(data.Item))]


def recompile(store):
    from fontTools.ttLib import TTFont
    from fontTools.ttLib.tables.otBase import OTTableReader, OTTableWriter
    from fontTools.ttLib.tables.otTables import VarStore

    font = TTFont()
    w = OTTableWriter()
    store.compile(w, font)
    out = VarStore()
    out.decompile(OTTableReader(w.getAllData()), font)
    return out


def check_store_layout(store):
    """NumShorts / word-size classes must be able to hold every stored delta."""
    for major, data in enumerate(store.VarData):
        if data.VarRegionCount != len(data.VarRegionIndex) or data.ItemCount != len(data.Item):
            return "VarData %d: counts do not match lists" % major
        if any(not 0 <= i < len(store.VarRegionList.Region) for i in data.VarRegionIndex):
            return "VarData %d references a region outside the region list" % major
        longWords = bool(data.NumShorts & 0x8000)
        nWide = data.NumShorts & 0x7FFF
        for row in data.Item:
            if len(row) != len(data.VarRegionIndex):
                return "VarData %d: row length %d for %d regions" % (major, len(row), len(data.VarRegionIndex))
            for col, v in enumerate(row):
                bits = (32 if col < nWide else 16) if longWords else (16 if col < nWide else 8)
                if not -(1 << (bits - 1)) <= v < (1 << (bits - 1)):
                    return "VarData %d: delta %d in column %d does not fit %d bits (NumShorts=0x%04X)" % (major, v, col, bits, data.NumShorts)
    return None


@check("C09")
def varstore_optimize_subset_prune_keep_values(tier, rnd):
    """For every item of every store and every lattice location, the value (spec semantics,
    exact) is the same after VarStore.optimize (with and without NO_VARIATION_INDEX), after
    subset_varidxes (retainFirstMap on/off, advance indices first), after prune_regions, and
    after compiling + decompiling the rewritten store; the real VarStoreInstancer run on exact
    rationals agrees with the spec value; column widths can hold every delta."""
    from fontTools.varLib.varStore import VarStoreInstancer

    r = Result("seeded hand-built stores (1..3 axes, 1..7 regions with shared/intermediate/negative/non-grid F2Dot14 coordinates, 1..4 VarData with "
               "arbitrary and repeated region index lists, byte/word/long/zero/duplicate rows) x lattice of up to 60 locations; "
               "distinct = (operation, axes, regions, VarData count, has long words)")
    rounds = 45 if tier == "quick" else 700
    for it in range(rounds):
        axes = ["a", "b", "c"][: rnd.randint(1, 3)]
        fvar = [_axis(t) for t in axes]
        store = gen_store(rnd, axes)
        idxes = all_varidxes(store)
        lattice = store_lattice(rnd, axes, 40 if tier == "quick" else 60)
        before = {vi: [spec_store_value(store, axes, vi, loc) for loc in lattice] for vi in idxes}
        hasLong = any(abs(v) > 32768 for d in store.VarData for row in d.Item for v in row)
        shape = (len(axes), len(store.VarRegionList.Region), len(store.VarData), hasLong)
        desc = "store regions=%r data=%r" % ([[(ra.StartCoord, ra.PeakCoord, ra.EndCoord) for ra in reg.VarRegionAxis] for reg in store.VarRegionList.Region],
                                              [(list(d.VarRegionIndex), d.Item) for d in store.VarData])

        def compare(op, new, mapping, which):
            try:
                _compare(op, new, mapping, which)
            except Exception as e:
                r.fail("%s: evaluating the rewritten store raised %s: %s; %s" % (op, type(e).__name__, e, desc))

        def _compare(op, new, mapping, which):
            err = check_store_layout(new)
            if err:
                r.fail("%s: %s; %s" % (op, err, desc))
                return
            for variant, st in (("", new), (" after compile/decompile", recompile(new))):
                inst = VarStoreInstancer(st, fvar)
                for k, loc in enumerate(lattice):
                    inst.setLocation(loc)
                    for vi in which:
                        if vi not in mapping:
                            r.fail("%s: no mapping for VarIdx 0x%08X; %s" % (op, vi, desc))
                            return
                        got = spec_store_value(st, axes, mapping[vi], loc)
                        if got != before[vi][k]:
                            r.fail("%s%s: item 0x%08X -> 0x%08X at %r evaluates to %s, was %s; %s"
                                   % (op, variant, vi, mapping[vi], {a: str(x) for a, x in loc.items()}, got, before[vi][k], desc))
                            return
                        real = inst[mapping[vi]]
                        if F(real) != got:
                            r.fail("%s%s: VarStoreInstancer[0x%08X] at %r = %s, spec value %s; %s"
                                   % (op, variant, mapping[vi], {a: str(x) for a, x in loc.items()}, real, got, desc))
                            return

        # the untouched store: real instancer == spec (also after a binary round trip)
        r.case(("identity",) + shape)
        compare("identity", copy.deepcopy(store), {vi: vi for vi in idxes}, idxes)
        for useNo in (True, False):
            r.case(("optimize", useNo) + shape)
            new = copy.deepcopy(store)
            try:
                mapping = new.optimize(use_NO_VARIATION_INDEX=useNo)
            except Exception as e:
                r.fail("optimize(use_NO_VARIATION_INDEX=%s) raised %s: %s; %s" % (useNo, type(e).__name__, e, desc))
                continue
            compare("optimize(use_NO_VARIATION_INDEX=%s)" % useNo, new, mapping, idxes)
            used = {i for d in new.VarData for i in d.VarRegionIndex}
            if used != set(range(len(new.VarRegionList.Region))):
                r.fail("optimize left unused regions in the region list; %s" % desc)
        if idxes:
            for retain in (False, True):
                r.case(("subset", retain) + shape)
                new = copy.deepcopy(store)
                keep = [vi for vi in idxes if rnd.random() < 0.5] or [rnd.choice(idxes)]
                adv = {vi & 0xFFFF for vi in keep if vi >> 16 == 0 and rnd.random() < 0.4}
                try:
                    mapping = new.subset_varidxes(set(keep) | {0xFFFFFFFF}, optimize=rnd.random() < 0.5, retainFirstMap=retain, advIdxes=adv)
                except Exception as e:
                    r.fail("subset_varidxes raised %s: %s; keep=%r %s" % (type(e).__name__, e, keep, desc))
                    continue
                compare("subset_varidxes(keep=%r, retainFirstMap=%s, advIdxes=%r)" % (keep, retain, sorted(adv)), new, mapping, keep)
                if not retain and adv and [mapping[a] for a in sorted(adv)] != list(range(len(adv))):
                    r.fail("subset_varidxes: advance indices %r are not listed first: %r; %s" % (sorted(adv), [mapping[a] for a in sorted(adv)], desc))
        r.case(("prune",) + shape)
        from fontTools.varLib.builder import buildVarRegion
        new2 = copy.deepcopy(store)
        extra = [buildVarRegion(gen_region(rnd, axes), axes) for _ in range(rnd.randint(0, 3))]
        regs = list(new2.VarRegionList.Region)
        slots = sorted(rnd.randint(0, len(regs)) for _ in extra)
        remap = {}
        merged = []
        ei = 0
        for i in range(len(regs) + 1):
            while ei < len(extra) and slots[ei] == i:
                merged.append(extra[ei])
                ei += 1
            if i < len(regs):
                remap[i] = len(merged)
                merged.append(regs[i])
        new2.VarRegionList.Region = merged
        new2.VarRegionList.RegionCount = len(merged)
        for d in new2.VarData:
            d.VarRegionIndex = [remap[i] for i in d.VarRegionIndex]
        new2.prune_regions()
        compare("prune_regions", new2, {vi: vi for vi in idxes}, idxes)
        used = {i for d in new2.VarData for i in d.VarRegionIndex}
        if used != set(range(len(new2.VarRegionList.Region))) or new2.VarRegionList.RegionCount != len(new2.VarRegionList.Region):
            r.fail("prune_regions left unused regions or a stale RegionCount; %s" % desc)
    r.sample({"axes": axes, "regions": len(store.VarRegionList.Region), "varData": [(list(d.VarRegionIndex), d.Item[:2]) for d in store.VarData][:2]})
    return r


@check("C09")
def varstore_optimize_more_rows_than_one_vardata(tier, rnd):
    """VarStore.optimize on a store whose rows of ONE encoding do not fit into a single VarData
    (more than 0xFFFF distinct rows, spread over two input VarData): the returned old -> new
    mapping sends every item to a row with the same delta per region (regions compared by their
    axis coordinates), the store's layout is consistent, and no VarData has more than 0xFFFF rows."""
    from fontTools.varLib.builder import buildVarRegionList, buildVarData, buildVarStore
    r = Result("one generated store per shape: 1 axis / 2 regions, rows (200 + i % 300, 200 + i // 300) split over two VarData "
               "(40000 + k rows, k so that the total is 65535, 65536 or 70100); distinct = (total rows, use_NO_VARIATION_INDEX)")
    regions = [{"a": (0.0, 0.5, 1.0)}, {"a": (0.5, 1.0, 1.0)}]
    for total in (65535, 65536, 70100):
        rows = [[200 + (i % 300), 200 + (i // 300)] for i in range(total)]
        datas = [buildVarData([0, 1], rows[:40000], optimize=False), buildVarData([1, 0], [[b, a_] for a_, b in rows[40000:]], optimize=False)]
        store = buildVarStore(buildVarRegionList(regions, ["a"]), datas)

        def region_key(st, i):
            return tuple((ra.StartCoord, ra.PeakCoord, ra.EndCoord) for ra in st.VarRegionList.Region[i].VarRegionAxis)

        def row_view(st, vi):
            d = st.VarData[vi >> 16]
            return {region_key(st, ri): v for ri, v in zip(d.VarRegionIndex, d.Item[vi & 0xFFFF]) if v}
        before = {vi: row_view(store, vi) for vi in all_varidxes(store)}
        for useNo in (True, False):
            r.case((total, useNo))
            new = copy.deepcopy(store)
            try:
                mapping = new.optimize(use_NO_VARIATION_INDEX=useNo)
            except Exception as e:
                r.fail("optimize of %d same-encoding rows raised %s: %s" % (total, type(e).__name__, e))
                continue
            err = check_store_layout(new)
            if err:
                r.fail("optimize of %d same-encoding rows: %s" % (total, err))
                continue
            if any(len(d.Item) > 0xFFFF for d in new.VarData):
                r.fail("optimize of %d same-encoding rows: a VarData has %d rows" % (total, max(len(d.Item) for d in new.VarData)))
            bad = [vi for vi in before if vi not in mapping or row_view(new, mapping[vi]) != before[vi]]
            if bad:
                vi = bad[0]
                r.fail("optimize of %d same-encoding rows (VarData sizes %r): %d items changed value, e.g. 0x%08X -> 0x%08X: deltas %r became %r"
                       % (total, [len(d.Item) for d in new.VarData], len(bad), vi, mapping.get(vi, -1), before[vi], row_view(new, mapping[vi]) if vi in mapping else None))
    r.sample({"rows": 70100, "regions": regions})
    return r


@check("C09")
def varstore_builder_matches_model(tier, rnd):
    """OnlineVarStoreBuilder over several models (full and sparse sub-models sharing regions):
    for every stored master vector, base + VarStoreInstancer[varIdx] at every location equals
    the model's own rounded deltas x OpenType region scalars (exact), also after optimize and
    a binary round trip; at master locations the masters are reproduced up to the rounding of the
    deltas (at most 1/2 per delta).
    OnlineMultiVarStoreBuilder / MultiVarStoreInstancer / subset_varidxes likewise for vectors."""
    from fontTools.varLib.models import VariationModel
    from fontTools.varLib.varStore import OnlineVarStoreBuilder, VarStoreInstancer
    from fontTools.varLib.multiVarStore import OnlineMultiVarStoreBuilder, MultiVarStoreInstancer
    from fontTools.misc.roundTools import otRound

    r = Result("master sets with F2Dot14-exact coordinates (1..3 axes, on/corners/off/sparse) x 2..6 integer master vectors (repeated vectors, "
               "constant vectors, 16/32-bit magnitudes) x sparse variants through sub-models; distinct = (axes, kind, masters, sparse?)")
    f2 = [Q(k, 16384) for k in (-16384, -12288, -8192, -5461, -4096, 4096, 5461, 8192, 10923, 12288, 16384)]

    def one_build(nAxes, kind):
        axes, locs = gen_master_locations(rnd, nAxes, kind)
        # snap to F2Dot14 so that the binary round trip is lossless
        snapped, seen = [], set()
        for l in locs:
            l2 = {k: min(f2, key=lambda c: abs(c - v)) for k, v in l.items()}
            key = tuple(sorted(l2.items()))
            if key not in seen:
                seen.add(key)
                snapped.append(l2)
        locs = snapped
        rnd.shuffle(locs)
        fvar = [_axis(t) for t in axes]
        model = VariationModel(locs)
        builder = OnlineVarStoreBuilder(axes)
        mbuilder = OnlineMultiVarStoreBuilder(axes)
        stored = []       # (varIdx, base, deltas, supports, masters-or-None list)
        mstored = []
        scale = rnd.choice((100, 1000, 30000, 40000, 10 ** 6))
        for k in range(rnd.randint(2, 6)):
            if k and rnd.random() < 0.2:
                vals = list(stored[-1][4])
            elif rnd.random() < 0.15:
                vals = [rnd.randint(-scale, scale)] * len(locs)
            else:
                vals = [rnd.randint(-scale, scale) for _ in locs]
            sparse = rnd.random() < 0.4
            items = [v if (not l or not sparse or rnd.random() < 0.6) else None for l, v in zip(locs, vals)]
            r.case((nAxes, kind, len(locs), None in items))
            sub, subItems = model.getSubModel(items)
            builder.setModel(sub)
            base, varIdx = builder.storeMasters(subItems, round=otRound)
            deltas = sub.getDeltas(subItems, round=otRound)
            stored.append((varIdx, base, deltas, sub.supports, items))
            if None not in items:
                mbuilder.setModel(model)
                vecs = [(v, -v // 3, 7) for v in vals]
                from fontTools.misc.vector import Vector
                mbase, mIdx = mbuilder.storeMasters([Vector(v) for v in vecs], round=lambda v: Vector(otRound(x) for x in v))
                mdeltas = model.getDeltas([Vector(v) for v in vecs], round=lambda v: Vector(otRound(x) for x in v))
                mstored.append((mIdx, mbase, mdeltas, model.supports))
        store = builder.finish()
        desc = "locations=%r stored=%r" % ([{k: str(v) for k, v in l.items()} for l in locs], [s[4] for s in stored])
        lattice = store_lattice(rnd, axes, 12) + locs
        opt = copy.deepcopy(store)
        mapping = opt.optimize()
        variants = [("builder", store, None), ("builder+compile", recompile(store), None),
                    ("optimize", opt, mapping), ("optimize+compile", recompile(opt), mapping)]
        for name, st, mp in variants:
            err = check_store_layout(st)
            if err:
                r.fail("%s: %s; %s" % (name, err, desc))
                continue
            inst = VarStoreInstancer(st, fvar)
            for loc in lattice:
                inst.setLocation(loc)
                for varIdx, base, deltas, supports, items in stored:
                    vi = varIdx if mp is None else mp[varIdx]
                    want = sum((F(d) * ot_scalar(loc, s) for d, s in zip(deltas, supports)), Fraction(0))
                    got = F(base) + F(inst[vi])
                    if got != want:
                        r.fail("%s: base + instancer[0x%08X] at %r = %s, model deltas x regions = %s; masters %r; %s"
                               % (name, vi, {a: str(x) for a, x in loc.items()}, got, want, items, desc))
                        break
                else:
                    continue
                break
        # deltas of integer masters at on-lattice models: masters reproduced up to the rounding of deltas only
        inst = VarStoreInstancer(store, fvar)
        for varIdx, base, deltas, supports, items in stored:
            for loc, v in zip(locs, items):
                if v is None:
                    continue
                inst.setLocation(loc)
                got = F(base) + F(inst[varIdx])
                # every delta was rounded by at most 1/2 and enters with a weight in [0,1]
                if abs(got - v) > Fraction(len(deltas), 2):
                    r.fail("stored masters %r: value at master %r is %s, master is %s; %s" % (items, loc, got, v, desc))
        if mstored:
            mstore = mbuilder.finish()
            keep = [m for m in mstored if rnd.random() < 0.6] or mstored[:1]
            sub_store = copy.deepcopy(mstore)
            mmap = sub_store.subset_varidxes({m[0] for m in keep})
            for name, st, mp in (("multi", mstore, None), ("multi-subset", sub_store, mmap)):
                minst = MultiVarStoreInstancer(st, fvar)
                for loc in lattice[:8]:
                    minst.setLocation(loc)
                    for mIdx, mbase, mdeltas, supports in (mstored if mp is None else keep):
                        vi = mIdx if mp is None else mp[mIdx]
                        want = [sum((F(d[c]) * ot_scalar(loc, s) for d, s in zip(mdeltas, supports)), Fraction(0)) for c in range(3)]
                        got = minst[vi]
                        got = [F(mbase[c]) + (F(got[c]) if len(got) else 0) for c in range(3)]
                        if got != want:
                            r.fail("%s: base + MultiVarStoreInstancer[0x%08X] at %r = %s, model deltas x regions = %s; %s"
                                   % (name, vi, {a: str(x) for a, x in loc.items()}, list(map(str, got)), list(map(str, want)), desc))
                            break
        return locs, stored

    locs, stored = [], [(None, None, None, None, None)]
    rounds = 9 if tier == "quick" else 120
    for nAxes in (1, 2, 3):
        for kind in ("on", "corners", "off", "sparse"):
            for _ in range(rounds):
                try:
                    locs, stored = one_build(nAxes, kind)
                except Exception as e:
                    r.fail("building / evaluating the store raised %s: %s (axes=%d, kind=%s)" % (type(e).__name__, e, nAxes, kind))
    r.sample({"locations": [{k: str(v) for k, v in l.items()} for l in locs], "masters": stored[0][4]})
    return r


# ---------------------------------------------------------------------------------------
# 5. IUP
# ---------------------------------------------------------------------------------------

def spec_iup_contour(deltas, coords):
    """gvar 'inferred deltas for un-referenced point numbers', one contour, exact."""
    n = len(deltas)
    ref = [i for i, d in enumerate(deltas) if d is not None]
    if not ref:
        return [(Fraction(0), Fraction(0))] * n
    out = [None] * n
    for i in range(n):
        if deltas[i] is not None:
            out[i] = (F(deltas[i][0]), F(deltas[i][1]))
            continue
        prev = next(j % n for j in range(i - 1, i - n - 1, -1) if deltas[j % n] is not None)
        nxt = next(j % n for j in range(i + 1, i + n + 1) if deltas[j % n] is not None)
        res = []
        for k in (0, 1):
            pc, nc, c = F(coords[prev][k]), F(coords[nxt][k]), F(coords[i][k])
            pd, nd = F(deltas[prev][k]), F(deltas[nxt][k])
            if pc == nc:
                res.append(pd if pd == nd else Fraction(0))
                continue
            if pc > nc:
                pc, nc, pd, nd = nc, pc, nd, pd
            if c <= pc:
                res.append(pd)
            elif c >= nc:
                res.append(nd)
            else:
                res.append(pd + (nd - pd) * (c - pc) / (nc - pc))
        out[i] = tuple(res)
    return out


def spec_iup(deltas, coords, ends):
    n = len(coords)
    out = []
    start = 0
    for end in list(ends) + [n - 4, n - 3, n - 2, n - 1]:
        out.extend(spec_iup_contour(deltas[start:end + 1], coords[start:end + 1]))
        start = end + 1
    return out


def _mono(rnd, lo, hi):
    """A monotone non-decreasing, integer-valued, piecewise linear function on ints."""
    a, b = sorted((rnd.randint(lo, hi), rnd.randint(lo, hi)))
    da, db = sorted((rnd.randint(-60, 60), rnd.randint(-60, 60)))
    kind = rnd.randrange(3)

    def f(x):
        if kind == 0 or a == b:
            return da if x < (a + b) / 2 else db
        if x <= a:
            return da
        if x >= b:
            return db
        return da + ((db - da) * (x - a)) // (b - a)
    return f


def gen_contour(rnd, n, style):
    """coords are non-monotonic around the contour unless style says otherwise."""
    if style == "polygon":
        coords = [(rnd.randint(-50, 50), rnd.randint(-50, 50)) for _ in range(n)]
    elif style == "grid":       # many equal coordinates
        coords = [(rnd.choice((0, 10, 20, 30)), rnd.choice((0, 10, 20))) for _ in range(n)]
    else:                         # zig-zag in x, monotone in y
        coords = [((-1) ** i * rnd.randint(0, 40), 7 * i) for i in range(n)]
    return coords


def gen_deltas(rnd, coords, mode):
    n = len(coords)
    if mode == "monotone":        # dx = f(x), dy = g(y), f and g monotone: nothing is forced
        f, g = _mono(rnd, -50, 50), _mono(rnd, -50, 50)
        return [(f(x), g(y)) for x, y in coords]
    if mode == "near-constant":
        c = (rnd.randint(-20, 20), rnd.randint(-20, 20))
        return [(c[0] + rnd.choice((0, 0, 0, 1, -1)), c[1] + rnd.choice((0, 0, 1))) for _ in coords]
    if mode == "inferred":        # explicit deltas at a few points, the rest as IUP would infer (rounded)
        k = rnd.randint(1, max(1, n // 2))
        some = set(rnd.sample(range(n), k))
        part = [(rnd.randint(-40, 40), rnd.randint(-40, 40)) if i in some else None for i in range(n)]
        full = spec_iup_contour(part, coords)
        return [(int(round(x)), int(round(y))) for x, y in full]
    if mode == "inferred-exact":  # the same, scaled so that the inferred deltas are integers
        k = rnd.randint(1, max(1, n // 2))
        some = set(rnd.sample(range(n), k))
        part = [(rnd.randint(-9, 9), rnd.randint(-9, 9)) if i in some else None for i in range(n)]
        full = spec_iup_contour(part, coords)
        m = 1
        for x, y in full:
            for v in (x, y):
                m = m * v.denominator // __import__("math").gcd(m, v.denominator)
        m = min(m, 10 ** 6)
        return [(int(x * m) if (x * m).denominator == 1 else int(round(x * m)), int(y * m) if (y * m).denominator == 1 else int(round(y * m))) for x, y in full]
    return [(rnd.randint(-30, 30), rnd.randint(-30, 30)) for _ in coords]


def within(a, b, tol):
    dx, dy = F(a[0]) - F(b[0]), F(a[1]) - F(b[1])
    if tol == 0:
        return dx == 0 and dy == 0
    return dx * dx + dy * dy <= F(tol) * F(tol) * (1 + Fraction(1, 10 ** 9))


@check("C09")
def iup_optimize_then_infer_reproduces_deltas(tier, rnd):
    """iup_delta(iup_delta_optimize(deltas, coords, ends, tol), coords, ends) is within tol of
    deltas at every point (tol 0: identical), kept deltas are the original ones, and the result
    does not depend on where the contour starts in more than its rotation-independent validity.
    Reconstruction is checked twice: with the real iup_delta and with the exact spec oracle."""
    from fontTools.varLib.iup import iup_delta, iup_delta_optimize, iup_contour_optimize, _iup_contour_bound_forced_set

    r = Result("contours of 1..14 points (polygon / grid with equal coordinates / zig-zag; non-monotonic) x delta modes (monotone-in-coordinate = "
               "empty forced set, near-constant, IUP-generated, IUP-generated exact, random) x tolerance {0, 0.5, 1, 2.5} x rotations of the "
               "start point; glyph-level cases with several contours + phantom points; distinct = (points, style, mode, tolerance, forced set empty?)")
    rounds = 9 if tier == "quick" else 90
    tolerances = (0, 0.5, 1, 2.5)
    nEmpty = 0
    for n in range(1, 15):
        for style in ("polygon", "grid", "zigzag"):
            for mode in ("monotone", "near-constant", "inferred", "inferred-exact", "random"):
                for _ in range(rounds):
                    coords = gen_contour(rnd, n, style)
                    deltas = gen_deltas(rnd, coords, mode)
                    tol = rnd.choice(tolerances)
                    rots = range(n) if (tier != "quick" or n <= 4) else sorted({0, rnd.randrange(n), rnd.randrange(n)})
                    for k in rots:
                        c = coords[k:] + coords[:k]
                        d = deltas[k:] + deltas[:k]
                        forcedEmpty = not _iup_contour_bound_forced_set(d, c, tol)
                        nEmpty += forcedEmpty
                        r.case((n, style, mode, tol, forcedEmpty))
                        desc = "coords=%r deltas=%r tolerance=%r" % (c, d, tol)
                        try:
                            opt = iup_contour_optimize(list(d), list(c), tol)
                        except Exception as e:
                            r.fail("iup_contour_optimize raised %s: %s; %s" % (type(e).__name__, e, desc))
                            continue
                        if len(opt) != n or any(o is not None and tuple(o) != tuple(x) for o, x in zip(opt, d)):
                            r.fail("iup_contour_optimize changed an explicit delta or the length: %r; %s" % (opt, desc))
                            continue
                        phantom = [(0, 0)] * 4
                        full = spec_iup(list(opt) + phantom, c + [(0, 0), (100, 0), (0, 100), (0, -20)], [n - 1])
                        real = iup_delta(list(opt) + phantom, c + [(0, 0), (100, 0), (0, 100), (0, -20)], [n - 1])
                        for i in range(n):
                            if not within(full[i], d[i], tol):
                                r.fail("point %d: inferred delta %s (spec oracle) differs from %r by more than %r; optimized=%r; %s"
                                       % (i, tuple(map(str, full[i])), d[i], tol, opt, desc))
                                break
                            if not within(real[i], d[i], tol) or not within(real[i], full[i], Fraction(1, 10 ** 6)):
                                r.fail("point %d: iup_delta gives %r, original %r, spec oracle %s, tolerance %r; optimized=%r; %s"
                                       % (i, real[i], d[i], tuple(map(str, full[i])), tol, opt, desc))
                                break
    # whole glyphs: several contours, phantom points, shared tolerance
    for _ in range(60 if tier == "quick" else 1500):
        coords, deltas, ends = [], [], []
        for _c in range(rnd.randint(0, 4)):
            n = rnd.randint(1, 9)
            c = gen_contour(rnd, n, rnd.choice(("polygon", "grid", "zigzag")))
            coords += c
            deltas += gen_deltas(rnd, c, rnd.choice(("monotone", "near-constant", "inferred", "random")))
            ends.append(len(coords) - 1)
        coords += [(0, 0), (rnd.randint(100, 900), 0), (0, 800), (0, -200)]
        deltas += [(0, 0), (rnd.randint(-50, 50), 0), (0, 0), (0, 0)]
        tol = rnd.choice(tolerances)
        r.case(("glyph", len(ends), tol))
        desc = "coords=%r deltas=%r ends=%r tolerance=%r" % (coords, deltas, ends, tol)
        opt = iup_delta_optimize(list(deltas), list(coords), list(ends), tolerance=tol)
        full = spec_iup(opt, coords, ends)
        real = iup_delta(list(opt), list(coords), list(ends))
        for i in range(len(coords)):
            if not within(full[i], deltas[i], tol) or not within(real[i], deltas[i], tol):
                r.fail("glyph point %d: inferred %s / %r, original %r; optimized=%r; %s" % (i, tuple(map(str, full[i])), real[i], deltas[i], opt, desc))
                break
    r.sample({"coords": coords, "deltas": deltas, "ends": ends, "tolerance": tol, "optimized": opt, "contour_cases_with_empty_forced_set": nEmpty})
    return r


@check("C09")
def iup_delta_matches_spec_and_tuplevariation_optimize(tier, rnd):
    """iup_delta == the gvar inference rule (exact, rational coordinates and deltas, every
    subset of referenced points of small contours); TupleVariation.optimize: the kept form
    infers back to the original deltas within tolerance, is never larger than the unoptimised
    form when compiled, and survives compile -> decompile."""
    from fontTools.varLib.iup import iup_delta
    from fontTools.ttLib.tables.TupleVariation import TupleVariation, compileTupleVariationStore, decompileTupleVariationStore

    r = Result("all subsets of referenced points of seeded contours with <= 7 points (rational values) + seeded subsets of larger multi-contour glyphs; "
               "TupleVariation.optimize on seeded glyphs x tolerance {0, 0.5, 1, 3}; distinct = (points, referenced) / ('tv', points, tolerance, optimised?)")
    for n in range(1, 8):
        for _ in range(3 if tier == "quick" else 25):
            style = rnd.choice(("polygon", "grid", "zigzag"))
            coords = [(Q(x, rnd.choice((1, 1, 2, 3))), Q(y)) for x, y in gen_contour(rnd, n, style)]
            deltas = [(Q(rnd.randint(-30, 30), rnd.choice((1, 1, 3))), Q(rnd.randint(-30, 30))) for _ in coords]
            ph_c = [(Q(0), Q(0)), (Q(500), Q(0)), (Q(0), Q(700)), (Q(0), Q(-100))]
            for mask in range(1 << n):
                part = [deltas[i] if mask >> i & 1 else None for i in range(n)]
                ph_d = [(Q(0), Q(0)) if rnd.random() < 0.5 else None for _ in range(4)]
                r.case((n, bin(mask).count("1")))
                got = iup_delta(part + ph_d, coords + ph_c, [n - 1])
                want = spec_iup(part + ph_d, coords + ph_c, [n - 1])
                if [(F(a), F(b)) for a, b in got] != want:
                    r.fail("iup_delta(%r, %r) = %r, gvar inference rule gives %r" % (
                        [None if p is None else tuple(map(str, p)) for p in part], [tuple(map(str, p)) for p in coords],
                        [tuple(map(str, p)) for p in got], [tuple(map(str, p)) for p in want]))
                    break
    for _ in range(150 if tier == "quick" else 3000):
        coords, deltas, ends = [], [], []
        for _c in range(rnd.randint(1, 4)):
            n = rnd.randint(1, 10)
            c = gen_contour(rnd, n, rnd.choice(("polygon", "grid", "zigzag")))
            coords += c
            deltas += gen_deltas(rnd, c, rnd.choice(("monotone", "near-constant", "inferred", "inferred-exact", "random")))
            ends.append(len(coords) - 1)
        coords += [(0, 0), (rnd.randint(100, 900), 0), (0, 800), (0, -200)]
        deltas += [(0, 0), (rnd.choice((0, 0, 13, -700)), 0), (0, 0), (0, 0)]
        part = [d if rnd.random() < 0.5 else None for d in deltas]
        r.case(("glyph-infer", len(coords)))
        got = iup_delta(list(part), list(coords), list(ends))
        want = spec_iup(part, coords, ends)
        if any(not within(a, b, Fraction(1, 10 ** 6)) for a, b in zip(got, want)):
            r.fail("iup_delta(%r, %r, %r) = %r, gvar inference rule gives %r" % (part, coords, ends, got, [tuple(map(str, p)) for p in want]))
        # TupleVariation.optimize
        tol = rnd.choice((0, 0.5, 1, 3))
        axes = {"wght": (0.0, 1.0, 1.0)} if rnd.random() < 0.5 else {"wght": (0.25, 0.5, 1.0), "wdth": (-1.0, -1.0, 0.0)}
        tv = TupleVariation(axes, list(deltas))
        axisTags = ["wdth", "wght"]
        plain = TupleVariation(axes, list(deltas)).compile(axisTags)
        tv.optimize(list(coords), list(ends), tolerance=tol)
        optimised = None in tv.coordinates
        r.case(("tv", len(coords), tol, optimised))
        desc = "deltas=%r coords=%r ends=%r tolerance=%r -> %r" % (deltas, coords, ends, tol, tv.coordinates)
        kept = tv.compile(axisTags)
        if len(kept[0]) + len(kept[1]) > len(plain[0]) + len(plain[1]):
            r.fail("TupleVariation.optimize kept a form that compiles larger (%d > %d bytes); %s" % (len(kept[0]) + len(kept[1]), len(plain[0]) + len(plain[1]), desc))
        if any(k is not None and tuple(k) != tuple(d) for k, d in zip(tv.coordinates, deltas)) or len(tv.coordinates) != len(deltas):
            r.fail("TupleVariation.optimize changed explicit deltas; %s" % desc)
        if tv.hasImpact():
            count, tuples, data = compileTupleVariationStore([tv], len(coords), axisTags, {}, useSharedPoints=rnd.random() < 0.5)
            blob = tuples + data
            back = decompileTupleVariationStore("gvar", axisTags, count, len(coords), [], blob, 0, len(tuples))
            if len(back) != 1 or back[0].coordinates != tv.coordinates or back[0].axes != tv.axes:
                r.fail("optimised TupleVariation does not survive compile/decompile: %r; %s" % (back, desc))
                continue
            tv = back[0]
        tv2 = TupleVariation(tv.axes, list(tv.coordinates))
        if tv2.hasImpact():
            tv2.calcInferredDeltas(list(coords), list(ends))
            recon = tv2.coordinates
        else:
            recon = [(0, 0)] * len(coords)
        exact = spec_iup(list(tv.coordinates), coords, ends)
        for i in range(len(coords)):
            if not within(recon[i], deltas[i], tol) or not within(exact[i], deltas[i], tol):
                r.fail("TupleVariation.optimize: point %d infers to %r (spec %s), original %r; %s" % (i, recon[i], tuple(map(str, exact[i])), deltas[i], desc))
                break
    r.sample({"coords": coords[:8], "deltas": deltas[:8], "optimized": tv.coordinates[:8]})
    return r
