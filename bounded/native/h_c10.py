"""C10: a variable font built by varLib.build reproduces each of its masters.

Oracle = HarfBuzz (uharfbuzz) evaluating the built font (saved to bytes) at every master location
against the compiled static master, plus an exact (fractions.Fraction) re-evaluation of the
ItemVariationStores (HVAR / MVAR).  Masters are generated in memory (FontBuilder + feaLib) from a
seeded family description: 1..3 axes (asymmetric, default at an end, axis maps), on-axis,
intermediate and corner masters, sparse masters (missing glyphs or empty placeholder glyphs),
shuffled source order, TrueType (incl. composites) and CFF outlines, kerning with format-1
exceptions + format-2 classes, mark anchors, OS/2 / post metrics.
"""
import io
import math
import os
from fractions import Fraction

from harness import check, Result

F = Fraction
SPARSE_ADVANCE = 0xFFFF          # documented varLib sentinel: "this master has no metrics for the glyph"
UNDERLINE_SENTINEL = -0x8000     # documented varLib sentinel for post.underline* of sparse masters

# glyph -> list of contours, each a list of segment kinds after the moveTo ("l" 1 point, "c" 3 points)
STRUCT = {
    ".notdef": [["l", "l", "l"]],
    "space": [],
    "A": [["l", "l", "c", "l"]],
    "B": [["l", "c", "l"], ["l", "l", "l"]],
    "V": [["l", "l"]],
    "acutecomb": [["l", "l", "l"]],
    "Aacute": None,                 # composite A + acutecomb (TrueType); simple outline in CFF families
}
CFF_AACUTE = [["l", "l", "l", "l"]]
ORDER = [".notdef", "space", "A", "B", "V", "acutecomb", "Aacute"]
CMAP = {0x20: "space", 0x41: "A", 0x42: "B", 0x56: "V", 0x301: "acutecomb", 0xC1: "Aacute"}
TEXTS = ["AV", "AB", "BV", "VA", "VB", "BA", "AA", "Á", "B́V", "ÁV", "A V", "VAVB́"]
EXC_CANDIDATES = [("A", "V"), ("A", "B"), ("B", "V"), ("V", "A"), ("Aacute", "V"), ("A", "A")]

# name, tag, (min, default, max) user, axis map [(user, design)] or None
AXES = [
    ("Weight", "wght", (100, 400, 900), None),
    ("Weight", "wght", (100, 400, 900), [(100, 20), (400, 84), (600, 132), (900, 212)]),
    ("Weight", "wght", (100, 400, 900), [(100, 100), (400, 400), (900, 900)]),       # identity map
    ("Width", "wdth", (50, 100, 200), None),
    ("Width", "wdth", (75, 100, 100), [(75, 0), (100, 1024)]),                        # default == max
    ("Optical", "opsz", (8, 8, 144), [(8, 0), (20, 256), (72, 768), (144, 1024)]),    # default == min
    ("Extra", "XTRA", (0, 512, 1024), [(0, 0), (256, 128), (512, 512), (1024, 1024)]),
    ("Slant", "slnt", (-16, 0, 0), None),
]


# ---------------------------------------------------------------------------------------------
# independent helpers
# ---------------------------------------------------------------------------------------------
def _pl(x, pairs):
    """exact piecewise linear interpolation through sorted (x, y) pairs (clamped outside)."""
    x = F(x)
    pairs = [(F(a), F(b)) for a, b in pairs]
    if x <= pairs[0][0]:
        return pairs[0][1]
    for (a, b), (c, d) in zip(pairs, pairs[1:]):
        if x <= c:
            return b + (x - a) * (d - b) / (c - a)
    return pairs[-1][1]


def _norm(v, lo, de, hi):
    v, lo, de, hi = F(v), F(lo), F(de), F(hi)
    v = max(lo, min(hi, v))
    if v < de:
        return (v - de) / (de - lo)
    if v > de:
        return (v - de) / (hi - de)
    return F(0)


def _quiet():
    import logging
    logging.getLogger("fontTools").setLevel(logging.ERROR)


def _hb(data):
    import uharfbuzz as hb
    return hb.Font(hb.Face(data))


class _Rec:
    """minimal segment pen for hb.Font.draw_glyph_with_pen: records op structure and coordinates."""

    def __init__(self):
        self.ops, self.xy = [], []

    def moveTo(self, p):
        self.ops.append("M"); self.xy.extend(p)

    def lineTo(self, p):
        self.ops.append("L"); self.xy.extend(p)

    def qCurveTo(self, *pts):
        self.ops.append("Q%d" % len(pts))
        for p in pts:
            self.xy.extend(p)

    def curveTo(self, *pts):
        self.ops.append("C%d" % len(pts))
        for p in pts:
            self.xy.extend(p)

    def closePath(self):
        self.ops.append("Z")

    def endPath(self):
        self.ops.append("E")


def _outline(font, gid):
    """(op string, flat coordinate list) of a glyph as HarfBuzz draws it."""
    pen = _Rec()
    font.draw_glyph_with_pen(gid, pen)
    return "".join(pen.ops), pen.xy


def _split_contours(ops, xy):
    import re
    out, i = [], 0
    cur_ops, cur_xy = [], []
    for op in re.findall(r"[A-Z]\d*", ops):
        n = {"M": 1, "L": 1, "Z": 0, "E": 0}.get(op[0], int(op[1:] or 0))
        if op == "M" and cur_ops:
            out.append((cur_ops, cur_xy))
            cur_ops, cur_xy = [], []
        cur_ops.append(op)
        cur_xy.extend(xy[i:i + 2 * n])
        i += 2 * n
    if cur_ops:
        out.append((cur_ops, cur_xy))
    return out


def _align_closing_lines(oo, xo, oi, xi, tol):
    """HarfBuzz closes a contour with an extra line only if its last point is not exactly the start
    point - which rounding decides.  Drop, per contour, closing lines that land exactly on the
    start; then, if one side still has one more trailing line whose end is within tol of the start,
    drop that too.  Returns the re-joined (ops, xy) of both sides."""
    co, ci = _split_contours(oo, xo), _split_contours(oi, xi)
    if len(co) != len(ci):
        return (oo, xo), (oi, xi)

    def strip_exact(ops, xy):
        if len(ops) >= 3 and ops[-1] == "Z" and ops[-2] == "L" and xy[-2:] == xy[:2]:
            return ops[:-2] + ["Z"], xy[:-2]
        return ops, xy

    def strip_near(ops, xy):
        if len(ops) >= 3 and ops[-1] == "Z" and ops[-2] == "L" and abs(xy[-2] - xy[0]) <= tol and abs(xy[-1] - xy[1]) <= tol:
            return ops[:-2] + ["Z"], xy[:-2]
        return ops, xy
    ro, rx, so, sx = [], [], [], []
    for (a_ops, a_xy), (b_ops, b_xy) in zip(co, ci):
        a_ops, a_xy = strip_exact(a_ops, a_xy)
        b_ops, b_xy = strip_exact(b_ops, b_xy)
        if len(a_ops) == len(b_ops) + 1:
            a_ops, a_xy = strip_near(a_ops, a_xy)
        elif len(b_ops) == len(a_ops) + 1:
            b_ops, b_xy = strip_near(b_ops, b_xy)
        ro += a_ops; rx += a_xy; so += b_ops; sx += b_xy
    return ("".join(ro), rx), ("".join(so), sx)


def _merge_collinear_lines(ops, xy):
    """drop the middle point of two consecutive line segments that continue in exactly the same
    direction (the CFF2 specialiser merges such lines; the drawn shape is identical)."""
    out_ops, out_xy = [], []
    for c_ops, c_xy in _split_contours(ops, xy):
        pts = [c_xy[i:i + 2] for i in range(0, len(c_xy), 2)]
        kept_ops, kept_pts, pi = [], [], 0
        for op in c_ops:
            n = {"M": 1, "L": 1, "Z": 0, "E": 0}.get(op[0], int(op[1:] or 0))
            seg = pts[pi:pi + n]
            pi += n
            if op == "L" and kept_ops and kept_ops[-1] == "L" and len(kept_pts) >= 2:
                (x0, y0), (x1, y1), (x2, y2) = kept_pts[-2], kept_pts[-1], seg[0]
                cross = (x1 - x0) * (y2 - y1) - (y1 - y0) * (x2 - x1)
                dot = (x1 - x0) * (x2 - x1) + (y1 - y0) * (y2 - y1)
                if abs(cross) <= 1e-6 * (abs(dot) + 1) and dot > 0:
                    kept_pts[-1] = seg[0]
                    continue
            kept_ops.append(op)
            kept_pts.extend(seg)
        out_ops += kept_ops
        for pt in kept_pts:
            out_xy.extend(pt)
    return "".join(out_ops), out_xy


def _shape(font, text):
    import uharfbuzz as hb
    buf = hb.Buffer()
    buf.add_str(text)
    buf.guess_segment_properties()
    hb.shape(font, buf, {"kern": True, "mark": True})
    return [(i.codepoint, p.x_advance, p.x_offset, p.y_offset) for i, p in zip(buf.glyph_infos, buf.glyph_positions)]


def _region_scalar(region, axis_tags, loc):
    s = F(1)
    for tag, ax in zip(axis_tags, region.VarRegionAxis):
        lo, pk, hi = (F(int(round(v * 16384)), 16384) for v in (ax.StartCoord, ax.PeakCoord, ax.EndCoord))
        if pk == 0 or lo > pk or pk > hi or (lo < 0 < hi):
            continue
        v = loc.get(tag, F(0))
        if v == pk:
            continue
        if v <= lo or v >= hi:
            return F(0)
        s *= (v - lo) / (pk - lo) if v < pk else (hi - v) / (hi - pk)
    return s


def _ivs_delta(store, var_idx, axis_tags, loc):
    """exact delta of one ItemVariationStore item at a normalized location (own evaluation)."""
    if var_idx == 0xFFFFFFFF:
        return F(0)
    vd = store.VarData[var_idx >> 16]
    row = vd.Item[var_idx & 0xFFFF]
    tot = F(0)
    for ri, d in zip(vd.VarRegionIndex, row):
        if d:
            tot += d * _region_scalar(store.VarRegionList.Region[ri], axis_tags, loc)
    return tot


# ---------------------------------------------------------------------------------------------
# family generator
# ---------------------------------------------------------------------------------------------
class Family:
    pass


def _axis_design(ax):
    name, tag, (lo, de, hi), amap = ax
    if amap is None:
        return (F(lo), F(de), F(hi))
    return tuple(_pl(v, amap) for v in (lo, de, hi))


def _design_value(ax, n):
    dlo, dde, dhi = _axis_design(ax)
    n = F(n)
    return dde + n * (dhi - dde) if n > 0 else dde + n * (dde - dlo)


def _gen_locations(rnd, axes, richness):
    """normalized master locations (tuples of Fraction); origin always present."""
    per_axis = []
    for ax in axes:
        lo, de, hi = ax[2]
        vals = []
        if hi > de:
            vals.append(F(1))
            if richness and rnd.random() < 0.6:
                vals.append(rnd.choice([F(1, 2), F(1, 4), F(3, 4), F(1, 3)]))
        if de > lo:
            vals.append(F(-1))
            if richness and rnd.random() < 0.4:
                vals.append(rnd.choice([F(-1, 2), F(-1, 4), F(-2, 3)]))
        per_axis.append(vals)
    n = len(axes)
    locs = [tuple([F(0)] * n)]
    for i, vals in enumerate(per_axis):
        for v in vals:
            if abs(v) == 1 and n > 1 and rnd.random() < 0.12:
                continue                      # an axis extreme without an on-axis master
            loc = [F(0)] * n
            loc[i] = v
            locs.append(tuple(loc))
    if n > 1:
        for _ in range(rnd.randint(0, 2 + richness)):
            k = rnd.randint(2, n)
            idx = rnd.sample(range(n), k)
            loc = [F(0)] * n
            for i in idx:
                loc[i] = rnd.choice(per_axis[i]) if rnd.random() < 0.75 else rnd.choice([F(1, 2), F(-1, 2), F(1, 4)])
                lo, de, hi = axes[i][2]
                if (loc[i] > 0 and hi == de) or (loc[i] < 0 and lo == de):
                    loc[i] = -loc[i]
            loc = tuple(loc)
            if loc not in locs:
                locs.append(loc)
    # every axis must vary in at least one master
    for i in range(n):
        if not any(l[i] != 0 for l in locs):
            loc = [F(0)] * n
            loc[i] = per_axis[i][0]
            locs.append(tuple(loc))
    return locs


def _contour_geometry(glyph, k):
    if glyph == "acutecomb":
        return -160, 640, 75
    return (330, 340, 270) if k == 0 else (330, 340, 115)


def _base_points(glyph, struct):
    out = []
    for k, segs in enumerate(struct):
        npts = 1 + sum(3 if s == "c" else 1 for s in segs)
        cx, cy, rad = _contour_geometry(glyph, k)
        out.append([(int(cx + rad * math.cos(2 * math.pi * i / npts + 0.3 * k)),
                     int(cy + rad * math.sin(2 * math.pi * i / npts + 0.3 * k))) for i in range(npts)])
    return out


def make_family(rnd, ttf=True, n_axes=None, richness=1, sparse=True, order="shuffle"):
    fam = Family()
    fam.ttf = ttf
    n_axes = n_axes or rnd.choice([1, 1, 2, 2, 3])
    tags, axes = set(), []
    while len(axes) < n_axes:
        ax = rnd.choice(AXES)
        if ax[1] not in tags:
            tags.add(ax[1]); axes.append(ax)
    fam.axes = axes
    fam.locs = _gen_locations(rnd, axes, richness)
    nm = len(fam.locs)
    fam.struct = dict(STRUCT)
    if not ttf:
        fam.struct["Aacute"] = CFF_AACUTE
    fam.masters = []
    base = {g: _base_points(g, s) for g, s in fam.struct.items() if s is not None}
    # masters = base polygon + per-master random jitter (15% of the contour radius per coordinate)
    # + a per-point trend along the axes (4% of the radius per unit) + a per-glyph shift along the axes;
    # small enough that neighbouring points never coincide (the masters stay compatible also as
    # charstrings, where a closing line onto the start point would be dropped)
    def pscale(g, k, f):
        return max(1, int(_contour_geometry(g, k)[2] * f))
    trend = {g: [[(rnd.randint(-pscale(g, k, .04), pscale(g, k, .04)), rnd.randint(-pscale(g, k, .04), pscale(g, k, .04))) for _ in c]
                 for k, c in enumerate(cs)] for g, cs in base.items()}
    shift = {g: (rnd.randint(-60, 60), rnd.randint(-60, 60)) for g in base}
    for mi, loc in enumerate(fam.locs):
        m = Family()
        m.loc = loc
        w = sum(loc)
        m.points = {g: [[(x + rnd.randint(-pscale(g, k, .15), pscale(g, k, .15)) + int(w * (tx + shift[g][0])),
                          y + rnd.randint(-pscale(g, k, .15), pscale(g, k, .15)) + int(w * (ty + shift[g][1])))
                         for (x, y), (tx, ty) in zip(c, tc)] for k, (c, tc) in enumerate(zip(cs, trend[g]))]
                    for g, cs in base.items()}
        m.comp_offset = (rnd.randint(250, 420), rnd.randint(-40, 120))
        m.adv = {g: (0 if g == "acutecomb" else 560 + rnd.randint(-90, 140)) for g in ORDER}
        m.metrics = dict(
            sxHeight=480 + rnd.randint(-40, 40), sCapHeight=690 + rnd.randint(-40, 40),
            sTypoAscender=800 + rnd.randint(-50, 50), sTypoDescender=-200 + rnd.randint(-50, 50),
            sTypoLineGap=rnd.randint(0, 120), yStrikeoutPosition=250 + rnd.randint(-30, 30),
            yStrikeoutSize=50 + rnd.randint(-20, 20), ySubscriptYOffset=140 + rnd.randint(-30, 30),
            ySuperscriptYSize=600 + rnd.randint(-30, 30),
            usWinAscent=900 + rnd.randint(-50, 50), usWinDescent=250 + rnd.randint(-50, 50))
        m.post = dict(underlinePosition=-100 + rnd.randint(-40, 40), underlineThickness=50 + rnd.randint(-20, 20))
        exc = {}
        for pair in EXC_CANDIDATES:
            if rnd.random() < 0.55:
                exc[pair] = rnd.choice([-1, 1]) * rnd.randint(15, 120)
        m.exceptions = exc
        m.cls = [-rnd.randint(10, 90), rnd.randint(5, 70), -rnd.randint(100, 160)]
        m.anchors = {"mark": (-160 + rnd.randint(-30, 30), 560 + rnd.randint(-30, 30)),
                     "A": (330 + rnd.randint(-60, 60), 700 + rnd.randint(-60, 60)),
                     "B": (300 + rnd.randint(-60, 60), 720 + rnd.randint(-60, 60))}
        m.sparse = None
        fam.masters.append(m)
    # the required class: somebody lacks an exception that another master has, while keeping another
    # exception with the same first glyph
    if nm >= 2:
        a, b = rnd.sample(range(nm), 2)
        fam.masters[a].exceptions.setdefault(("A", "V"), -77)
        fam.masters[a].exceptions.setdefault(("A", "B"), 33)
        fam.masters[b].exceptions.pop(("A", "V"), None)
        fam.masters[b].exceptions.setdefault(("A", "B"), -21)
    if nm >= 3 and rnd.random() < 0.3:
        fam.masters[rnd.randrange(nm)].exceptions = {}          # a master with class pairs only
    # sparse masters (never the default); TrueType only
    if sparse and ttf:
        drawable = [g for g in ORDER if g not in ("space",)]
        for mi in range(1, nm):
            if rnd.random() < 0.35:
                keep = set(rnd.sample(drawable, rnd.randint(1, 3)))
                if "Aacute" in keep and not {"A", "acutecomb"} <= keep:
                    keep.discard("Aacute")
                if not keep:
                    keep = {"A"}
                fam.masters[mi].sparse = (rnd.choice(["placeholder", "missing"]), keep)
    # source order
    idx = list(range(nm))
    if order == "shuffle":
        rnd.shuffle(idx)
    elif order == "sparse-first":
        sp = [i for i in idx if fam.masters[i].sparse]
        rest = [i for i in idx if not fam.masters[i].sparse]
        rnd.shuffle(rest)
        idx = sp + rest
        if idx[0] == 0 and nm > 1:
            idx[0], idx[1] = idx[1], idx[0]
    elif order == "default-last":
        idx = idx[1:] + [0]
    fam.order = idx
    return fam


def _draw(pen, struct, pts, ttf):
    for segs, cpts in zip(struct, pts):
        it = iter(cpts)
        pen.moveTo(next(it))
        for s in segs:
            if s == "l":
                pen.lineTo(next(it))
            elif ttf:
                pen.qCurveTo(next(it), next(it), next(it))
            else:
                pen.curveTo(next(it), next(it), next(it))
        pen.closePath()


def _fea(m):
    lines = ["languagesystem DFLT dflt;",
             "markClass acutecomb <anchor %d %d> @TOP;" % m.anchors["mark"],
             "@L = [A B Aacute];", "@R = [V A];", "@L2 = [V];", "@R2 = [B Aacute];",
             "feature kern {"]
    for (a, b), v in sorted(m.exceptions.items()):
        lines.append("  pos %s %s %d;" % (a, b, v))
    lines.append("  pos @L @R %d;" % m.cls[0])
    lines.append("  pos @L2 @R2 %d;" % m.cls[1])
    lines.append("  pos @L2 @R %d;" % m.cls[2])
    lines += ["} kern;", "feature mark {",
              "  pos base A <anchor %d %d> mark @TOP;" % m.anchors["A"],
              "  pos base B <anchor %d %d> mark @TOP;" % m.anchors["B"],
              "} mark;"]
    return "\n".join(lines)


def defined_glyphs(m):
    """glyphs a master says something about (all, for a full master)."""
    if not m.sparse:
        return set(ORDER)
    style, keep = m.sparse
    # an empty glyph cannot be told from an empty placeholder: the placeholder style keeps the real
    # 'space' (empty in every master), so its advance there is a genuine master value
    return set(keep) | ({"space"} if style == "placeholder" else set())


def build_master(fam, mi):
    """compile master mi to bytes; returns (bytes, {glyph name: gid} of the glyphs this master defines)."""
    from fontTools.fontBuilder import FontBuilder
    from fontTools.pens.ttGlyphPen import TTGlyphPen
    from fontTools.pens.t2CharStringPen import T2CharStringPen
    from fontTools.feaLib.builder import addOpenTypeFeaturesFromString

    m = fam.masters[mi]
    order = list(ORDER)
    defined = set(ORDER)
    if m.sparse:
        style, keep = m.sparse
        defined = defined_glyphs(m)
        if style == "missing":
            order = [g for g in ORDER if g in keep or g == ".notdef"]
    fb = FontBuilder(1000, isTTF=fam.ttf)
    fb.setupGlyphOrder(order)
    if not m.sparse:
        fb.setupCharacterMap(CMAP)
    glyphs, metrics = {}, {}
    for g in order:
        struct = fam.struct[g]
        if fam.ttf:
            pen = TTGlyphPen({n: None for n in order})
            if g in defined:
                if struct is None:
                    pen.addComponent("A", (1, 0, 0, 1, 0, 0))
                    pen.addComponent("acutecomb", (1, 0, 0, 1) + m.comp_offset)
                else:
                    _draw(pen, struct, m.points[g], True)
            glyphs[g] = pen.glyph()
        else:
            pen = T2CharStringPen(m.adv[g], None)
            _draw(pen, struct, m.points[g], False)
            glyphs[g] = pen.getCharString()
        metrics[g] = (m.adv[g] if g in defined else SPARSE_ADVANCE, 0)
    if fam.ttf:
        fb.setupGlyf(glyphs)
        glyf = fb.font["glyf"]
        for g in order:
            glyf[g].recalcBounds(glyf)
            metrics[g] = (metrics[g][0], getattr(glyf[g], "xMin", 0) if glyf[g].numberOfContours else 0)
    else:
        fb.setupCFF("Fam-%d" % mi, {"FullName": "Fam %d" % mi}, glyphs, {})
        for g in order:
            xs = [x for c in m.points.get(g, []) for x, y in c]
            metrics[g] = (metrics[g][0], min(xs) if xs else 0)
    fb.setupHorizontalMetrics(metrics)
    if m.sparse:
        fb.setupHorizontalHeader(ascent=800, descent=-200)
        fb.setupPost(underlinePosition=UNDERLINE_SENTINEL, underlineThickness=UNDERLINE_SENTINEL)
    else:
        mt = m.metrics
        fb.setupHorizontalHeader(ascent=mt["sTypoAscender"], descent=mt["sTypoDescender"], lineGap=mt["sTypoLineGap"])
        fb.setupNameTable({"familyName": "Fam", "styleName": "M%d" % mi})
        fb.setupOS2(**mt)
        fb.setupPost(**m.post)
        addOpenTypeFeaturesFromString(fb.font, _fea(m))
    buf = io.BytesIO()
    fb.font.save(buf)
    gids = {g: order.index(g) for g in order if g in defined}
    return buf.getvalue(), gids


def build_vf(fam, optimize=False, exclude=()):
    """varLib.build from in-memory masters. Returns (vf bytes, vf TTFont, [master bytes], [gid maps])."""
    from fontTools.designspaceLib import DesignSpaceDocument, AxisDescriptor, SourceDescriptor
    from fontTools.ttLib import TTFont
    from fontTools import varLib

    _quiet()
    ds = DesignSpaceDocument()
    for name, tag, (lo, de, hi), amap in fam.axes:
        a = AxisDescriptor()
        a.name, a.tag, a.minimum, a.default, a.maximum = name, tag, lo, de, hi
        if amap:
            a.map = [(float(u), float(d)) for u, d in amap]
        ds.addAxis(a)
    datas, gidmaps = [], []
    for mi in range(len(fam.masters)):
        d, g = build_master(fam, mi)
        datas.append(d); gidmaps.append(g)
    for mi in fam.order:
        m = fam.masters[mi]
        s = SourceDescriptor()
        s.name = "master.%d" % mi
        s.font = TTFont(io.BytesIO(datas[mi]))
        s.location = {ax[0]: float(_design_value(ax, n)) for ax, n in zip(fam.axes, m.loc)}
        if m.sparse:
            s.layerName = "sparse.%d" % mi
        ds.addSource(s)
    vf, model, _ = varLib.build(ds, optimize=optimize, exclude=list(exclude))
    buf = io.BytesIO()
    vf.save(buf)
    data = buf.getvalue()
    return data, TTFont(io.BytesIO(data)), datas, gidmaps


def _exact_grid(fam):
    """True if every master scalar at every master location is 0 or 1 (no half-unit ties possible)."""
    return len(fam.axes) == 1 or all(abs(v) in (0, 1) for m in fam.masters for v in m.loc)


def _dyadic(fam):
    return all((v * 16384).denominator == 1 for m in fam.masters for v in m.loc)


def _set_loc(font, fam, loc):
    font.set_var_coords_normalized([float(v) for v in loc])


def _coord_span(fam):
    vals = [abs(x - x0) for m in fam.masters for g, cs in m.points.items() for c, c0 in zip(cs, fam.masters[0].points[g])
            for p, p0 in zip(c, c0) for x, x0 in zip(p, p0)]
    return max(vals + [400])


# ---------------------------------------------------------------------------------------------
# checks
# ---------------------------------------------------------------------------------------------
def _family_stream(tier, rnd, n_quick, n_thorough, **kw):
    n = n_quick if tier == "quick" else n_thorough
    orders = ["shuffle", "sparse-first", "default-last", "shuffle"]
    for i in range(n):
        k = dict(kw)
        k.setdefault("order", orders[i % len(orders)])
        k.setdefault("n_axes", [1, 2, 1, 3, 2][i % 5])
        k.setdefault("richness", i % 3)
        yield i, make_family(rnd, **k)


def _describe(fam):
    return {"axes": [(a[1], a[2], a[3]) for a in fam.axes], "order": fam.order,
            "masters": [([str(v) for v in m.loc], m.sparse and (m.sparse[0], sorted(m.sparse[1]))) for m in fam.masters]}


@check("C10")
def truetype_masters_outlines_and_advances(tier, rnd):
    """TrueType: at every master location the built font (gvar, HVAR; optimize off and on) draws
    each glyph the master defines with the master's outline (<= 0.5 unit per coordinate; plus 0.5
    per active tuple when IUP optimisation with its 0.5 tolerance is on) and has the master's
    advance; sparse masters (missing / empty placeholder glyphs, any source order) only constrain
    the glyphs they define; composites follow their components."""
    r = Result("seeded families (1-3 axes, intermediate/corner/sparse masters, shuffled or sparse-first source order) x every master x every defined glyph; HarfBuzz outline+advance of built font at the master's normalized location vs compiled master; distinct = (n axes, n masters, sparse style, source position of default, optimize, glyph)")
    for i, fam in _family_stream(tier, rnd, 90, 900, ttf=True):
        optimize = bool(i % 2)
        try:
            data, vf, mdatas, gidmaps = build_vf(fam, optimize=optimize)
        except Exception as e:
            r.case(("build", i))
            r.fail("varLib.build raised %s: %s for %r" % (type(e).__name__, str(e)[:120], _describe(fam)))
            continue
        hv = _hb(data)
        vorder = vf.getGlyphOrder()
        exact = _exact_grid(fam)
        slack = 1e-3 + (0 if _dyadic(fam) else _coord_span(fam) * 2.0 ** -13)
        gvar = vf["gvar"].variations
        for mi, m in enumerate(fam.masters):
            hm = _hb(mdatas[mi])
            _set_loc(hv, fam, m.loc)
            for g, gid in sorted(gidmaps[mi].items()):
                if g == ".notdef" and m.sparse and m.sparse[0] == "missing" and ".notdef" not in m.sparse[1]:
                    continue
                r.case((len(fam.axes), len(fam.masters), m.sparse and m.sparse[0], fam.order.index(0) == 0, optimize, g))
                ops_v, xy_v = _outline(hv, vorder.index(g))
                ops_m, xy_m = _outline(hm, gid)
                ntup = len(gvar.get(g, []))
                if g == "Aacute":
                    ntup += max(len(gvar.get("A", [])), len(gvar.get("acutecomb", [])))
                tol = 0.5 + slack + (0.5 * ntup if optimize else 0) + (0.5 if g == "Aacute" else 0)
                if ops_v != ops_m or len(xy_v) != len(xy_m):
                    r.fail("glyph %s at master %d %s: outline structure %s vs master %s; family %r" % (g, mi, [str(v) for v in m.loc], ops_v, ops_m, _describe(fam)))
                    continue
                d = max([abs(a - b) for a, b in zip(xy_v, xy_m)] or [0])
                if d > tol:
                    r.fail("glyph %s at master %d %s: outline differs by %.3f > %.3f (optimize=%s); family %r" % (g, mi, [str(v) for v in m.loc], d, tol, optimize, _describe(fam)))
                av, am = hv.get_glyph_h_advance(vorder.index(g)), hm.get_glyph_h_advance(gid)
                if abs(av - am) > (0 if exact else 1):
                    r.fail("glyph %s at master %d %s: advance %d vs master %d; family %r" % (g, mi, [str(v) for v in m.loc], av, am, _describe(fam)))
        if i == 0:
            r.sample(_describe(fam))
    return r


@check("C10")
def cff_masters_outlines_and_advances(tier, rnd):
    """CFF masters -> CFF2: same contract as the TrueType check for charstring outlines (blend
    deltas, <= 0.5 unit) and HVAR advances."""
    r = Result("seeded CFF families (1-3 axes, intermediate/corner masters, shuffled source order) x every master x every glyph; HarfBuzz outline+advance at master location vs compiled CFF master; distinct = (n axes, n masters, glyph)")
    for i, fam in _family_stream(tier, rnd, 40, 400, ttf=False, sparse=False):
        try:
            data, vf, mdatas, gidmaps = build_vf(fam, optimize=bool(i % 2))
        except Exception as e:
            r.case(("build", i))
            r.fail("varLib.build raised %s: %s for %r" % (type(e).__name__, str(e)[:120], _describe(fam)))
            continue
        if "CFF2" not in vf or "CFF " in vf:
            r.fail("built font has no CFF2 / still has CFF: %r" % sorted(vf.keys()))
            continue
        hv = _hb(data)
        vorder = vf.getGlyphOrder()
        exact = _exact_grid(fam)
        slack = 1e-3 + (0 if _dyadic(fam) else _coord_span(fam) * 2.0 ** -13)
        for mi, m in enumerate(fam.masters):
            hm = _hb(mdatas[mi])
            _set_loc(hv, fam, m.loc)
            for g, gid in sorted(gidmaps[mi].items()):
                r.case((len(fam.axes), len(fam.masters), g))
                ops_v, xy_v = _outline(hv, vorder.index(g))
                ops_m, xy_m = _outline(hm, gid)
                if ops_v != ops_m:
                    (ops_v, xy_v), (ops_m, xy_m) = _align_closing_lines(ops_v, xy_v, ops_m, xy_m, 1.0)
                if ops_v != ops_m or len(xy_v) != len(xy_m):
                    r.fail("CFF glyph %s at master %d: outline structure %s vs master %s; family %r" % (g, mi, ops_v, ops_m, _describe(fam)))
                    continue
                d = max([abs(a - b) for a, b in zip(xy_v, xy_m)] or [0])
                if d > 0.5 + slack:
                    r.fail("CFF glyph %s at master %d %s: outline differs by %.3f; family %r" % (g, mi, [str(v) for v in m.loc], d, _describe(fam)))
                av, am = hv.get_glyph_h_advance(vorder.index(g)), hm.get_glyph_h_advance(gid)
                if abs(av - am) > (0 if exact else 1):
                    r.fail("CFF glyph %s at master %d: advance %d vs master %d; family %r" % (g, mi, av, am, _describe(fam)))
        if i == 0:
            r.sample(_describe(fam))
    return r


@check("C10")
def kerning_and_anchors_at_masters(tier, rnd):
    """GPOS: shaping the built font at every (non-sparse) master location gives the master's pair
    kerning (format-1 exceptions that exist in only some masters, format-2 classes, in one lookup)
    and mark-to-base attachment, as HarfBuzz positions; equal when no master scalar is fractional,
    else within one unit (half a unit before HarfBuzz rounds the delta)."""
    r = Result("seeded families with per-master random kerning exceptions (each present in a random subset of masters; one master lacks A V but keeps A B; some masters have class pairs only), class pairs, mark anchors x every non-sparse master x 12 texts; HarfBuzz shaping of built font vs master; distinct = (n axes, n masters, text, has-exception pattern of the master)")
    for i, fam in _family_stream(tier, rnd, 70, 700, ttf=True):
        try:
            data, vf, mdatas, gidmaps = build_vf(fam, optimize=True)
        except Exception as e:
            r.case(("build", i))
            r.fail("varLib.build raised %s: %s for %r" % (type(e).__name__, str(e)[:120], _describe(fam)))
            continue
        hv = _hb(data)
        # with fractional master scalars each HarfBuzz-rounded component (advance, kern value, base
        # anchor, mark anchor) may be off by one at an exact .5 tie
        tols = (0, 0, 0) if _exact_grid(fam) else (2, 3, 2)
        for mi, m in enumerate(fam.masters):
            if m.sparse:
                continue
            hm = _hb(mdatas[mi])
            _set_loc(hv, fam, m.loc)
            for text in TEXTS:
                r.case((len(fam.axes), len(fam.masters), text, tuple(sorted(m.exceptions))))
                sv, sm = _shape(hv, text), _shape(hm, text)
                bad = len(sv) != len(sm) or any(a[0] != b[0] or any(abs(x - y) > t for x, y, t in zip(a[1:], b[1:], tols)) for a, b in zip(sv, sm))
                if bad:
                    r.fail("text %r at master %d %s: built font shapes %r, master %r; exceptions per master %r; family %r"
                           % (text, mi, [str(v) for v in m.loc], sv, sm, [sorted(x.exceptions.items()) for x in fam.masters], _describe(fam)))
        if i == 0:
            r.sample({"family": _describe(fam), "fea of master 0": _fea(fam.masters[0])})
    return r


@check("C10")
def sparse_masters_only_constrain_their_glyphs(tier, rnd):
    """A sparse master says nothing about the glyphs it does not define (missing, or empty
    placeholder with the 0xFFFF advance sentinel): for those glyphs the built font is, at every
    location, the font built from the remaining masters alone (outlines and advances, HarfBuzz at
    master and seeded random locations)."""
    import copy
    r = Result("seeded TrueType families with >= 1 sparse master (placeholder or missing style, any source order) x glyphs no sparse master defines x (all master locations + 8 random normalized locations); HarfBuzz outline/advance of the full build vs the build without the sparse masters; distinct = (n axes, n masters, n sparse, style, glyph)")
    n = 36 if tier == "quick" else 360
    done = tries = 0
    while done < n and tries < 20 * n:
        tries += 1
        fam = make_family(rnd, ttf=True, n_axes=[1, 2, 3, 2][tries % 4], richness=1 + tries % 2, sparse=True,
                          order=["sparse-first", "shuffle", "default-last"][tries % 3])
        sp = [i for i, m in enumerate(fam.masters) if m.sparse]
        if not sp:
            continue
        red = copy.copy(fam)
        keep = [i for i in range(len(fam.masters)) if i not in sp]
        red.masters = [fam.masters[i] for i in keep]
        red.locs = [fam.locs[i] for i in keep]
        red.order = [keep.index(i) for i in fam.order if i in keep]
        # every axis must still vary in the reduced family
        if any(all(m.loc[a] == 0 for m in red.masters) for a in range(len(fam.axes))):
            continue
        done += 1
        optimize = bool(done % 2)
        try:
            data, vf, _, _ = build_vf(fam, optimize=optimize)
            rdata, rvf, _, _ = build_vf(red, optimize=optimize)
        except Exception as e:
            r.case(("build", done))
            r.fail("varLib.build raised %s: %s for %r" % (type(e).__name__, str(e)[:120], _describe(fam)))
            continue
        ha, hr = _hb(data), _hb(rdata)
        order = vf.getGlyphOrder()
        defined = set().union(*[defined_glyphs(fam.masters[i]) for i in sp])
        free = [g for g in ORDER if g not in defined and not (g == "Aacute" and defined & {"A", "acutecomb"})]
        locs = [m.loc for m in fam.masters]
        for _ in range(8):
            locs.append(tuple(F(rnd.randint(-16384 if ax[2][0] < ax[2][1] else 0, 16384 if ax[2][2] > ax[2][1] else 0), 16384) for ax in fam.axes))
        for loc in locs:
            ha.set_var_coords_normalized([float(v) for v in loc])
            hr.set_var_coords_normalized([float(v) for v in loc])
            for g in free:
                r.case((len(fam.axes), len(fam.masters), len(sp), fam.masters[sp[0]].sparse[0], g))
                gid = order.index(g)
                oa, xa = _outline(ha, gid)
                orr, xr = _outline(hr, gid)
                d = max([abs(a - b) for a, b in zip(xa, xr)] or [0])
                if oa != orr or d > 1e-2 or ha.get_glyph_h_advance(gid) != hr.get_glyph_h_advance(gid):
                    r.fail("glyph %s (not defined by sparse masters %r) at %r: with sparse masters outline differs by %.3f / advance %d vs %d without them; family %r"
                           % (g, sp, [str(v) for v in loc], d, ha.get_glyph_h_advance(gid), hr.get_glyph_h_advance(gid), _describe(fam)))
        if done == 1:
            r.sample(_describe(fam))
    return r


MVAR_FIELDS = {"xhgt": ("OS/2", "sxHeight"), "cpht": ("OS/2", "sCapHeight"), "hasc": ("OS/2", "sTypoAscender"),
               "hdsc": ("OS/2", "sTypoDescender"), "hlgp": ("OS/2", "sTypoLineGap"), "stro": ("OS/2", "yStrikeoutPosition"),
               "strs": ("OS/2", "yStrikeoutSize"), "sbyo": ("OS/2", "ySubscriptYOffset"), "spys": ("OS/2", "ySuperscriptYSize"),
               "hcla": ("OS/2", "usWinAscent"), "hcld": ("OS/2", "usWinDescent"),
               "undo": ("post", "underlinePosition"), "unds": ("post", "underlineThickness")}


@check("C10")
def metrics_and_advances_exact(tier, rnd):
    """HVAR and MVAR evaluated exactly (Fractions, own region-scalar evaluation) at every master
    location: default value + delta is within 1/2 of the master's advance / OS/2 / post field; the
    HarfBuzz metric (which rounds) agrees with that exact value; every varied metric has a record."""
    r = Result("seeded TrueType and CFF families x every master x (every glyph advance via HVAR, 13 MVAR-backed fields); exact evaluation of the ItemVariationStore + HarfBuzz get_metric_position/get_glyph_h_advance; distinct = (outline kind, n axes, n masters, field or glyph)")
    import uharfbuzz as hb
    hbtags = {"xhgt": hb.OTMetricsTag.X_HEIGHT, "cpht": hb.OTMetricsTag.CAP_HEIGHT, "hasc": hb.OTMetricsTag.HORIZONTAL_ASCENDER,
              "hdsc": hb.OTMetricsTag.HORIZONTAL_DESCENDER, "hlgp": hb.OTMetricsTag.HORIZONTAL_LINE_GAP,
              "stro": hb.OTMetricsTag.STRIKEOUT_OFFSET, "strs": hb.OTMetricsTag.STRIKEOUT_SIZE,
              "sbyo": hb.OTMetricsTag.SUBSCRIPT_EM_Y_OFFSET, "spys": hb.OTMetricsTag.SUPERSCRIPT_EM_Y_SIZE,
              "undo": hb.OTMetricsTag.UNDERLINE_OFFSET, "unds": hb.OTMetricsTag.UNDERLINE_SIZE}
    half = F(1, 2)
    for i in range(60 if tier == "quick" else 600):
        fam = make_family(rnd, ttf=bool(i % 3), n_axes=[1, 2, 3, 2][i % 4], richness=i % 3, sparse=True,
                          order=["shuffle", "sparse-first", "default-last"][i % 3])
        try:
            data, vf, mdatas, gidmaps = build_vf(fam, optimize=True)
        except Exception as e:
            r.case(("build", i))
            r.fail("varLib.build raised %s: %s for %r" % (type(e).__name__, str(e)[:120], _describe(fam)))
            continue
        hv = _hb(data)
        axis_tags = [a.axisTag for a in vf["fvar"].axes]
        if axis_tags != [a[1] for a in fam.axes]:
            r.fail("fvar axis order %r differs from designspace %r" % (axis_tags, [a[1] for a in fam.axes]))
            continue
        kind = "ttf" if fam.ttf else "cff"
        # master locations that are not F2Dot14-exact (1/3, 2/3) shift every region slightly
        slack = 0 if _dyadic(fam) else F(1, 4)
        hvar = vf["HVAR"].table if "HVAR" in vf else None
        mvar = vf["MVAR"].table if "MVAR" in vf else None
        recs = {rec.ValueTag: rec.VarIdx for rec in mvar.ValueRecord} if mvar else {}
        vorder = vf.getGlyphOrder()
        if hvar is None:
            r.fail("no HVAR built; family %r" % _describe(fam))
            continue
        for mi, m in enumerate(fam.masters):
            loc = {t: v for t, v in zip(axis_tags, m.loc)}
            qloc = {t: F(int(round(v * 16384)), 16384) for t, v in loc.items()}
            _set_loc(hv, fam, m.loc)
            for g in sorted(gidmaps[mi]):
                if g == ".notdef" and m.sparse and ".notdef" not in m.sparse[1]:
                    continue
                r.case((kind, len(fam.axes), len(fam.masters), "adv:" + g))
                gid = vorder.index(g)
                vi = hvar.AdvWidthMap.mapping[g] if hvar.AdvWidthMap else gid
                val = vf["hmtx"][g][0] + _ivs_delta(hvar.VarStore, vi, axis_tags, qloc)
                if abs(val - m.adv[g]) > half + slack:
                    r.fail("HVAR: advance of %s at master %d %s evaluates to %s, master has %d; family %r" % (g, mi, [str(v) for v in m.loc], val, m.adv[g], _describe(fam)))
                if abs(hv.get_glyph_h_advance(gid) - val) > half + F(1, 1000):
                    r.fail("HarfBuzz advance of %s at master %d is %d but HVAR evaluates to %s" % (g, mi, hv.get_glyph_h_advance(gid), val))
            if m.sparse:
                continue
            for tag, (table, field) in sorted(MVAR_FIELDS.items()):
                r.case((kind, len(fam.axes), len(fam.masters), tag))
                want = m.metrics[field] if table == "OS/2" else m.post[field]
                base = getattr(vf[table], field)
                val = base + (_ivs_delta(mvar.VarStore, recs[tag], axis_tags, qloc) if tag in recs else 0)
                if abs(val - want) > half + slack:
                    r.fail("MVAR %s (%s.%s) at master %d %s evaluates to %s, master has %d (record present: %s); family %r"
                           % (tag, table, field, mi, [str(v) for v in m.loc], val, want, tag in recs, _describe(fam)))
                if tag in hbtags:
                    got = hv.get_metric_position(hbtags[tag])
                    if got is not None and abs(got - val) > half + F(1, 1000):
                        r.fail("HarfBuzz metric %s at master %d is %s but MVAR evaluates to %s" % (tag, mi, got, val))
        if i == 0:
            r.sample(_describe(fam))
    return r


@check("C10")
def axis_maps_user_to_normalized(tier, rnd):
    """fvar + avar of the built font map user coordinates to normalized coordinates exactly as the
    designspace axis <map> says: HarfBuzz's normalized coordinate for user value u equals
    normalize(map_forward(u)) over the mapped (min, default, max), up to F2Dot14 quantisation; and the
    fvar axis carries the designspace's user-space min/default/max."""
    r = Result("all catalog axes + seeded random monotone maps (2-6 nodes, default at min / inside / at max) x user values (map nodes, min/default/max, midpoints, seeded random); HarfBuzz set_variations + get_var_coords_normalized vs exact Fraction evaluation; distinct = (map shape, kind of user value)")
    n = 45 if tier == "quick" else 450
    half_tol = F(3, 16384)
    for i in range(n):
        fam = make_family(rnd, ttf=True, n_axes=[1, 2, 3][i % 3], richness=0, sparse=False)
        # replace axis maps by random monotone ones every other round
        if i % 2:
            axes = []
            for name, tag, (lo, de, hi), amap in fam.axes:
                nodes = sorted(set([lo, de, hi] + [rnd.randint(int(lo), int(hi)) for _ in range(rnd.randint(0, 3))]))
                dvals, cur = [], rnd.randint(-50, 50)
                for _ in nodes:
                    dvals.append(cur)
                    cur += rnd.choice([8, 16, 64, 200, 1000])
                pairs = list(zip(nodes, dvals))
                if i % 4 == 3 and hi > de:
                    # an intermediate node that lies exactly ON the diagonal of the normalized map, next to one that
                    # does not: it is a real knot of the curve although it 'maps to itself'
                    dd, dh = dict(pairs)[de], dict(pairs)[hi]
                    pairs = [(u, d) for u, d in pairs if not de < u < hi]
                    pairs += [(de + (hi - de) / 2, dd + (dh - dd) / 2), (de + (hi - de) * 3 / 4, dd + (dh - dd) * 7 / 8)]
                    pairs.sort()
                axes.append((name, tag, (lo, de, hi), pairs))
            fam.axes = axes
        try:
            data, vf, mdatas, gidmaps = build_vf(fam, optimize=True)
        except Exception as e:
            r.case(("build", i))
            r.fail("varLib.build raised %s: %s for axes %r" % (type(e).__name__, str(e)[:120], fam.axes))
            continue
        hv = _hb(data)
        fvar = {a.axisTag: (a.minValue, a.defaultValue, a.maxValue) for a in vf["fvar"].axes}
        tags = [a.axisTag for a in vf["fvar"].axes]
        for ai, (name, tag, (lo, de, hi), amap) in enumerate(fam.axes):
            if fvar.get(tag) != (lo, de, hi):
                r.fail("fvar axis %s is %r, designspace says %r" % (tag, fvar.get(tag), (lo, de, hi)))
                continue
            pairs = amap or [(lo, lo), (de, de), (hi, hi)]
            dtriple = tuple(_pl(v, pairs) for v in (lo, de, hi))
            users = [("node", u) for u, d in pairs] + [("triple", v) for v in (lo, de, hi)]
            users += [("mid", (F(a[0]) + F(b[0])) / 2) for a, b in zip(pairs, pairs[1:])]
            users += [("rnd", F(rnd.randint(int(lo) * 64, int(hi) * 64), 64)) for _ in range(6)]
            # slope of normalized-design over normalized-user, to scale the quantisation tolerance
            for kind, u in users:
                r.case((len(pairs), de == lo, de == hi, kind))
                want = _norm(_pl(u, pairs), *dtriple)
                hv.set_variations({tag: float(u)})
                got = F(hv.get_var_coords_normalized()[ai])
                # local slope bound: max |d want / d normalized user| over the map
                slopes = [1]
                for (a, b), (c, d) in zip(pairs, pairs[1:]):
                    nu = abs(_norm(c, lo, de, hi) - _norm(a, lo, de, hi))
                    nd = abs(_norm(d, *dtriple) - _norm(b, *dtriple))
                    if nu:
                        slopes.append(nd / nu)
                tol = half_tol * (1 + max(slopes))
                if abs(got - want) > tol:
                    r.fail("axis %s map %r: user %s normalizes to %s (%.5f), designspace says %.5f (tol %.5f)" % (tag, pairs, u, got, float(got), float(want), float(tol)))
        # master user locations map onto the master's normalized location
        for m in fam.masters:
            user = {}
            for (name, tag, (lo, de, hi), amap), nv in zip(fam.axes, m.loc):
                d = _design_value((name, tag, (lo, de, hi), amap), nv)
                user[tag] = float(_pl(d, [(b, a) for a, b in amap]) if amap else d)
            hv.set_variations(user)
            got = hv.get_var_coords_normalized()
            r.case(("master-user-loc", len(fam.axes)))
            if any(abs(F(g) - v) > F(1, 1000) for g, v in zip(got, m.loc)):
                r.fail("master at design-normalized %r has user location %r which the built font normalizes to %r; axes %r" % ([str(v) for v in m.loc], user, got, fam.axes))
        if i == 1:
            r.sample({"axes": fam.axes})
    return r


CORPUS = [
    # designspace, directory holding the compiled (TTX) masters when the sources are UFOs
    ("Build.designspace", "master_ttx_interpolatable_ttf"),
    ("SparseMasters.designspace", None),
    ("TestCFF2.designspace", "master_cff2"),
    ("KerningMerging.designspace", None),
    ("InterpolateLayout.designspace", "master_ttx_interpolatable_ttf"),
    ("InterpolateLayout.designspace", "master_ttx_interpolatable_otf"),
    ("SparseCFF2.designspace", None),
    ("BuildAvarSingleAxis.designspace", "master_ttx_interpolatable_ttf"),
    ("BuildGvarCompositeExplicitDelta.designspace", "master_ttx_interpolatable_ttf"),
    ("InconsistentUseMyMetrics.designspace", None),
    ("BuildAvarIdentityMaps.designspace", "master_ttx_interpolatable_ttf"),
    ("BuildAvarEmptyAxis.designspace", "master_ttx_interpolatable_ttf"),
    ("TestCFF2Input.designspace", "master_cff2_input"),
    ("TestVVAR.designspace", "master_vvar_cff2"),
    ("TestBASE.designspace", "master_base_test"),
    ("TestNoOverwriteSTAT.designspace", None),
    ("TestNonMarkingCFF2.designspace", "master_non_marking_cff2"),
    ("DropOnCurves.designspace", "master_ttx_drop_oncurves"),
    ("test_vpal.designspace", "master_vpal_test"),
    ("TestSparseCFF2VF.designspace", "master_sparse_cff2"),
]


@check("C10")
def corpus_designspaces_reproduce_masters(tier, rnd):
    """Every buildable corpus designspace without substitution rules (Tests/varLib/data): the built
    font at each source's normalized location has the source's outlines (<= 0.5), advances and
    shaping of pairs of cmapped glyphs (HarfBuzz), for every glyph the source defines. (Sources
    that have no hhea get one added to the copy HarfBuzz reads, so that it can read their hmtx.)"""
    from fontTools.designspaceLib import DesignSpaceDocument
    from fontTools.fontBuilder import FontBuilder
    from fontTools.ttLib import TTFont
    from fontTools import varLib
    from _common import REPO

    r = Result("corpus designspaces x every source x every glyph of the source (outline, advance) + shaping of cmapped glyph pairs; distinct = (designspace, master dir, source index, kind)")
    root = os.path.join(REPO, "Tests", "varLib", "data")
    todo = CORPUS
    cache = {}
    _quiet()

    def load(path):
        if path not in cache:
            if path.endswith(".ttx"):
                f = TTFont(recalcBBoxes=False, recalcTimestamp=False)
                f.importXML(path)
            else:
                f = TTFont(path)
            buf = io.BytesIO()
            f.save(buf)
            cache[path] = buf.getvalue()
        return cache[path]

    def resolve(p, mdir):
        base = os.path.splitext(os.path.basename(p))[0]
        cands = [p, os.path.splitext(p)[0] + ".ttx"]
        if mdir:
            cands.append(os.path.join(root, mdir, base + ".ttx"))
        for c in cands:
            if os.path.isfile(c):
                return c
        return None

    built = []
    for dsname, mdir in todo:
        path = os.path.join(root, dsname)
        if not os.path.exists(path):
            continue
        ds = DesignSpaceDocument.fromfile(path)
        datas = []
        for s in ds.sources:
            p = resolve(s.path, mdir)
            if p is None:
                datas = None
                break
            datas.append(load(p))
            s.font = TTFont(io.BytesIO(datas[-1]))
        if not datas:
            continue
        try:
            vf, model, _ = varLib.build(ds, optimize=False)
        except Exception as e:
            r.case((dsname, mdir, "build"))
            r.fail("varLib.build(%s, masters %s) raised %s: %s" % (dsname, mdir, type(e).__name__, str(e)[:160]))
            continue
        built.append(dsname)
        buf = io.BytesIO()
        vf.save(buf)
        hv = _hb(buf.getvalue())
        vorder = vf.getGlyphOrder()
        tags = [a.axisTag for a in vf["fvar"].axes]
        name2tag = {a.name: a.tag for a in ds.axes}
        dsaxes = {a.tag: a for a in ds.axes}
        vcmap = vf.getBestCmap() or {}
        fractional = not (len(tags) == 1 or all(abs(v) in (0, 1) for sl in model.origLocations for v in sl.values()))
        for si, s in enumerate(ds.sources):
            loc = s.getFullDesignLocation(ds)
            nloc = {}
            for aname, v in loc.items():
                a = dsaxes[name2tag[aname]]
                triple = [a.map_forward(x) for x in (a.minimum, a.default, a.maximum)]
                nloc[a.tag] = float(_norm(F(v), *[F(t) for t in triple]))
            hv.set_var_coords_normalized([nloc.get(t, 0.0) for t in tags])
            mfont = TTFont(io.BytesIO(datas[si]))
            mdata = datas[si]
            if "hhea" not in mfont:
                FontBuilder(font=mfont).setupHorizontalHeader(numberOfHMetrics=mfont["maxp"].numGlyphs)
                b2 = io.BytesIO()
                mfont.save(b2)
                mdata = b2.getvalue()
            hm = _hb(mdata)
            morder = mfont.getGlyphOrder()
            is_sparse = "OS/2" not in mfont or len(morder) < len(vorder)
            for gid, g in enumerate(morder):
                if g not in vorder:
                    continue
                r.case((dsname, mdir, si, "glyph"))
                ops_v, xy_v = _outline(hv, vorder.index(g))
                ops_m, xy_m = _outline(hm, gid)
                if is_sparse and not xy_m:
                    continue            # empty placeholder in a sparse source
                if ops_v != ops_m:
                    (ops_v, xy_v), (ops_m, xy_m) = _align_closing_lines(ops_v, xy_v, ops_m, xy_m, 1.0)
                if ops_v != ops_m:
                    (ops_v, xy_v), (ops_m, xy_m) = _merge_collinear_lines(ops_v, xy_v), _merge_collinear_lines(ops_m, xy_m)
                if ops_v != ops_m:
                    r.fail("%s/%s source %d glyph %s: outline structure differs (%s vs %s)" % (dsname, mdir, si, g, ops_v[:40], ops_m[:40]))
                    continue
                d = max([abs(a - b) for a, b in zip(xy_v, xy_m)] or [0])
                if d > 0.5 + 0.05:
                    r.fail("%s/%s source %d glyph %s: outline differs by %.3f" % (dsname, mdir, si, g, d))
                av, am = hv.get_glyph_h_advance(vorder.index(g)), hm.get_glyph_h_advance(gid)
                if abs(av - am) > (1 if fractional else 0):
                    r.fail("%s/%s source %d glyph %s: advance %d vs source %d" % (dsname, mdir, si, g, av, am))
            if is_sparse or "GPOS" not in mfont or morder != vorder or ds.rules:
                continue            # <rules> substitute glyphs at some locations: shaping is not comparable
            mcmap = mfont.getBestCmap() or {}
            chars = [c for c in sorted(vcmap) if mcmap.get(c) == vcmap[c]][:16]
            for a in chars:
                text = "".join(chr(a) + chr(b) for b in chars)
                r.case((dsname, mdir, si, "shape"))
                sv, sm = _shape(hv, text), _shape(hm, text)
                ptol = (3 if fractional else 0)
                if len(sv) != len(sm) or any(x[0] != y[0] or max(abs(p - q) for p, q in zip(x[1:], y[1:])) > ptol for x, y in zip(sv, sm)):
                    diff = [(x, y) for x, y in zip(sv, sm) if x != y][:3]
                    r.fail("%s/%s source %d: shaping of %r differs from source: %r" % (dsname, mdir, si, text[:8], diff))
    r.sample({"designspaces built": built})
    return r
