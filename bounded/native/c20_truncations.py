"""B-enum for C20: every truncation length / single-byte corruption (header + directory) of
corpus containers must make TTFont(...) + raw table access raise only TTLibError."""
import io
import os
import random
import sys

from _common import REPO, check_tree, emit

check_tree()
from fontTools.ttLib import TTFont, TTLibError

tier, seed = sys.argv[1], int(sys.argv[2])
FILES = ["Tests/ttx/data/TestTTF.ttf", "Tests/ttx/data/TestOTF.otf", "Tests/ttx/data/TestTTC.ttc",
         "Tests/ttx/data/TestWOFF.woff", "Tests/ttx/data/TestWOFF2.woff2"]
KNOWN_WOFF2_SITES = ("reconstruct", "_reconstruct", "decodeTriplets", "_decodeGlyph", "_decodeComponents", "_decodeCoordinates",
                     "_decodeBBoxes", "_decodeInstructions", "_setCoordinates", "unpack255UShort", "_decodeSimpleGlyph")


def probe(data, fontNumber):
    """-> None if fine / TTLibError, else (exception type name, innermost function, known-finding id)"""
    import traceback
    try:
        f = TTFont(io.BytesIO(data), fontNumber=fontNumber, lazy=True)
        for tag in list(f.reader.keys()):
            f.reader[tag]
    except TTLibError:
        return None
    except Exception as e:
        tb = traceback.extract_tb(e.__traceback__)
        inner = tb[-1]
        names = [fr.name for fr in tb]
        kid = None
        if any(fr.filename.endswith("woff2.py") for fr in tb) and any(n in KNOWN_WOFF2_SITES or n.startswith("_reconstruct") or n == "reconstructTable" for n in names):
            kid = "C20-woff2-reconstruct"
        return (type(e).__name__, "%s:%d %s" % (os.path.basename(inner.filename), inner.lineno, inner.name), kid)
    return None


rnd = random.Random(seed)
evaluations = 0
violations, samples = [], []
distinct = set()
for rel in FILES:
    path = os.path.join(REPO, rel)
    if not os.path.exists(path):
        continue
    data = open(path, "rb").read()
    fn = 0 if rel.endswith(".ttc") else -1
    n = len(data)
    head = min(n, 700)
    lengths = list(range(0, head)) + (list(range(head, n, 1)) if tier == "thorough" else sorted(rnd.sample(range(head, n), min(400, max(0, n - head)))))
    for L in lengths:
        evaluations += 1
        r = probe(data[:L], fn)
        distinct.add((rel, "trunc", r[0] if r else "ok"))
        if r:
            violations.append({"input": "%s truncated to %d bytes" % (rel, L), "exception": r[0], "site": r[1], "known_id": r[2]})
    region = min(n, 400)
    values = (0x00, 0xFF, 0x80, 0x01) if tier == "quick" else tuple(range(0, 256, 5))
    for pos in range(region):
        for v in values:
            if data[pos] == v:
                continue
            evaluations += 1
            b = bytearray(data)
            b[pos] = v
            r = probe(bytes(b), fn)
            distinct.add((rel, "corrupt", r[0] if r else "ok"))
            if r:
                violations.append({"input": "%s byte %d set to 0x%02x" % (rel, pos, v), "exception": r[0], "site": r[1], "known_id": r[2]})
    samples.append({"file": rel, "size": n, "truncations": len(lengths), "corruptions": region * len(values)})

# keep the report small: first few per (site)
seen, short = {}, []
for v in violations:
    k = (v["exception"], v["site"])
    seen[k] = seen.get(k, 0) + 1
    if seen[k] <= 2:
        short.append(v)
emit({"evaluations": evaluations, "distinct_nontrivial": len(distinct), "samples": samples,
      "rule": "every truncation length (quick: first 700 + 400 sampled) and single-byte corruption of the first 400 bytes of 5 corpus containers; distinct = (file, kind, outcome class)",
      "violations": short, "violation_sites": {"%s @ %s" % k: c for k, c in seen.items()}})
