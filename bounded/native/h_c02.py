"""C02: encoding any valid table content and decoding it returns that content; an independent
OpenType reader (HarfBuzz, or a few lines of struct parsing written here) sees the same content in
the compiled bytes.

All contents are GENERATED (structure enumeration x seeded values), placed into a small TrueType
font made with FontBuilder, compiled by TTFont.save (i.e. the real table.compile), and decoded from
the saved bytes by a fresh TTFont (the real table.decompile) and by HarfBuzz.

Format limits that the generators respect (an exception there is the correct behaviour): format 0
glyph IDs < 256, 16-bit length fields of formats 4 / 6, int16 coordinate deltas and bounding boxes,
F2Dot14 range [-2, 2), contradictory component flags.  HarfBuzz limits worked around: advances are
scaled through int16, fvar values are single-precision floats, h-advance is clamped at 0,
has_paint(glyph 0) is always true for COLR v1.

Known findings on the pinned tree (tagged, not silenced):
* C02-cmap12-empty-map-crash: cmap_format_12_or_13.compile indexes charCodes[0]; an empty mapping
  (legal: nGroups = 0) raises IndexError.
* C02-cmap14-default-run-over-256: cmap_format_14.compile puts a whole run of consecutive default
  UVS code points into one range whose additionalCount is a uint8; a run of > 256 raises struct.error
  instead of being split.
* C02-composite-bounds-skip-point-sized-component: Glyph.tryRecalcBoundsComposite treats a component
  whose own box has zero width and height (a one-point glyph) as empty, so the composite's header box
  (and everything HarfBuzz derives from it) misses that point; the slow path includes it.
"""
import contextlib
import io
import itertools
import logging
import struct
from fractions import Fraction

from harness import check, Result


@contextlib.contextmanager
def _quiet():
    prev = logging.root.manager.disable
    logging.disable(logging.CRITICAL)
    try:
        yield
    finally:
        logging.disable(prev)


def _glyph_names(n):
    return [".notdef"] + ["g%d" % i for i in range(1, n)]


def _builder(names, glyphs=None, metrics=None, cmap=None, post_names=True):
    """FontBuilder with every required table; glyphs default to empty, metrics to (500, 0)."""
    from fontTools.fontBuilder import FontBuilder
    from fontTools.ttLib.tables._g_l_y_f import Glyph
    fb = FontBuilder(1000, isTTF=True)
    fb.setupGlyphOrder(list(names))
    fb.setupCharacterMap(dict(cmap or {}))
    fb.setupGlyf(glyphs if glyphs is not None else {n: Glyph() for n in names})
    fb.setupHorizontalMetrics(metrics if metrics is not None else {n: (500, 0) for n in names})
    fb.setupHorizontalHeader(ascent=800, descent=-200)
    fb.setupNameTable({"familyName": "C02", "styleName": "Regular"})
    fb.setupOS2(xAvgCharWidth=500)
    fb.setupPost(keepGlyphNames=post_names)
    return fb


def _save(font):
    out = io.BytesIO()
    font.save(out)
    return out.getvalue()


def _load(data, lazy=None):
    from fontTools.ttLib import TTFont
    return TTFont(io.BytesIO(data), lazy=lazy)


def _hb(data):
    import uharfbuzz as hb
    face = hb.Face(data)
    return hb, face, hb.Font(face)


def _exc(e):
    return "%s: %s" % (type(e).__name__, str(e)[:160])


# ------------------------------------------------------------------------------------------------
# cmap

def _cp_sets(rnd, lo, hi, kind, n):
    """code point sets of a given structure inside [lo, hi)."""
    span = hi - lo
    if kind == "empty":
        return []
    if kind == "single":
        return [rnd.choice((lo, hi - 1, rnd.randrange(lo, hi)))]
    if kind == "run":
        a = rnd.randrange(lo, max(lo + 1, hi - n))
        return list(range(a, min(hi, a + n)))
    if kind == "runs+gaps":
        out, cp = [], rnd.randrange(lo, lo + max(1, span // 4))
        while len(out) < n and cp < hi:
            ln = rnd.choice((1, 1, 2, 3, 7, 40))
            out.extend(range(cp, min(hi, cp + ln)))
            cp += ln + rnd.choice((1, 1, 2, 3, 255, 256, 257, max(1, span // (n + 1))))
        return out
    if kind == "alternating":
        a = rnd.randrange(lo, max(lo + 1, hi - 2 * n))
        return list(range(a, min(hi, a + 2 * n), 2))
    if kind == "edges":
        return sorted({lo, lo + 1, hi - 1, hi - 2, (lo + hi) // 2} | {c for c in (0xFF, 0x100, 0xFFFE, 0xFFFF, 0x10000, 0x10FFFF, 0xD7FF, 0xE000) if lo <= c < hi})
    if kind == "sparse":
        return sorted({rnd.randrange(lo, hi) for _ in range(n)})
    raise ValueError(kind)


def _assign(rnd, cps, names, how, max_gid=None):
    pool = names[1:max_gid] if max_gid else names[1:]
    if how == "random":
        return {cp: rnd.choice(pool) for cp in cps}
    if how == "consecutive":          # consecutive code points -> consecutive glyph IDs (idDelta / startGlyphID friendly)
        base = rnd.randrange(len(pool))
        return {cp: pool[(base + i) % len(pool)] for i, cp in enumerate(cps)}
    if how == "constant":             # many-to-one (format 13 territory)
        g = rnd.choice(pool)
        return {cp: g for cp in cps}
    if how == "mixed":
        out, i = {}, 0
        cps = list(cps)
        while i < len(cps):
            ln = rnd.randint(1, 12)
            base = rnd.randrange(len(pool))
            rand = rnd.random() < 0.4
            for j, cp in enumerate(cps[i:i + ln]):
                out[cp] = rnd.choice(pool) if rand else pool[(base + j) % len(pool)]
            i += ln
        return out
    raise ValueError(how)


def _subtable(fmt, pid, eid, mapping, lang=0):
    from fontTools.ttLib.tables._c_m_a_p import CmapSubtable
    st = CmapSubtable.newSubtable(fmt)
    st.platformID, st.platEncID, st.language = pid, eid, lang
    st.cmap = dict(mapping)
    return st


def _parse_cmap_directory(data):
    """independent parse of the cmap header: [(platformID, encodingID, offset, format)]."""
    version, n = struct.unpack(">HH", data[:4])
    out = []
    for i in range(n):
        p, e, off = struct.unpack(">HHL", data[4 + 8 * i:12 + 8 * i])
        out.append((p, e, off, struct.unpack(">H", data[off:off + 2])[0]))
    return out


@check("C02")
def cmap_every_format_roundtrip_and_harfbuzz(tier, rnd):
    """For formats 0, 2, 4, 6, 12, 13 and structures {empty, single, run, runs+gaps, alternating,
    edges (0, 0xFFFF, 0x10FFFF, surrogate neighbours), sparse, > 64k entries} x glyph assignment
    {random, consecutive, constant, mixed}: the subtable decoded from the compiled font maps exactly
    the generated code points (entries mapping to glyph 0 count as unmapped) to the generated
    glyphs, the subtable directory names the generated format, and (all formats HarfBuzz implements:
    0, 4, 6, 12, 13) HarfBuzz's nominal glyph equals the generated glyph ID for every mapped code
    point and is 'missing' for unmapped neighbours.  Also several subtables (identical and
    different maps) in one table."""
    from fontTools.ttLib import newTable
    r = Result("format x structure x assignment grid with seeded values, 300-glyph and 70000-entry cases; distinct = (format, structure, assignment)")
    names = _glyph_names(300)
    with _quiet():
        base = _builder(names).font
        base_bytes = _save(base)
    specs = []
    structures = ("empty", "single", "run", "runs+gaps", "alternating", "edges", "sparse")
    for fmt, pid, eid, lo, hi in ((0, 3, 1, 0, 256), (4, 3, 1, 0, 0x10000), (6, 3, 1, 0, 0x10000), (12, 3, 10, 0, 0x110000), (13, 3, 10, 0, 0x110000), (2, 1, 1, 0, 0x10000)):
        for kind in structures:
            for how in ("random", "consecutive", "constant", "mixed"):
                specs.append((fmt, pid, eid, lo, hi, kind, how, rnd.choice((1, 5, 60, 400))))
    for fmt in (12, 13, 4):
        specs.append((fmt, 3, 10 if fmt != 4 else 1, 0, 0x110000 if fmt != 4 else 0x10000, "sparse", "mixed", 70000 if fmt != 4 else 5000))   # format 4 has a 16-bit length field
    reps = 3 if tier == "quick" else 20
    with _quiet():
        for fmt, pid, eid, lo, hi, kind, how, n in specs * reps:
            if fmt == 6 and kind in ("sparse", "edges", "runs+gaps"):
                hi = lo + 12000                      # format 6 is a dense array with a 16-bit length
            if fmt == 2:
                # legal mixed 8/16-bit content: lead bytes are not themselves mapped as single bytes
                leads = rnd.sample(range(0x81, 0xFF), rnd.randint(0, 5))
                singles = [c for c in _cp_sets(rnd, 0, 256, kind if kind != "edges" else "sparse", min(n, 100)) if c not in leads]
                doubles = [(h << 8) | l for h in leads for l in _cp_sets(rnd, 0, 256, kind if kind != "edges" else "sparse", min(n, 60))]
                cps = singles + doubles
            else:
                cps = _cp_sets(rnd, lo, hi, kind, n)
            mapping = _assign(rnd, cps, names, how, max_gid=256 if fmt == 0 else None)
            r.case((fmt, kind, how))
            label = "format %d %s/%s (%d entries, e.g. %s)" % (fmt, kind, how, len(mapping), ["U+%04X" % c for c in sorted(mapping)[:4]])
            try:
                font = _load(base_bytes)
                cm = newTable("cmap")
                cm.tableVersion = 0
                cm.tables = [_subtable(fmt, pid, eid, mapping)]
                font["cmap"] = cm
                data = _save(font)
                g = _load(data)
                raw = g.reader["cmap"]
                sts = g["cmap"].tables
                got = {cp: nm for cp, nm in sts[0].cmap.items() if nm != ".notdef"}
            except Exception as e:
                kid = "C02-cmap12-empty-map-crash" if fmt in (12, 13) and not mapping and isinstance(e, IndexError) else None
                r.fail("%s: compile/decompile raised %s" % (label, _exc(e)), known_id=kid)
                continue
            if [d[3] for d in _parse_cmap_directory(raw)] != [fmt] or sts[0].format != fmt:
                r.fail("%s: compiled directory does not hold one format-%d subtable: %s" % (label, fmt, _parse_cmap_directory(raw)))
            if got != mapping:
                diff = sorted(set(got.items()) ^ set(mapping.items()))[:4]
                r.fail("%s: decompile(compile(map)) != map, first differences %s" % (label, diff))
            if fmt in (0, 4, 6, 12, 13):
                hb, face, hfont = _hb(data)
                probe = sorted(mapping) if len(mapping) < 3000 else rnd.sample(sorted(mapping), 3000)
                for cp in probe:
                    if hfont.get_nominal_glyph(cp) != font.getGlyphID(mapping[cp]):
                        r.fail("%s: HarfBuzz maps U+%04X to glyph %s, generated glyph is %d" % (label, cp, hfont.get_nominal_glyph(cp), font.getGlyphID(mapping[cp])))
                        break
                for cp in probe[:400]:
                    for nb in (cp - 1, cp + 1):
                        if lo <= nb < hi and nb not in mapping and hfont.get_nominal_glyph(nb) not in (None, 0):
                            r.fail("%s: HarfBuzz maps unmapped U+%04X to glyph %s" % (label, nb, hfont.get_nominal_glyph(nb)))
                            break
        # several subtables in one table: identical maps (shared data), subset/superset, mac + windows
        for it in range(20 if tier == "quick" else 200):
            bmp = _assign(rnd, _cp_sets(rnd, 0x20, 0x10000, rnd.choice(structures[1:]), 80), names, "mixed")
            astral = dict(bmp)
            astral.update(_assign(rnd, _cp_sets(rnd, 0x10000, 0x110000, "runs+gaps", 40), names, "mixed"))
            mac = _assign(rnd, _cp_sets(rnd, 0, 256, "sparse", 50), names, "random", max_gid=256)
            want = [(0, 3, 4, bmp), (3, 1, 4, bmp), (3, 10, 12, astral), (1, 0, rnd.choice((0, 6)), mac), (0, 4, 12, astral)]
            rnd.shuffle(want)
            r.case(("multi", tuple(w[:3] for w in want)))
            try:
                font = _load(base_bytes)
                cm = newTable("cmap")
                cm.tableVersion = 0
                cm.tables = [_subtable(f, p, e, m) for p, e, f, m in want]
                font["cmap"] = cm
                data = _save(font)
                g = _load(data, lazy=rnd.choice((None, True, False)))
                for p, e, f, m in want:
                    st = g["cmap"].getcmap(p, e)
                    got = None if st is None else {cp: nm for cp, nm in st.cmap.items() if nm != ".notdef"}
                    if st is None or st.format != f or got != m:
                        r.fail("multi-subtable cmap: subtable (%d,%d) format %d does not round-trip" % (p, e, f))
                dirs = _parse_cmap_directory(g.reader["cmap"])
                if [(d[0], d[1]) for d in dirs] != sorted((p, e) for p, e, f, m in want):
                    r.fail("multi-subtable cmap: encoding records not sorted by (platform, encoding): %s" % dirs)
                hb, face, hfont = _hb(data)
                for cp in astral:
                    if hfont.get_nominal_glyph(cp) != font.getGlyphID(astral[cp]):
                        r.fail("multi-subtable cmap: HarfBuzz maps U+%04X to %s, generated %d" % (cp, hfont.get_nominal_glyph(cp), font.getGlyphID(astral[cp])))
                        break
            except Exception as e:
                r.fail("multi-subtable cmap raised %s" % _exc(e))
    r.sample({"format": 4, "structure": "runs+gaps", "assignment": "mixed"})
    _cmap_variation_sequences_format14(tier, rnd, r)
    return r


def _cmap_variation_sequences_format14(tier, rnd, r):
    """(part of cmap_every_format_roundtrip_and_harfbuzz) Format 14: generated {variation selector: [(code point, None = default | glyph)]} with runs of
    default sequences longer than 256 (range splitting), BMP and supplementary bases, selectors
    from both VS blocks: decoded uvsDict equals the generated one (as sets per selector), and
    HarfBuzz get_variation_glyph returns the non-default glyph / the nominal glyph for default
    sequences / nothing for unlisted sequences."""
    from fontTools.ttLib import newTable
    from fontTools.ttLib.tables._c_m_a_p import CmapSubtable
    r.rule += " + format 14: seeded uvsDicts (quick 40, thorough 400): 1-6 selectors x runs/sparse bases x default/non-default mix; distinct = (selectors, has long default run, has astral base)"
    names = _glyph_names(200)
    with _quiet():
        base_bytes = _save(_builder(names).font)
        for it in range(40 if tier == "quick" else 400):
            nominal = _assign(rnd, _cp_sets(rnd, 0x20, 0x3000, "runs+gaps", 500) + _cp_sets(rnd, 0x1F000, 0x1F400, "run", 300) + _cp_sets(rnd, 0x2F800, 0x2FA20, "sparse", 40), names, "mixed")
            bases = sorted(nominal)
            sels = rnd.sample(list(range(0xFE00, 0xFE10)) + list(range(0xE0100, 0xE01F0)), rnd.randint(1, 6))
            uvs = {}
            long_run = False
            for vs in sels:
                entries = {}
                for _ in range(rnd.randint(1, 4)):
                    kind = rnd.choice(("default-run", "default-sparse", "nondefault-run", "nondefault-sparse"))
                    if kind.endswith("run"):
                        a = rnd.randrange(len(bases))
                        ln = rnd.choice((1, 2, 30, 257, 300))
                        chosen = bases[a:a + ln]
                        long_run |= kind == "default-run" and ln > 256
                    else:
                        chosen = rnd.sample(bases, rnd.randint(1, 20))
                    for cp in chosen:
                        entries[cp] = None if kind.startswith("default") else rnd.choice(names[1:])
                # also variation sequences whose base has no nominal mapping (legal for non-default)
                for _ in range(rnd.choice((0, 0, 2))):
                    entries[rnd.randrange(0x4000, 0x9000)] = rnd.choice(names[1:])
                uvs[vs] = sorted(entries.items())
            r.case((14, len(sels), long_run, any(cp > 0xFFFF for e in uvs.values() for cp, _ in e)))
            try:
                font = _load(base_bytes)
                cm = newTable("cmap")
                cm.tableVersion = 0
                st = CmapSubtable.newSubtable(14)
                st.platformID, st.platEncID, st.language, st.cmap = 0, 5, 0, {}
                st.uvsDict = {vs: rnd.sample(e, len(e)) for vs, e in uvs.items()}        # any order is legal input
                cm.tables = [_subtable(12, 3, 10, nominal), st]
                font["cmap"] = cm
                data = _save(font)
                g = _load(data)
                got = g["cmap"].getcmap(0, 5).uvsDict
            except Exception as e:
                kid = "C02-cmap14-default-run-over-256" if long_run and isinstance(e, struct.error) else None
                r.fail("format 14 with selectors %s (default run of > 256 consecutive code points: %s) raised %s" % (["%X" % v for v in sels], long_run, _exc(e)), known_id=kid)
                continue
            if {vs: sorted(e, key=lambda t: t[0]) for vs, e in got.items()} != uvs:
                bad = [vs for vs in uvs if sorted(got.get(vs, []), key=lambda t: t[0]) != uvs[vs]]
                r.fail("format 14: uvsDict does not round-trip for selectors %s (%d entries generated, %d decoded)" % (["%X" % v for v in bad[:3]], len(uvs[bad[0]]) if bad else 0, len(got.get(bad[0], [])) if bad else 0))
            hb, face, hfont = _hb(data)
            for vs, entries in uvs.items():
                listed = dict(entries)
                for cp, nm in entries[:600]:
                    want = font.getGlyphID(nm) if nm is not None else font.getGlyphID(nominal[cp])
                    if hfont.get_variation_glyph(cp, vs) != want:
                        r.fail("format 14: HarfBuzz resolves <U+%04X, U+%04X> to %s, generated %d (%s)" % (cp, vs, hfont.get_variation_glyph(cp, vs), want, "default" if nm is None else "non-default"))
                        break
                for cp in rnd.sample(bases, 30):
                    if cp not in listed and hfont.get_variation_glyph(cp, vs) not in (None, 0):
                        r.fail("format 14: HarfBuzz resolves unlisted <U+%04X, U+%04X> to %s" % (cp, vs, hfont.get_variation_glyph(cp, vs)))
                        break
    r.sample({"selectors": ["FE0F", "E0100"], "default run": 300})


# ------------------------------------------------------------------------------------------------
# hmtx / vmtx

@check("C02")
def metrics_tables_roundtrip_and_harfbuzz(tier, rnd):
    """hmtx / vmtx for generated (advance, side bearing) arrays - random, monospaced, trailing runs
    of equal advances of every length, last glyph different, 1 glyph, advances up to 65535,
    bearings over the int16 range: decoded metrics equal the generated ones; the compiled table has
    exactly 4*k + 2*(n-k) bytes for the k written to hhea.numberOfHMetrics / vhea.numberOfVMetrics,
    1 <= k <= n, and an independent struct parse with that k yields the metrics; HarfBuzz advances
    (h: advance, v: -advance) agree for every glyph."""
    r = Result("glyph counts {1,2,3,5,17,40,700} x advance patterns x seeded values, hmtx and vmtx; distinct = (table, n, pattern)")
    patterns = ("random", "mono", "tail-run", "last-differs", "two-values", "big")
    counts = (1, 2, 3, 5, 17, 40, 700)
    with _quiet():
        for n, pat in itertools.product(counts, patterns):
            for rep in range(4 if tier == "quick" else 40):
                names = _glyph_names(n)
                big = pat == "big"
                adv = [rnd.randrange(0, 65536 if big else 2000) for _ in range(n)]
                if pat == "mono":
                    adv = [adv[0]] * n
                elif pat == "tail-run":
                    k = rnd.randint(1, n)
                    adv[n - k:] = [adv[n - k]] * k
                elif pat == "last-differs":
                    adv = [adv[0]] * (n - 1) + [adv[0] + 1]
                elif pat == "two-values":
                    adv = [rnd.choice((500, 501)) for _ in range(n)]
                hm = {nm: (adv[i], rnd.randint(-32768, 32767) if big else rnd.randint(-300, 300)) for i, nm in enumerate(names)}
                vadv = list(reversed(adv))
                vm = {nm: (vadv[i], rnd.randint(-300, 300)) for i, nm in enumerate(names)}
                try:
                    fb = _builder(names, metrics=hm)
                    fb.setupVerticalHeader(ascent=500, descent=-500)
                    fb.setupVerticalMetrics(vm)
                    data = _save(fb.font)
                    g = _load(data)
                    hb, face, hfont = _hb(data)
                except Exception as e:
                    r.fail("n=%d %s: building/compiling raised %s" % (n, pat, _exc(e)))
                    continue
                for tag, hdr, want, sign in (("hmtx", "hhea", hm, 1), ("vmtx", "vhea", vm, -1)):
                    r.case((tag, n, pat))
                    label = "%s n=%d %s advances=%s..." % (tag, n, pat, [want[nm][0] for nm in names][-6:])
                    got = dict(g[tag].metrics)
                    if {k: tuple(v) for k, v in got.items()} != want:
                        bad = [nm for nm in names if tuple(got.get(nm, ())) != want[nm]][:3]
                        r.fail("%s: decoded metrics differ for %s: %s vs generated %s" % (label, bad, [got.get(b) for b in bad], [want[b] for b in bad]))
                    raw, hraw = g.reader[tag], g.reader[hdr]
                    k = struct.unpack(">H", hraw[34:36])[0]
                    if not (1 <= k <= n) or len(raw) != 4 * k + 2 * (n - k):
                        r.fail("%s: number of long metrics %d / table length %d inconsistent with %d glyphs" % (label, k, len(raw), n))
                        continue
                    long_part = struct.unpack(">" + "Hh" * k, raw[:4 * k])
                    rest = struct.unpack(">%dh" % (n - k), raw[4 * k:])
                    parsed = [(long_part[2 * i], long_part[2 * i + 1]) if i < k else (long_part[2 * k - 2], rest[i - k]) for i in range(n)]
                    if parsed != [want[nm] for nm in names]:
                        r.fail("%s: independent parse with numberOfMetrics=%d disagrees with generated metrics" % (label, k))
                    for gid in (range(n) if n <= 40 else rnd.sample(range(n), 60) + [n - 1, n - 2]):
                        a = hfont.get_glyph_h_advance(gid) if sign == 1 else hfont.get_glyph_v_advance(gid)
                        if want[names[gid]][0] > 32767:
                            continue        # HarfBuzz scales advances through int16 (its limitation); the struct parse above covers these
                        if a != sign * want[names[gid]][0]:
                            r.fail("%s: HarfBuzz advance of glyph %d is %d, generated %d" % (label, gid, a, sign * want[names[gid]][0]))
                            break
    r.sample({"n": 5, "pattern": "tail-run", "advances": [700, 12, 400, 400, 400]})
    return r


# ------------------------------------------------------------------------------------------------
# glyf / loca

def _gen_simple_glyph(rnd, max_pts=12, clamp=16000):
    """(contours [[(x, y, on)]], program bytes, overlap flag) with int16 coordinates whose successive
    deltas also fit int16 (the format stores deltas): all delta encodings (zero / byte / word) occur."""
    contours = []
    x = y = 0
    for _ in range(rnd.randint(1, 4)):
        pts = []
        style = rnd.choice(("tiny", "byte", "word", "mixed", "repeat"))
        dx0, dy0 = rnd.randint(-3, 3), rnd.randint(-3, 3)
        for i in range(rnd.randint(1, max_pts) if style != "repeat" else rnd.choice((rnd.randint(3, 3 * max_pts), rnd.randint(3, 3 * max_pts), rnd.randint(255, 600)))):     # flag repeat counts past 255
            st = rnd.choice(("tiny", "byte", "word")) if style == "mixed" else style
            if st == "repeat":
                dx, dy = dx0, dy0
            else:
                lim = {"tiny": 2, "byte": 255, "word": 9000}[st]
                dx, dy = rnd.randint(-lim, lim), rnd.choice((0, rnd.randint(-lim, lim)))
            x = max(-clamp, min(clamp, x + dx))
            y = max(-clamp, min(clamp, y + dy))
            pts.append((x, y, 1 if style == "repeat" else rnd.choice((0, 1, 1))))
        contours.append(pts)
    program = bytes(rnd.randrange(256) for _ in range(rnd.choice((0, 0, 1, 2, 7))))
    return contours, program, rnd.random() < 0.2


def _make_simple(contours, program, overlap):
    from fontTools.ttLib.tables._g_l_y_f import Glyph, GlyphCoordinates, flagOverlapSimple
    from fontTools.ttLib.tables import ttProgram
    g = Glyph()
    g.numberOfContours = len(contours)
    g.coordinates = GlyphCoordinates([(x, y) for c in contours for x, y, on in c])
    g.flags = bytearray(on for c in contours for x, y, on in c)
    if overlap:
        g.flags[0] |= flagOverlapSimple
    ends, n = [], 0
    for c in contours:
        n += len(c)
        ends.append(n - 1)
    g.endPtsOfContours = ends
    g.program = ttProgram.Program()
    g.program.fromBytecode(program)
    return g


def _expected_path(contours, dx=0, dy=0):
    """Independent TrueType outline semantics: each contour as a cyclic list of ('on'|'off', (x, y)),
    with the implied on-curve point inserted between two consecutive off-curve points."""
    out = []
    for c in contours:
        seq = []
        n = len(c)
        for i, (x, y, on) in enumerate(c):
            seq.append(("on" if on else "off", (Fraction(x + dx), Fraction(y + dy))))
            nx, ny, non = c[(i + 1) % n]
            if not on and not non:
                seq.append(("on", (Fraction(x + nx, 2) + dx, Fraction(y + ny, 2) + dy)))
        out.append(seq)
    return out


class _PathPen:
    def __init__(self):
        self.contours = []

    def moveTo(self, p):
        self.contours.append([("on", p)])

    def lineTo(self, p):
        self.contours[-1].append(("on", p))

    def qCurveTo(self, *pts):
        for p in pts[:-1]:
            self.contours[-1].append(("off", p))
        self.contours[-1].append(("on", pts[-1]))

    def curveTo(self, *pts):
        self.contours[-1].append(("cubic", pts))

    def closePath(self):
        c = self.contours[-1]
        if len(c) > 1 and c[-1] == c[0]:
            c.pop()

    endPath = closePath


def _canon(seq):
    seq = [(k, (Fraction(p[0]), Fraction(p[1]))) for k, p in seq]
    return min(seq[i:] + seq[:i] for i in range(len(seq))) if seq else seq


def _same_outline(hb_contours, expected):
    return sorted(_canon(c) for c in hb_contours) == sorted(_canon(c) for c in expected)


_COMP_FLAG_CHOICES = (0x0004, 0x0200, 0x0400, 0x0800, 0x1000, 0x0010)


@check("C02")
def glyf_outlines_and_components_roundtrip_and_harfbuzz(tier, rnd):
    """Generated simple glyphs (1-4 contours; zero / byte / word deltas, long repeated-flag runs,
    single-point and all-off-curve contours, overlap flag, instructions) and composite glyphs
    (byte / word offsets, point matching, uniform / x-y / 2x2 transforms with exact F2Dot14 values,
    every user flag, nested composites, instructions): decoded coordinates, on-curve/overlap flags,
    contour ends, instructions, component glyph / offsets or anchor points / transform / flags
    equal the generated ones; the header bounding box is the exact min/max of the generated points;
    HarfBuzz draws exactly the generated outline (implied points inserted independently here) for
    simple glyphs and offset-only composites, and reports the generated control box as extents."""
    from fontTools.ttLib.tables._g_l_y_f import Glyph, GlyphComponent, flagOnCurve, flagOverlapSimple
    from fontTools.ttLib.tables import ttProgram
    r = Result("seeded fonts (quick 40, thorough 400) of 30 simple + 14 composite glyphs each; distinct = (glyph kind, delta style / component encoding class)")
    with _quiet():
        for it in range(40 if tier == "quick" else 400):
            names = [".notdef"] + ["s%d" % i for i in range(30)] + ["c%d" % i for i in range(14)]
            src, glyphs = {}, {".notdef": Glyph()}
            for i, nm in enumerate(names[1:31]):
                src[nm] = _gen_simple_glyph(rnd, clamp=5000 if i < 25 else 16000)      # the last five are not used as components (2x2 transforms and scaled offsets must keep the box inside int16)
                glyphs[nm] = _make_simple(*src[nm])
            comps = {}
            for ci, nm in enumerate(names[31:]):
                g = Glyph()
                g.numberOfContours = -1
                g.components = []
                spec = []
                pure = True
                npts = 0
                for k in range(rnd.randint(1, 4)):
                    base = rnd.choice(names[1:26] + [n2 for n2 in names[31:31 + ci] if comps[n2]["pure"]][:3])
                    c = GlyphComponent()
                    c.glyphName = base
                    c.flags = 0
                    for fl in _COMP_FLAG_CHOICES:
                        if rnd.random() < 0.25 and not (fl == 0x1000 and c.flags & 0x0800):     # scaled + unscaled offset is contradictory
                            c.flags |= fl
                    base_pts = sum(len(cc) for cc in src[base][0]) if base in src else comps[base]["npts"]
                    d = {"glyph": base, "flags": c.flags}
                    if k > 0 and rnd.random() < 0.2 and npts > 0 and base_pts > 0 and base in src:
                        c.firstPt, c.secondPt = rnd.randrange(npts), rnd.randrange(base_pts)
                        if rnd.random() < 0.3 and npts > 300:
                            c.firstPt = npts - 1
                        d["anchor"] = (c.firstPt, c.secondPt)
                        pure = False
                    else:
                        lim = rnd.choice((0, 100, 127, 128, 129, 3000))
                        c.x, c.y = rnd.randint(-lim - 1, lim), rnd.randint(-lim - 1, lim)
                        d["offset"] = (c.x, c.y)
                    tk = rnd.choice(("none", "none", "scale", "xy", "2x2"))
                    if tk != "none" and base in src:
                        q = lambda: Fraction(rnd.choice((rnd.randint(-32768, 32767), 8192, 16384, -16384, 1, 24576)), 16384)
                        a, b = q(), q()
                        t = {"scale": [[a, 0], [0, a]], "xy": [[a, 0], [0, b if b != a else -a - Fraction(1, 16384)]], "2x2": [[a, q()], [q() or Fraction(1, 16384), b]]}[tk]
                        c.transform = [[float(v) for v in row] for row in t]
                        d["transform"] = t
                        pure = False
                    if base not in src:
                        pure = pure and comps[base]["pure"]
                    g.components.append(c)
                    spec.append(d)
                    npts += base_pts
                prog = bytes(rnd.randrange(256) for _ in range(rnd.choice((0, 0, 3))))
                if prog:
                    g.program = ttProgram.Program()
                    g.program.fromBytecode(prog)
                comps[nm] = {"spec": spec, "program": prog, "pure": pure, "npts": npts}
                glyphs[nm] = g
            try:
                fb = _builder(names, glyphs=glyphs)
                glyf = fb.font["glyf"]
                fb.setupHorizontalMetrics({nm: (1000, glyf[nm].xMin if glyf[nm].numberOfContours else 0) for nm in names})
                data = _save(fb.font)
                g2 = _load(data, lazy=rnd.choice((None, True, False)))
                hb, face, hfont = _hb(data)
            except Exception as e:
                r.fail("font %d: compiling generated glyphs raised %s" % (it, _exc(e)))
                continue

            def flat(nm, dx=0, dy=0):
                """contours of a simple glyph or an offset-only composite, translated"""
                if nm in src:
                    return [[(x + dx, y + dy, on) for x, y, on in c] for c in src[nm][0]]
                out = []
                for d in comps[nm]["spec"]:
                    out.extend(flat(d["glyph"], dx + d["offset"][0], dy + d["offset"][1]))
                return out

            for gid, nm in enumerate(names[1:], 1):
                got = g2["glyf"][nm]
                if nm in src:
                    contours, program, overlap = src[nm]
                    style = ("simple", len(contours), max(len(c) for c in contours) > 12, bool(program), overlap)
                    r.case(style)
                    want_xy = [(x, y) for c in contours for x, y, on in c]
                    want_fl = [on | (flagOverlapSimple if overlap and i == 0 else 0) for i, on in enumerate(on for c in contours for x, y, on in c)]
                    ends = list(itertools.accumulate(len(c) for c in contours))
                    if got.numberOfContours != len(contours) or list(got.coordinates) != want_xy or [f & (flagOnCurve | flagOverlapSimple) for f in got.flags] != want_fl or list(got.endPtsOfContours) != [e - 1 for e in ends] or got.program.getBytecode() != program:
                        r.fail("font %d glyph %s: decoded outline differs from generated one: contours %r" % (it, nm, contours))
                else:
                    info = comps[nm]
                    r.case(("composite", len(info["spec"]), tuple(sorted({("anchor" if "anchor" in d else "offset", "transform" in d) for d in info["spec"]}))))
                    ok = got.isComposite() and len(got.components) == len(info["spec"])
                    for c, d in zip(got.components if ok else [], info["spec"]):
                        ok &= c.glyphName == d["glyph"] and c.flags == d["flags"]
                        ok &= ((c.firstPt, c.secondPt) == d["anchor"] and not hasattr(c, "x")) if "anchor" in d else ((c.x, c.y) == d["offset"] and not hasattr(c, "firstPt"))
                        ok &= ([[Fraction(v) for v in row] for row in c.transform] == d["transform"]) if "transform" in d else not hasattr(c, "transform")
                    prog = got.program.getBytecode() if hasattr(got, "program") else b""
                    if not ok or prog != info["program"]:
                        r.fail("font %d composite %s: decoded components %r differ from generated %r" % (it, nm, [{k: v for k, v in vars(c).items()} for c in got.components], info["spec"]))
                    if not info["pure"]:
                        continue
                contours = flat(nm)
                xs = [x for c in contours for x, y, on in c]
                ys = [y for c in contours for x, y, on in c]
                box = (min(xs), min(ys), max(xs), max(ys))
                kid = None
                if nm in comps:
                    # known: the composite fast path treats a component whose own box is a single point as empty
                    def point_sized(d):
                        cc = flat(d["glyph"])
                        return len({(x, y) for c in cc for x, y, on in c}) == 1

                    def affected(name):         # directly or through a nested composite
                        return name in comps and any(point_sized(d) or affected(d["glyph"]) for d in comps[name]["spec"])
                    kid = "C02-composite-bounds-skip-point-sized-component" if affected(nm) else None
                if (got.xMin, got.yMin, got.xMax, got.yMax) != box:
                    r.fail("font %d glyph %s: header bounding box %s is not the control box %s of the generated points %r" % (it, nm, (got.xMin, got.yMin, got.xMax, got.yMax), box, comps[nm]["spec"] if nm in comps else contours), known_id=kid)
                ext = hfont.get_glyph_extents(gid)
                if (ext.x_bearing, ext.y_bearing, ext.width, ext.height) != (box[0], box[3], box[2] - box[0], box[1] - box[3]):
                    r.fail("font %d glyph %s: HarfBuzz extents %s differ from generated control box %s" % (it, nm, ext, box), known_id=kid)
                pen = _PathPen()
                hfont.draw_glyph_with_pen(gid, pen)
                if not _same_outline(pen.contours, _expected_path(contours)):
                    r.fail("font %d glyph %s: HarfBuzz draws a different outline than generated: %r" % (it, nm, contours))
    r.sample({"simple": [[(0, 0, 1), (300, 0, 0), (300, 300, 0), (0, 300, 1)]], "composite": [{"glyph": "s3", "offset": (128, -129), "flags": 0x0204}]})
    _glyf_loca_padding_and_offset_format(tier, rnd, r)
    return r


def _glyf_loca_padding_and_offset_format(tier, rnd, r):
    """(part of glyf_outlines_and_components_roundtrip_and_harfbuzz) glyf tables of total size around 0x20000 (the short/long loca switch: -120 .. +6 bytes in every
    parity) and small ones, with odd-length glyphs, empty glyphs in first / middle / last position,
    x glyf.padding in {0, 1, 2, 4}: an independent parse of loca (format from head.indexToLocFormat,
    n+1 entries) gives monotone offsets inside glyf; each slice decodes to the generated glyph
    (empty slice <=> empty glyph); short offsets are only used when every offset is even and
    < 0x20000; padding 2 / 4 aligns every glyph start; the fresh TTFont decodes the same glyphs and
    HarfBuzz sees the generated control box for the first, the last and sampled glyphs."""
    from fontTools.ttLib.tables._g_l_y_f import Glyph
    r.rule += " + glyf/loca: target sizes {small, 0x20000-120..+6} x padding {0,1,2,4} x empty-glyph placement x seeded instruction lengths; distinct = (size class, padding, loca format)"
    targets = [None, None] + [0x20000 + d for d in (-120, -60, -45, -40, -37, -34, -31, -6, -5, -4, -3, -2, -1, 0, 1, 2, 3, 4, 6)]     # padding 1 pads ~n/2 odd glyphs, hence the -30..-60 band
    if tier != "quick":
        targets = targets * 4
    with _quiet():
        for target in targets:
            n = rnd.randint(3, 12) if target is None else 70
            names = [".notdef"] + ["g%d" % i for i in range(1, n)]
            src, glyphs = {}, {}
            empties = set(rnd.sample(names, rnd.randint(0, 3))) | ({names[-1]} if rnd.random() < 0.3 else set()) | ({names[0]} if rnd.random() < 0.5 else set())
            for nm in names:
                if nm in empties:
                    glyphs[nm] = Glyph()
                    continue
                contours, program, overlap = _gen_simple_glyph(rnd, max_pts=5, clamp=3000)
                if target is not None:
                    program = bytes(rnd.randrange(256) for _ in range(rnd.randint(1700, 1900)))
                src[nm] = [contours, program, overlap]
                glyphs[nm] = _make_simple(*src[nm])
            for padding in (0, 1, 2, 4):
                if target is not None:
                    # tune one glyph's instruction length so that the padded total lands on (or next to) the target
                    tune = [nm for nm in names if nm in src][rnd.choice((0, -1))]
                    unit = max(1, padding)
                    try:
                        _builder(names, glyphs=glyphs)      # sets bounds, needed by Glyph.compile
                        total = sum(-(-len(glyphs[nm].compile(None, recalcBBoxes=False)) // unit) * unit for nm in names if nm in src)
                        delta = target - total
                        src[tune][1] = src[tune][1] + bytes(delta) if delta >= 0 else src[tune][1][:delta]
                        glyphs[tune] = _make_simple(*src[tune])
                    except Exception as e:
                        r.fail("size tuning raised %s" % _exc(e))
                        continue
                label = "target %s padding %d, %d glyphs, empty %s" % (hex(target) if target else "small", padding, n, sorted(empties))
                try:
                    fb = _builder(names, glyphs={k: (_make_simple(*src[k]) if k in src else Glyph()) for k in names})
                    glyf = fb.font["glyf"]
                    fb.setupHorizontalMetrics({nm: (1000, glyf[nm].xMin if nm in src else 0) for nm in names})
                    glyf.padding = padding
                    data = _save(fb.font)
                    g = _load(data)
                    gl, lo, hd = g.reader["glyf"], g.reader["loca"], g.reader["head"]
                except Exception as e:
                    r.fail("%s: compiling raised %s" % (label, _exc(e)))
                    continue
                fmt = struct.unpack(">h", hd[50:52])[0]
                r.case(("loca", "small" if target is None else target - 0x20000, padding, fmt))
                if fmt not in (0, 1) or len(lo) != (n + 1) * (2, 4)[fmt]:
                    r.fail("%s: loca has %d bytes for %d glyphs in format %d" % (label, len(lo), n, fmt))
                    continue
                offs = [2 * o for o in struct.unpack(">%dH" % (n + 1), lo)] if fmt == 0 else list(struct.unpack(">%dL" % (n + 1), lo))
                if offs[0] != 0 or any(a > b for a, b in zip(offs, offs[1:])) or offs[-1] > len(gl):
                    r.fail("%s: loca offsets not monotone inside glyf (%d bytes): %s..." % (label, len(gl), offs[-3:]))
                    continue
                if padding in (2, 4) and any(o % padding for o in offs):
                    r.fail("%s: glyph start not aligned to %d" % (label, padding))
                for i, nm in enumerate(names):
                    chunk = gl[offs[i]:offs[i + 1]]
                    if nm not in src:
                        if chunk.strip(b"\0"):
                            r.fail("%s: empty glyph %s has %d bytes of data" % (label, nm, len(chunk)))
                        continue
                    contours, program, overlap = src[nm]
                    npts = sum(len(c) for c in contours)
                    # independent parse of the fixed part: numberOfContours, bbox, endPts, instructions
                    nc, x0, y0, x1, y1 = struct.unpack(">hhhhh", chunk[:10])
                    ends = struct.unpack(">%dH" % nc, chunk[10:10 + 2 * nc]) if nc > 0 else ()
                    ilen = struct.unpack(">H", chunk[10 + 2 * nc:12 + 2 * nc])[0] if nc > 0 else -1
                    xs = [x for c in contours for x, y, on in c]
                    ys = [y for c in contours for x, y, on in c]
                    if nc != len(contours) or list(ends) != [e - 1 for e in itertools.accumulate(len(c) for c in contours)] or chunk[12 + 2 * nc:12 + 2 * nc + ilen] != program or (x0, y0, x1, y1) != (min(xs), min(ys), max(xs), max(ys)):
                        r.fail("%s: the loca slice of %s (offset %d) does not hold the generated glyph header/instructions" % (label, nm, offs[i]))
                        break
                    dec = g["glyf"][nm]
                    if list(dec.coordinates) != list(zip(xs, ys)) or dec.program.getBytecode() != program:
                        r.fail("%s: TTFont decodes a different outline for %s" % (label, nm))
                        break
                hb, face, hfont = _hb(data)
                nonempty = [i for i, nm in enumerate(names) if nm in src]
                for gid in {nonempty[0], nonempty[-1]} | set(rnd.sample(nonempty, min(4, len(nonempty)))):
                    c = src[names[gid]][0]
                    xs = [x for cc in c for x, y, on in cc]
                    ys = [y for cc in c for x, y, on in cc]
                    ext = hfont.get_glyph_extents(gid)
                    if (ext.x_bearing, ext.y_bearing, ext.width, ext.height) != (min(xs), max(ys), max(xs) - min(xs), min(ys) - max(ys)):
                        r.fail("%s: HarfBuzz extents of glyph %d %s differ from the generated control box" % (label, gid, ext))
                        break
    r.sample({"target": "0x20000-1", "padding": 1, "glyphs": 70})


# ------------------------------------------------------------------------------------------------
# name / post / kern

_NAME_ENCODINGS = (
    # (platformID, platEncID, langID, python codec used for the independent decode, repertoire sampler)
    (3, 1, 0x409, "utf_16_be", "bmp"), (3, 1, 0x411, "utf_16_be", "bmp"), (3, 10, 0x409, "utf_16_be", "astral"),
    (0, 3, 0, "utf_16_be", "bmp"), (0, 4, 0, "utf_16_be", "astral"), (0, 6, 0xFFFF, "utf_16_be", "astral"),
    (1, 0, 0, "mac_roman", "codec"), (1, 0, 15, "mac_iceland", "codec"), (1, 0, 17, "mac_turkish", "codec"),
    (1, 0, 37, "mac_romanian", "codec"), (1, 0, 24, "mac_latin2", "codec"), (1, 6, 0, "mac_greek", "codec"), (1, 7, 0, "mac_cyrillic", "codec"),
    (3, 2, 0x411, "shift_jis", "cjk"), (3, 3, 0x804, "gb2312", "cjk"), (3, 4, 0x404, "big5", "cjk"), (3, 5, 0x412, "euc_kr", "cjk"), (3, 6, 0x412, "johab", "cjk"),
    (2, 0, 0, "ascii", "codec"), (2, 2, 0, "latin1", "codec"),
)


def _name_string(rnd, codec, repertoire):
    n = rnd.choice((0, 1, 2, 7, 30, 200))
    out = []
    tries = 0
    while len(out) < n and tries < 20 * n + 20:
        tries += 1
        if repertoire == "bmp":
            ch = chr(rnd.choice((rnd.randrange(0x20, 0x7F), rnd.randrange(0xA0, 0xD800), rnd.randrange(0xE000, 0xFFFE))))
        elif repertoire == "astral":
            ch = chr(rnd.choice((rnd.randrange(0x20, 0x7F), rnd.randrange(0x10000, 0x110000), rnd.randrange(0xA0, 0xD800))))
        elif repertoire == "cjk":
            ch = chr(rnd.choice((rnd.randrange(0x20, 0x7F), rnd.randrange(0x3041, 0x30FF), rnd.randrange(0x4E00, 0x9FA5), rnd.randrange(0xAC00, 0xD7A3))))
        else:
            ch = chr(rnd.choice((rnd.randrange(0x20, 0x7F), rnd.randrange(0xA0, 0x500), rnd.randrange(0x2000, 0x2300))))
        try:
            if ch.encode(codec).decode(codec) == ch and not (codec in ("shift_jis", "johab", "euc_kr", "big5", "gb2312") and ch in "\\~"):
                out.append(ch)
        except UnicodeError:
            pass
    return "".join(out)


def _parse_name(data):
    """independent parse of a format-0 name table -> [(pid, eid, lid, nid, raw bytes)] in file order."""
    fmt, count, so = struct.unpack(">HHH", data[:6])
    out = []
    for i in range(count):
        p, e, l, n, ln, off = struct.unpack(">6H", data[6 + 12 * i:18 + 12 * i])
        out.append((p, e, l, n, data[so + off:so + off + ln]))
    return fmt, out


_STD_NAMES = (".null", "nonmarkingreturn", "space", "exclam", "A", "Aacute", "dcroat", "apple", "Delta", "eth")


@check("C02")
def name_post_kern_roundtrip_and_independent_readers(tier, rnd):
    """(a) name: records in 20 platform/encoding/language combinations (UTF-16 with surrogate pairs,
    8-bit Mac scripts by language, Shift-JIS / GB2312 / Big5 / Wansung / Johab, ASCII, Latin-1),
    strings of length 0-200 encodable in the record's encoding, duplicate and shared strings:
    decoded records == generated; an independent parse finds the records sorted by
    (platform, encoding, language, nameID), each decoding (Python codec) to the generated string;
    HarfBuzz returns the Windows-English strings.  (b) post format 2 glyph names (standard Macintosh
    names, custom names up to 63 characters, a standard name used for a non-standard position):
    decoded glyph order == generated, HarfBuzz reads the same glyph names.  (c) kern version 0 with
    1-3 format-0 subtables of random int16 pairs (up to 11000 pairs): decoded pairs == generated;
    independent parse finds each subtable sorted by (left, right); HarfBuzz's total advance of each
    sampled pair = advances + generated kerning."""
    from fontTools.ttLib import newTable
    from fontTools.ttLib.tables._k_e_r_n import KernTable_format_0
    r = Result("seeded fonts (quick 40, thorough 400): 8-40 name records over 20 encodings, 40-glyph post format 2, 1-3 kern subtables; distinct = (table, encoding / name class / pair-count class)")
    with _quiet():
        for it in range(40 if tier == "quick" else 400):
            n = 40
            pool = list(_STD_NAMES) + ["g%d" % i for i in range(60)] + ["x" * 63, "a.b_c-d", "uni0041.alt", "_", "Z" * 31 + "." + "z" * 31]
            names = [".notdef"] + rnd.sample(pool, n - 1)
            adv = {nm: (rnd.randrange(100, 1200), 0) for nm in names}
            fb = _builder(names, metrics=adv, cmap={0xE000 + i: nm for i, nm in enumerate(names)})
            font = fb.font
            # --- name
            nt = font["name"] = newTable("name")
            nt.names = []
            want = {}
            shared = max((_name_string(rnd, "ascii", "codec") for _ in range(4)), key=len)
            for _ in range(rnd.randint(8, 40)):
                p, e, l, codec, rep = rnd.choice(_NAME_ENCODINGS)
                nid = rnd.choice((0, 1, 2, 4, 6, 16, 25, 255, 256, 300, 32767, 65535))
                s = shared if rnd.random() < 0.15 else shared[:rnd.randint(0, len(shared))] if rnd.random() < 0.15 else _name_string(rnd, codec, rep)
                want[(p, e, l, nid)] = (s, codec)
                nt.setName(s, nid, p, e, l)
            # --- kern
            kt = font["kern"] = newTable("kern")
            kt.version = 0
            kt.kernTables = []
            pairs_all = {}
            sub_want = []
            for si in range(rnd.randint(1, 3)):
                st = KernTable_format_0()
                st.coverage, st.tupleIndex = 1, None
                npairs = rnd.choice((0, 1, 2, 50, 400)) if not (si == 0 and it % 7 == 3) else 11000
                st.kernTable = {}
                gl = names if npairs < 1000 else None
                while len(st.kernTable) < npairs:
                    if gl:
                        pr = (rnd.choice(names), rnd.choice(names))
                    else:
                        pr = ("glyph%05d" % rnd.randrange(n, 40000), "glyph%05d" % rnd.randrange(n, 40000))     # virtual glyph IDs
                    if pr not in pairs_all:
                        pairs_all[pr] = st.kernTable[pr] = rnd.choice((rnd.randint(-32768, 32767), rnd.randint(-100, 100), 0, -1))
                kt.kernTables.append(st)
                sub_want.append(dict(st.kernTable))
                if npairs == 11000:
                    break                   # an over-long subtable (16-bit length field) must be the only one
            try:
                data = _save(font)
                g = _load(data)
                hb, face, hfont = _hb(data)
            except Exception as e:
                r.fail("font %d: compiling name/post/kern raised %s" % (it, _exc(e)))
                continue
            # name: fontTools decode, independent parse, HarfBuzz
            got = {}
            for rec in g["name"].names:
                try:
                    got[(rec.platformID, rec.platEncID, rec.langID, rec.nameID)] = rec.toUnicode()
                except Exception as e:
                    got[(rec.platformID, rec.platEncID, rec.langID, rec.nameID)] = "<undecodable: %s>" % _exc(e)
            for key, (s, codec) in want.items():
                r.case(("name", key[:3], len(s) > 7))
                if got.get(key) != s:
                    r.fail("font %d: name record %s decodes to %r, generated %r" % (it, key, got.get(key), s))
            if set(got) != set(want):
                r.fail("font %d: name record set differs: %s" % (it, sorted(set(got) ^ set(want))[:4]))
            fmt, recs = _parse_name(g.reader["name"])
            if [x[:4] for x in recs] != sorted(want):
                r.fail("font %d: name records in the file are not exactly the generated keys in sorted order" % it)
            for p, e, l, nid, raw in recs:
                s, codec = want.get((p, e, l, nid), (None, "ascii"))
                if s is not None and raw != s.encode(codec):
                    r.fail("font %d: bytes of name record %s are not the %s encoding of %r" % (it, (p, e, l, nid), codec, s))
            for (p, e, l, nid), (s, codec) in want.items():
                if (p, e, l) == (3, 1, 0x409) and (3, 10, 0x409, nid) not in want and face.get_name(nid, "en") != (s or None) and face.get_name(nid, "en") != s:
                    r.fail("font %d: HarfBuzz reads name %d (Windows English) as %r, generated %r" % (it, nid, face.get_name(nid, "en"), s))
            # post
            r.case(("post", sum(nm in _STD_NAMES for nm in names)))
            if g.getGlyphOrder() != names:
                r.fail("font %d: glyph names decode to %s..., generated %s..." % (it, g.getGlyphOrder()[:5], names[:5]))
            bad = [(i, hfont.get_glyph_name(i)) for i in range(n) if hfont.get_glyph_name(i) != names[i]]
            if bad:
                r.fail("font %d: HarfBuzz reads glyph names %s, generated %s" % (it, bad[:3], [names[i] for i, _ in bad[:3]]))
            # kern
            gk = g["kern"].kernTables
            r.case(("kern", tuple(min(len(s), 1000) for s in sub_want)))
            if len(gk) != len(sub_want) or any(dict(a.kernTable) != b for a, b in zip(gk, sub_want)):
                r.fail("font %d: kern subtables (%s pairs) decode differently (%s pairs)" % (it, [len(s) for s in sub_want], [len(a.kernTable) for a in gk]))
            raw = g.reader["kern"]
            pos = 4
            for sw in sub_want:
                _, length, f0, cov, npairs = struct.unpack(">HHBBH", raw[pos:pos + 8])
                rows = [struct.unpack(">HHh", raw[pos + 14 + 6 * i:pos + 20 + 6 * i]) for i in range(len(sw))]
                if npairs != len(sw) or rows != sorted(rows) or {(font.getGlyphName(a), font.getGlyphName(b)): v for a, b, v in rows} != sw:
                    r.fail("font %d: independent parse of a %d-pair kern subtable disagrees (nPairs=%d, sorted=%s)" % (it, len(sw), npairs, rows == sorted(rows)))
                pos += 14 + 6 * len(sw)
            real = [pr for pr in pairs_all if pr[0] in adv and pr[1] in adv]
            for pr in rnd.sample(real, min(40, len(real))):
                buf = hb.Buffer()
                buf.add_codepoints([0xE000 + names.index(pr[0]), 0xE000 + names.index(pr[1])])
                buf.guess_segment_properties()
                hb.shape(hfont, buf, {"kern": True})
                total = sum(p.x_advance for p in buf.glyph_positions)
                if total != adv[pr[0]][0] + adv[pr[1]][0] + pairs_all[pr]:
                    r.fail("font %d: HarfBuzz kerns %s by %d, generated %d" % (it, pr, total - adv[pr[0]][0] - adv[pr[1]][0], pairs_all[pr]))
                    break
    r.sample({"name": [(3, 1, 0x409, 300, "Héllo"), (1, 0, 15, 300, "Þð")], "kern": [["A", "space", -50]]})
    return r


# ------------------------------------------------------------------------------------------------
# layout: Coverage / ClassDef / lookups

def _gid_pattern(rnd, n, kind):
    """sorted glyph-ID sets in [1, n)"""
    if kind == "single":
        return [rnd.choice((1, n - 1, rnd.randrange(1, n)))]
    if kind == "run":
        a = rnd.randrange(1, n - 2)
        return list(range(a, min(n, a + rnd.choice((2, 3, 50, n)))))
    if kind == "all":
        return list(range(1, n))
    if kind == "alternating":
        return list(range(rnd.choice((1, 2)), n, 2))
    if kind == "runs-gap-1":
        out, g = [], rnd.randrange(1, 20)
        while g < n and len(out) < 300:
            ln = rnd.randint(1, 6)
            out.extend(range(g, min(n, g + ln)))
            g += ln + 1
        return out
    if kind == "sparse":
        return sorted(rnd.sample(range(1, n), rnd.choice((2, 5, 40))))
    if kind == "ends":
        return [1, 2, n - 2, n - 1]
    if kind == "dense-holes":
        holes = set(rnd.sample(range(1, n), 12))
        return [g for g in range(1, n) if g not in holes]
    raise ValueError(kind)


_GID_KINDS = ("single", "run", "all", "alternating", "runs-gap-1", "sparse", "ends", "dense-holes")


def _parse_coverage(data):
    fmt, cnt = struct.unpack(">HH", data[:4])
    if fmt == 1:
        return list(struct.unpack(">%dH" % cnt, data[4:4 + 2 * cnt]))
    out = []
    for i in range(cnt):
        s, e, idx = struct.unpack(">HHH", data[4 + 6 * i:10 + 6 * i])
        if idx != len(out) or e < s:
            return "range %d (%d-%d) has startCoverageIndex %d, expected %d" % (i, s, e, idx, len(out))
        out.extend(range(s, e + 1))
    return out


def _parse_classdef(data):
    fmt = struct.unpack(">H", data[:2])[0]
    out = {}
    if fmt == 1:
        start, cnt = struct.unpack(">HH", data[2:6])
        for i, c in enumerate(struct.unpack(">%dH" % cnt, data[6:6 + 2 * cnt])):
            if c:
                out[start + i] = c
    else:
        cnt = struct.unpack(">H", data[2:4])[0]
        last = -1
        for i in range(cnt):
            s, e, c = struct.unpack(">HHH", data[4 + 6 * i:10 + 6 * i])
            if s <= last or e < s:
                return "ranges overlap or are unsorted at %d-%d" % (s, e)
            last = e
            if c:
                for g in range(s, e + 1):
                    out[g] = c
    return out


@check("C02")
def layout_coverage_classdef_lookups_roundtrip_and_harfbuzz(tier, rnd):
    """(a) Coverage and ClassDef objects over glyph-ID patterns {single, run, all, alternating, runs
    separated by one glyph, sparse, first+last, dense with holes} in fonts of 300 / 70000 glyph names
    (IDs up to 65535): compile -> decompile returns the same glyph list / class map, and a struct
    parse of the bytes (either format, range start indices checked) gives exactly the generated
    glyph IDs in coverage-index order / the generated classes.  (b) the same patterns through
    feaLib into GDEF glyph classes, SingleSubst, LigatureSubst and PairPos (glyph pairs + class
    pairs): the decoded tables map what was generated, HarfBuzz reports the generated glyph class
    for every glyph, substitutes exactly the covered glyphs, forms the ligatures and kerns the
    pairs by the generated values."""
    from fontTools.ttLib import TTFont
    from fontTools.ttLib.tables import otTables as ot
    from fontTools.ttLib.tables.otBase import OTTableWriter, OTTableReader
    from fontTools.feaLib.builder import addOpenTypeFeaturesFromString
    r = Result("pattern grid x {Coverage, ClassDef} x {300, 65536 glyphs} (x6 seeds quick, x40 thorough) + feaLib/HarfBuzz fonts (quick 16, thorough 160); distinct = (structure, pattern, size)")
    with _quiet():
        for n in (300, 65536):
            font = TTFont()
            names = _glyph_names(n)
            font.setGlyphOrder(names)
            for kind in _GID_KINDS:
                for rep in range(6 if tier == "quick" else 40):
                    gids = _gid_pattern(rnd, n, kind)
                    # Coverage
                    r.case(("Coverage", kind, n))
                    try:
                        cov = ot.Coverage()
                        cov.glyphs = [names[g] for g in gids]
                        w = OTTableWriter()
                        cov.compile(w, font)
                        data = w.getAllData()
                        c2 = ot.Coverage()
                        c2.decompile(OTTableReader(data), font)
                        if c2.glyphs != [names[g] for g in gids]:
                            r.fail("Coverage %s n=%d: decompile(compile(glyphs)) differs; generated IDs %s..." % (kind, n, gids[:8]))
                        parsed = _parse_coverage(data)
                        if parsed != gids:
                            r.fail("Coverage %s n=%d: independent parse gives %s, generated IDs %s..." % (kind, n, parsed if isinstance(parsed, str) else parsed[:8], gids[:8]))
                    except Exception as e:
                        r.fail("Coverage %s n=%d raised %s (IDs %s...)" % (kind, n, _exc(e), gids[:8]))
                    # ClassDef
                    r.case(("ClassDef", kind, n))
                    how = rnd.choice(("one", "by-run", "random", "big"))
                    classes = {}
                    cur = 1
                    for i, gid in enumerate(gids):
                        if how == "by-run" and i and gids[i - 1] != gid - 1:
                            cur += 1
                        classes[gid] = {"one": 1, "by-run": cur, "random": rnd.randint(1, 4), "big": rnd.choice((1, 255, 256, 65535))}[how]
                    try:
                        cd = ot.ClassDef()
                        cd.classDefs = {names[g]: c for g, c in classes.items()}
                        w = OTTableWriter()
                        cd.compile(w, font)
                        data = w.getAllData()
                        d2 = ot.ClassDef()
                        d2.decompile(OTTableReader(data), font)
                        if d2.classDefs != {names[g]: c for g, c in classes.items()}:
                            r.fail("ClassDef %s/%s n=%d: decompile(compile(classes)) differs; generated %s..." % (kind, how, n, sorted(classes.items())[:6]))
                        parsed = _parse_classdef(data)
                        if parsed != classes:
                            r.fail("ClassDef %s/%s n=%d: independent parse gives %s, generated %s..." % (kind, how, n, parsed if isinstance(parsed, str) else sorted(parsed.items())[:6], sorted(classes.items())[:6]))
                    except Exception as e:
                        r.fail("ClassDef %s/%s n=%d raised %s" % (kind, how, n, _exc(e)))
        # (b) through feaLib, read back by fontTools and HarfBuzz
        n = 400
        names = _glyph_names(n)
        cps = {0xE000 + i: nm for i, nm in enumerate(names)}
        cls = lambda gids: "[" + " ".join(names[g] for g in gids) + "]"
        for it in range(16 if tier == "quick" else 160):
            kind = _GID_KINDS[it % len(_GID_KINDS)]
            covered = _gid_pattern(rnd, n, kind)
            target = {g: rnd.randrange(1, n) for g in covered}
            gclass = {g: rnd.randint(1, 4) for g in _gid_pattern(rnd, n, rnd.choice(_GID_KINDS))}
            r.case(("fea", kind))
            try:
                # font A: GDEF classes + single substitution
                fa = _builder(names, cmap=cps).font
                groups = [[g for g in sorted(gclass) if gclass[g] == c] for c in (1, 2, 3, 4)]
                fea = "feature ss01 { sub %s by %s; } ss01;\n" % (cls(covered), cls([target[g] for g in covered]))
                fea += "table GDEF { GlyphClassDef %s; } GDEF;\n" % ", ".join(cls(g) if g else "" for g in groups)
                addOpenTypeFeaturesFromString(fa, fea)
                da = _save(fa)
                ga = _load(da, lazy=rnd.choice((None, True, False)))
                got_map = {}
                for lk in ga["GSUB"].table.LookupList.Lookup:
                    for st in lk.SubTable:
                        got_map.update(st.mapping)
                if got_map != {names[g]: names[t] for g, t in target.items()}:
                    r.fail("fea font %d (%s): decoded SingleSubst mapping differs from generated" % (it, kind))
                if ga["GDEF"].table.GlyphClassDef.classDefs != {names[g]: c for g, c in gclass.items()}:
                    r.fail("fea font %d: decoded GlyphClassDef differs from generated" % it)
                hb, face, hfont = _hb(da)
                bad = [g for g in range(n) if int(face.get_layout_glyph_class(g)) != gclass.get(g, 0)]
                if bad:
                    r.fail("fea font %d: HarfBuzz glyph class of %s is %s, generated %s" % (it, bad[:4], [int(face.get_layout_glyph_class(g)) for g in bad[:4]], [gclass.get(g, 0) for g in bad[:4]]))
                buf = hb.Buffer()
                buf.add_codepoints([0xE000 + g for g in range(1, n)])
                buf.guess_segment_properties()
                hb.shape(hfont, buf, {"ss01": True})
                out = [i.codepoint for i in buf.glyph_infos]
                if out != [target.get(g, g) for g in range(1, n)]:
                    bad = [(g, o) for g, o in zip(range(1, n), out) if o != target.get(g, g)][:4]
                    r.fail("fea font %d (%s): HarfBuzz substitutes %s, generated mapping says %s" % (it, kind, bad, [(g, target.get(g, g)) for g, _ in bad]))
                # font B: ligatures + pair positioning
                adv = {nm: (rnd.randrange(200, 900), 0) for nm in names}
                fbnt = _builder(names, metrics=adv, cmap=cps).font
                ligs = {}
                for _ in range(rnd.randint(1, 30)):
                    seq = tuple(rnd.randrange(1, n) for _ in range(rnd.randint(2, 4)))
                    if not any(seq[:k] in ligs for k in range(2, 5)) and not any(o[:len(seq)] == seq for o in ligs):
                        ligs[seq] = rnd.randrange(1, n)
                left = _gid_pattern(rnd, n, kind)[:120]
                pairs = {(rnd.choice(left), rnd.randrange(1, n)): rnd.choice((-500, -32, -1, 1, 77, 32767, -32768)) for _ in range(40)}
                A1, A2 = left[: len(left) // 2], left[len(left) // 2:]
                B1 = _gid_pattern(rnd, n, "sparse")
                B2 = [g for g in _gid_pattern(rnd, n, "runs-gap-1")[:40] if g not in B1]
                cval = {(1, 1): rnd.randint(-90, 90), (1, 2): rnd.randint(-90, 90), (2, 1): rnd.randint(-90, 90), (2, 2): 0}
                fea = "feature liga {\n" + "".join(" sub %s by %s;\n" % (" ".join(names[g] for g in seq), names[t]) for seq, t in sorted(ligs.items(), key=lambda kv: (-len(kv[0]), kv[0]))) + "} liga;\n"
                fea += "feature kern {\n" + "".join(" pos %s %s %d;\n" % (names[a], names[b], v) for (a, b), v in pairs.items())
                for (i, A), (j, B) in itertools.product(((1, A1), (2, A2)), ((1, B1), (2, B2))):
                    if A and B and cval[(i, j)]:
                        fea += " pos %s %s %d;\n" % (cls(A), cls(B), cval[(i, j)])
                fea += "} kern;\n"
                addOpenTypeFeaturesFromString(fbnt, fea)
                db = _save(fbnt)
                hb, face, hfont = _hb(db)
                for seq, t in list(ligs.items())[:30]:
                    buf = hb.Buffer()
                    buf.add_codepoints([0xE000 + g for g in seq])
                    buf.guess_segment_properties()
                    hb.shape(hfont, buf, {"liga": True, "kern": False})
                    if [i.codepoint for i in buf.glyph_infos] != [t]:
                        r.fail("fea font %d: HarfBuzz shapes ligature sequence %s to %s, generated %d" % (it, seq, [i.codepoint for i in buf.glyph_infos], t))
                        break
                probes = list(pairs) + [(rnd.choice(left), rnd.choice(B1 + B2 + [rnd.randrange(1, n)])) for _ in range(60)]
                for a, b in probes:
                    want = pairs.get((a, b))
                    if want is None:
                        want = cval[(1 if a in A1 else 2, 1 if b in B1 else 2)] if (b in B1 or b in B2) else 0
                    buf = hb.Buffer()
                    buf.add_codepoints([0xE000 + a, 0xE000 + b])
                    buf.guess_segment_properties()
                    hb.shape(hfont, buf, {"liga": False, "kern": True})
                    total = sum(p.x_advance for p in buf.glyph_positions)
                    if total - adv[names[a]][0] - adv[names[b]][0] != want:
                        r.fail("fea font %d (%s): HarfBuzz kerns (%d, %d) by %d, generated %d" % (it, kind, a, b, total - adv[names[a]][0] - adv[names[b]][0], want))
                        break
            except Exception as e:
                r.fail("fea font %d (%s) raised %s" % (it, kind, _exc(e)))
    r.sample({"Coverage": "runs-gap-1", "glyph IDs": [3, 4, 5, 7, 9, 10]})
    return r


# ------------------------------------------------------------------------------------------------
# fvar / avar / gvar

def _tent_scalar(loc, axes):
    """exact OpenType tent product for a normalised location {tag: Fraction}."""
    s = Fraction(1)
    for tag, (lo, peak, hi) in axes.items():
        lo, peak, hi, v = Fraction(lo), Fraction(peak), Fraction(hi), loc.get(tag, Fraction(0))
        if peak == 0:
            continue
        if v == peak:
            continue
        if v <= lo or v >= hi:
            return Fraction(0)
        s *= (v - lo) / (peak - lo) if v < peak else (hi - v) / (hi - peak)
    return s


def _f214(rnd, lo=-16384, hi=16384):
    return rnd.randint(lo, hi) / 16384


@check("C02")
def variation_tables_roundtrip_and_harfbuzz(tier, rnd):
    """Generated variable fonts (1-3 axes): fvar whose named instances have a postScriptNameID for
    none / all / SOME of the instances (16.16-exact coordinates); avar segment maps on the F2Dot14
    grid; gvar with 0-4 tuples per glyph - peak-only and intermediate tents, full delta sets,
    sparse point sets identical across tuples (shared point numbers) and different per tuple
    (private), byte / word / zero deltas, phantom-point deltas.  Decoded axes, instances (each with
    its own postScriptNameID or 0xFFFF), segment maps and tuple lists (tents, per-point deltas,
    None for untouched points, order) equal the generated ones.  HarfBuzz reports the same axes and
    named instances, maps design coordinates through avar like an exact piecewise-linear
    evaluation (+-(slope+1) units of 2.14), and at sampled normalised locations gives advance =
    round(advance + sum scalar*delta of the right phantom point) and, for glyphs whose tuples touch
    every point, outline points = point + sum scalar*delta (exact rational arithmetic here, +-0.02)."""
    from fontTools.ttLib import newTable
    from fontTools.ttLib.tables._f_v_a_r import Axis, NamedInstance
    from fontTools.ttLib.tables.TupleVariation import TupleVariation
    from fontTools.ttLib.tables._g_l_y_f import Glyph
    r = Result("seeded variable fonts (quick 120, thorough 1500): axes 1-3 x instance psName pattern {none, all, mixed} x avar yes/no x 6 glyphs x 0-4 tuples; distinct = (table, pattern class)")
    with _quiet():
        for it in range(120 if tier == "quick" else 1500):
            tags = rnd.sample(["wght", "wdth", "opsz", "slnt", "XTRA"], rnd.randint(1, 3))
            names = [".notdef"] + ["v%d" % i for i in range(6)]
            src = {nm: _gen_simple_glyph(rnd, max_pts=5, clamp=800) for nm in names[1:]}
            glyphs = {".notdef": Glyph()}
            glyphs.update({nm: _make_simple(*src[nm]) for nm in src})
            advw = {nm: rnd.randrange(300, 1500) for nm in names}
            fb = _builder(names, glyphs=glyphs)
            font = fb.font
            fb.setupHorizontalMetrics({nm: (advw[nm], font["glyf"][nm].xMin if nm in src else 0) for nm in names})
            # fvar
            fv = font["fvar"] = newTable("fvar")
            axes = []
            for tag in tags:
                a = Axis()
                d = rnd.randrange(-200 * 4, 1000 * 4) / 4
                a.axisTag, a.axisNameID, a.flags = tag, rnd.randrange(256, 300), rnd.choice((0, 1))
                a.minValue, a.defaultValue, a.maxValue = d - rnd.choice((0, 0.25, 300)), d, d + rnd.choice((0, 0.25, 500.5))
                if a.minValue == a.maxValue:
                    a.maxValue += 1
                fv.axes.append(a)
                axes.append((tag, a.minValue, a.defaultValue, a.maxValue, a.axisNameID, a.flags))
            pattern = rnd.choice(("none", "all", "mixed", "mixed", "mixed"))
            insts = []
            for k in range(rnd.randint(0, 6) if pattern != "mixed" else rnd.randint(2, 6)):
                ni = NamedInstance()
                ni.subfamilyNameID, ni.flags = rnd.randrange(256, 400), 0
                ps = {"none": 0xFFFF, "all": rnd.randrange(256, 400), "mixed": rnd.choice((0xFFFF, rnd.randrange(256, 400)))}[pattern]
                if pattern == "mixed" and k < 2:
                    ps = (0xFFFF, 300 + it)[k] if it % 2 else (300 + it, 0xFFFF)[k]       # both orders: first with / first without
                ni.postscriptNameID = ps
                ni.coordinates = {t: rnd.randrange(int(mn * 65536), int(mx * 65536) + 1) / 65536 for t, mn, df, mx, _, _ in axes}
                fv.instances.append(ni)
                insts.append((ni.subfamilyNameID, ps, dict(ni.coordinates)))
            # avar
            segs = None
            if rnd.random() < 0.6:
                av = font["avar"] = newTable("avar")
                segs = {}
                for tag in tags:
                    m = {-1.0: -1.0, 0.0: 0.0, 1.0: 1.0}
                    for sign in (-1, 1):
                        k = rnd.randint(0, 4)
                        xs = sorted(rnd.sample(range(1, 16384), k))
                        ys = sorted(rnd.sample(range(1, 16384), k))
                        m.update({sign * x / 16384: sign * y / 16384 for x, y in zip(xs, ys)})
                    segs[tag] = m
                av.segments = {t: dict(m) for t, m in segs.items()}
            # gvar
            gv = font["gvar"] = newTable("gvar")
            gv.version, gv.reserved = 1, 0
            gv.variations = {}
            want_var = {}
            for nm in names:
                npts = (sum(len(c) for c in src[nm][0]) if nm in src else 0) + 4
                tuples = []
                style = rnd.choice(("none", "full", "full", "shared-sparse", "private-sparse", "phantom-only"))
                shared = sorted(rnd.sample(range(npts - 4), rnd.randint(1, npts - 4))) if npts > 4 else []
                for _ in range(0 if style == "none" else rnd.randint(1, 4)):
                    tent = {}
                    for tag in rnd.sample(tags, rnd.randint(1, len(tags))):
                        peak = rnd.choice((1.0, -1.0, _f214(rnd, 1, 16384), -_f214(rnd, 1, 16384)))
                        if rnd.random() < 0.4:
                            lo, hi = sorted((_f214(rnd, 0, int(abs(peak) * 16384)), _f214(rnd, int(abs(peak) * 16384), 16384)))
                            tent[tag] = (lo, peak, hi) if peak > 0 else (-hi, peak, -lo)
                        else:
                            tent[tag] = (min(peak, 0.0), peak, max(peak, 0.0))
                    mag = rnd.choice((1, 60, 127, 128, 3000))
                    dl = lambda: (rnd.choice((0, rnd.randint(-mag, mag))), rnd.choice((0, rnd.randint(-mag, mag))))
                    coords = [dl() for _ in range(npts)]
                    coords[npts - 4] = (0, 0)                     # keep the left phantom point fixed (HarfBuzz shifts by it)
                    coords[npts - 2] = coords[npts - 1] = (0, 0)
                    if style in ("shared-sparse", "private-sparse") and npts > 4:
                        keep = shared if style == "shared-sparse" else sorted(rnd.sample(range(npts - 4), rnd.randint(1, npts - 4)))
                        coords = [c if (i in keep or i >= npts - 4) else None for i, c in enumerate(coords)]
                        if rnd.random() < 0.5:
                            coords[npts - 4:] = [None] * 4
                    if style == "phantom-only":
                        coords = [None] * (npts - 4) + coords[npts - 4:]
                    tuples.append((tent, coords))
                if tuples:
                    gv.variations[nm] = [TupleVariation(dict(t), list(c)) for t, c in tuples]
                else:
                    gv.variations[nm] = []
                want_var[nm] = (style, tuples)
            try:
                data = _save(font)
                g = _load(data, lazy=rnd.choice((None, True, False)))
                hb, face, hfont = _hb(data)
            except Exception as e:
                r.fail("variable font %d raised %s" % (it, _exc(e)))
                continue
            # fvar
            r.case(("fvar", pattern, len(tags)))
            got_axes = [(a.axisTag, a.minValue, a.defaultValue, a.maxValue, a.axisNameID, a.flags) for a in g["fvar"].axes]
            got_inst = [(i.subfamilyNameID, i.postscriptNameID, dict(i.coordinates)) for i in g["fvar"].instances]
            if got_axes != axes:
                r.fail("variable font %d: decoded fvar axes %s, generated %s" % (it, got_axes, axes))
            if got_inst != insts:
                r.fail("variable font %d: decoded fvar instances (subfamilyNameID, postScriptNameID, coords) %s, generated %s" % (it, got_inst, insts))
            hb_axes = [(a.tag, a.min_value, a.default_value, a.max_value, a.name_id, int(a.flags)) for a in face.axis_infos]
            hb_inst = [(i.subfamily_name_id, i.postscript_name_id, dict(zip(tags, i.design_coords))) for i in face.named_instances]
            f32 = lambda v: struct.unpack(">f", struct.pack(">f", v))[0]          # HarfBuzz hands out single-precision floats
            if hb_axes != [(t, f32(a), f32(b), f32(c), n_, f_) for t, a, b, c, n_, f_ in axes] or hb_inst != [(sf, ps, {t: f32(v) for t, v in co.items()}) for sf, ps, co in insts]:
                r.fail("variable font %d: HarfBuzz reads fvar axes %s / instances %s, generated %s / %s" % (it, hb_axes, hb_inst, axes, insts))
            # avar
            if segs is not None:
                r.case(("avar", len(tags), max(len(m) for m in segs.values())))
                if {t: dict(m) for t, m in g["avar"].segments.items()} != segs:
                    r.fail("variable font %d: decoded avar segments %s, generated %s" % (it, dict(g["avar"].segments), segs))
                for _ in range(6):
                    design = [rnd.choice((mn, df, mx, rnd.randrange(int(mn * 4), int(mx * 4) + 1) / 4)) for t, mn, df, mx, _, _ in axes]
                    hfont.set_var_coords_design(design)
                    for (t, mn, df, mx, _, _), v, gotn in zip(axes, design, hfont.get_var_coords_normalized()):
                        v = Fraction(v)
                        nrm = Fraction(0) if v == df else (v - Fraction(df)) / (Fraction(mx) - Fraction(df)) if v > df else (v - Fraction(df)) / (Fraction(df) - Fraction(mn))
                        nrm = Fraction(round(nrm * 16384), 16384)
                        pts = sorted((Fraction(a), Fraction(b)) for a, b in segs[t].items())
                        exp, slope = next(((y0 + (nrm - x0) * (y1 - y0) / (x1 - x0), (y1 - y0) / (x1 - x0)) for (x0, y0), (x1, y1) in zip(pts, pts[1:]) if x0 <= nrm <= x1 and x1 > x0), (nrm, 1))
                        # HarfBuzz rounds the normalised value to 2.14 before and after the map: allow (slope + 1) units
                        if abs(Fraction(gotn) - exp) > (slope + 1) / 16384 + Fraction(1, 10 ** 6):
                            r.fail("variable font %d: HarfBuzz maps %s=%s to %s through avar, exact evaluation gives %s" % (it, t, float(v), gotn, float(exp)))
                hfont.set_var_coords_normalized([0.0] * len(tags))
            # gvar
            for nm in names:
                style, tuples = want_var[nm]
                r.case(("gvar", style, len(tuples)))
                got = [(dict(tv.axes), list(tv.coordinates)) for tv in g["gvar"].variations.get(nm, [])]
                if got != [(t, c) for t, c in tuples]:
                    r.fail("variable font %d glyph %s (%s): decoded tuple variations %s differ from generated %s" % (it, nm, style, got, tuples))
            for _ in range(4):
                loc = {t: Fraction(rnd.choice((0, 16384, -16384, rnd.randint(-16384, 16384))), 16384) for t in tags}
                hfont.set_var_coords_normalized([float(loc[t]) for t in tags])
                for gid, nm in enumerate(names):
                    style, tuples = want_var[nm]
                    npts = (sum(len(c) for c in src[nm][0]) if nm in src else 0) + 4
                    scal = [_tent_scalar(loc, t) for t, c in tuples]
                    exp_adv = max(0, advw[nm] + sum(s * c[npts - 3][0] for s, (t, c) in zip(scal, tuples) if c[npts - 3] is not None))     # HarfBuzz clamps at 0
                    got_adv = hfont.get_glyph_h_advance(gid)
                    if abs(got_adv - exp_adv) > Fraction(1, 2) + Fraction(1, 1000):
                        r.fail("variable font %d glyph %s at %s: HarfBuzz advance %d, generated deltas give %s" % (it, nm, {t: float(v) for t, v in loc.items()}, got_adv, float(exp_adv)))
                    if style != "full" or nm not in src:
                        continue
                    flat = [(x, y, on) for c in src[nm][0] for x, y, on in c]
                    moved, i = [], 0
                    for c in src[nm][0]:
                        cc = []
                        for x, y, on in c:
                            cc.append((x + sum(s * tc[i][0] for s, (t, tc) in zip(scal, tuples)), y + sum(s * tc[i][1] for s, (t, tc) in zip(scal, tuples)), on))
                            i += 1
                        moved.append(cc)
                    exp = sorted(_canon(c) for c in _expected_path(moved))
                    pen = _PathPen()
                    hfont.draw_glyph_with_pen(gid, pen)
                    gotp = [[(k, (Fraction(p[0]), Fraction(p[1]))) for k, p in c] for c in pen.contours]
                    ok = len(gotp) == len(exp)
                    if ok:
                        # match contours by rotation with tolerance
                        for ec in exp:
                            hit = None
                            for gi, gc in enumerate(gotp):
                                if len(gc) == len(ec) and any(all(a[0] == b[0] and abs(a[1][0] - b[1][0]) <= Fraction(1, 50) and abs(a[1][1] - b[1][1]) <= Fraction(1, 50) for a, b in zip(gc[k:] + gc[:k], ec)) for k in range(len(gc))):
                                    hit = gi
                                    break
                            if hit is None:
                                ok = False
                                break
                            gotp.pop(hit)
                    if not ok:
                        r.fail("variable font %d glyph %s at %s: HarfBuzz outline %s differs from point + sum(scalar*delta) = %s" % (it, nm, {t: float(v) for t, v in loc.items()}, pen.contours, [[(float(x), float(y), on) for x, y, on in c] for c in moved]))
    r.sample({"axes": ["wght", "wdth"], "instances psNameID": [65535, 300, 65535], "tuple": {"wght": (0.0, 0.5, 1.0)}})
    return r


# ------------------------------------------------------------------------------------------------
# COLR / CPAL

def _gen_paint(rnd, glyphs, base_glyphs, depth=0):
    """random non-variable COLRv1 paint graph in the unbuilder's dict form; every fixed-point field
    holds a value exactly representable in its binary format."""
    f214 = lambda: rnd.randint(-32768, 32767) / 16384
    f1616 = lambda: rnd.randint(-2 ** 20, 2 ** 20) / 65536
    alpha = lambda: rnd.choice((0.0, 1.0, 0.5, rnd.randint(0, 16384) / 16384))
    angle = lambda: rnd.randint(-32768, 32767) / 16384 * 180
    biased = lambda: (rnd.randint(-32768, 32767) / 16384 + 1.0) * 180        # sweep angles are stored with a bias of 1: [-180, 540)
    i16 = lambda: rnd.randint(-32768, 32767)

    def colorline():
        return {"Extend": rnd.choice(("pad", "repeat", "reflect")),
                "ColorStop": [{"StopOffset": f214(), "PaletteIndex": rnd.choice((0, 1, 7, 0xFFFF)), "Alpha": alpha()} for _ in range(rnd.randint(1, 5))]}

    sub = lambda: _gen_paint(rnd, glyphs, base_glyphs, depth + 1)
    leaf = depth >= 4 or rnd.random() < 0.25
    kinds = [2, 4, 6, 8] + ([11] if base_glyphs else []) if leaf else [1, 10, 10, 12, 14, 16, 18, 20, 22, 24, 26, 28, 30, 32]
    k = rnd.choice(kinds)
    if k == 1:
        return {"Format": 1, "Layers": [sub() if rnd.random() < 0.3 else {"Format": 10, "Paint": _gen_paint(rnd, glyphs, base_glyphs, 9), "Glyph": rnd.choice(glyphs)} for _ in range(rnd.choice((2, 3, 5, 9)))]}
    if k == 2:
        return {"Format": 2, "PaletteIndex": rnd.choice((0, 3, 0xFFFF)), "Alpha": alpha()}
    if k == 4:
        return {"Format": 4, "ColorLine": colorline(), "x0": i16(), "y0": i16(), "x1": i16(), "y1": i16(), "x2": i16(), "y2": i16()}
    if k == 6:
        return {"Format": 6, "ColorLine": colorline(), "x0": i16(), "y0": i16(), "r0": rnd.randint(0, 65535), "x1": i16(), "y1": i16(), "r1": rnd.randint(0, 65535)}
    if k == 8:
        return {"Format": 8, "ColorLine": colorline(), "centerX": i16(), "centerY": i16(), "startAngle": biased(), "endAngle": biased()}
    if k == 10:
        return {"Format": 10, "Paint": sub(), "Glyph": rnd.choice(glyphs)}
    if k == 11:
        return {"Format": 11, "Glyph": rnd.choice(base_glyphs)}
    if k == 12:
        return {"Format": 12, "Paint": sub(), "Transform": {"xx": f1616(), "yx": f1616(), "xy": f1616(), "yy": f1616(), "dx": f1616(), "dy": f1616()}}
    if k == 14:
        return {"Format": 14, "Paint": sub(), "dx": i16(), "dy": i16()}
    if k == 16:
        return {"Format": 16, "Paint": sub(), "scaleX": f214(), "scaleY": f214()}
    if k == 18:
        return {"Format": 18, "Paint": sub(), "scaleX": f214(), "scaleY": f214(), "centerX": i16(), "centerY": i16()}
    if k == 20:
        return {"Format": 20, "Paint": sub(), "scale": f214()}
    if k == 22:
        return {"Format": 22, "Paint": sub(), "scale": f214(), "centerX": i16(), "centerY": i16()}
    if k == 24:
        return {"Format": 24, "Paint": sub(), "angle": angle()}
    if k == 26:
        return {"Format": 26, "Paint": sub(), "angle": angle(), "centerX": i16(), "centerY": i16()}
    if k == 28:
        return {"Format": 28, "Paint": sub(), "xSkewAngle": angle(), "ySkewAngle": angle()}
    if k == 30:
        return {"Format": 30, "Paint": sub(), "xSkewAngle": angle(), "ySkewAngle": angle(), "centerX": i16(), "centerY": i16()}
    return {"Format": 32, "SourcePaint": sub(), "CompositeMode": rnd.choice(("clear", "src_over", "xor", "multiply", "hsl_luminosity", "dest_atop")), "BackdropPaint": sub()}


def _flatten_layers(p):
    """the unbuilder's normal form: nested PaintColrLayers are flattened."""
    if not isinstance(p, dict):
        return p
    p = {k: (_flatten_layers(v) if isinstance(v, dict) else [_flatten_layers(x) for x in v] if isinstance(v, list) else v) for k, v in p.items()}
    if p.get("Format") == 1:
        flat = []
        for l in p["Layers"]:
            flat.extend(l["Layers"] if l.get("Format") == 1 else [l])
        p["Layers"] = flat
    return p


@check("C02")
def colr_cpal_build_compile_unbuild(tier, rnd):
    """COLR v0 layer lists and generated COLR v1 paint graphs (every non-variable paint format,
    nested layers, repeated layer runs, PaintColrGlyph references, clip boxes) + CPAL palettes:
    buildCOLR/buildCPAL -> compile -> decompile -> (v1) unbuildColrV1 gives back the generated
    dict (nested PaintColrLayers flattened, which is the unbuilder's documented normal form), v0
    layer records, clip boxes and palette colours equal the generated ones; HarfBuzz lists the same
    v0 layers (glyph, colour index), the same palette colours, and has_paint exactly for the v1
    base glyphs."""
    from fontTools.colorLib.builder import buildCOLR, buildCPAL
    from fontTools.colorLib.unbuilder import unbuildColrV1
    r = Result("seeded fonts (quick 120, thorough 1500): 0-8 v0 glyphs x 0-6 v1 paint graphs (depth <= 5) x 1-3 palettes x clip boxes; distinct = (COLR version, paint formats used)")
    names = _glyph_names(60)
    with _quiet():
        base_bytes = _save(_builder(names).font)
        for it in range(120 if tier == "quick" else 1500):
            pool = names[1:]
            rnd.shuffle(pool)
            v0_bases, v1_bases, layer_glyphs = pool[:rnd.randint(0, 8)], pool[8:8 + rnd.randint(0 if it % 3 else 1, 6)], pool[20:]
            ncolors = rnd.randint(1, 12)
            v0 = {g: [(rnd.choice(layer_glyphs), rnd.choice((rnd.randrange(ncolors), 0xFFFF))) for _ in range(rnd.choice((1, 2, 3, 10)))] for g in v0_bases}
            v1 = {}
            for i, g in enumerate(v1_bases):
                p = _gen_paint(rnd, layer_glyphs, v1_bases[:i])
                if i and rnd.random() < 0.3 and v1[v1_bases[0]].get("Format") == 1:
                    p = {"Format": 1, "Layers": list(v1[v1_bases[0]]["Layers"]) + [{"Format": 10, "Paint": {"Format": 2, "PaletteIndex": 1, "Alpha": 1.0}, "Glyph": layer_glyphs[0]}]}     # shares a layer run
                v1[g] = p
            clips = {g: (rnd.randint(-500, 0), rnd.randint(-500, 0), rnd.randint(1, 900), rnd.choice((700, rnd.randint(1, 900)))) for g in v1_bases if rnd.random() < 0.6}
            palettes = [[tuple(rnd.randrange(256) / 255 for _ in range(4)) for _ in range(ncolors)] for _ in range(rnd.randint(1, 3))]
            version = None if v1 else rnd.choice((0, None))      # None = v0 records for layer lists, v1 for paint graphs
            fmts = set()
            walk = lambda p: (fmts.add(p["Format"]), [walk(v) for v in p.values() if isinstance(v, dict) and "Format" in v], [walk(x) for v in p.values() if isinstance(v, list) for x in v if isinstance(x, dict) and "Format" in x])
            [walk(p) for p in v1.values()]
            r.case((version, tuple(sorted(fmts)), bool(v0), bool(clips)))
            try:
                font = _load(base_bytes)
                both = dict(v0)
                both.update(v1)
                if not both:
                    continue
                font["COLR"] = buildCOLR(both, version=version, glyphMap=font.getReverseGlyphMap(), clipBoxes=clips or None, allowLayerReuse=rnd.random() < 0.7)
                font["CPAL"] = buildCPAL(palettes)
                data = _save(font)
                g = _load(data, lazy=rnd.choice((None, True, False)))
                colr, cpal = g["COLR"], g["CPAL"]
            except Exception as e:
                r.fail("COLR font %d raised %s (v1 = %r)" % (it, _exc(e), v1))
                continue
            if v1:
                try:
                    got = unbuildColrV1(colr.table.LayerList, colr.table.BaseGlyphList)
                except Exception as e:
                    r.fail("COLR font %d: unbuilding the decompiled table raised %s (generated %r)" % (it, _exc(e), v1))
                    continue
                want = {k: _flatten_layers(p) for k, p in v1.items()}
                if got != want:
                    bad = [k for k in want if got.get(k) != want[k]]
                    r.fail("COLR font %d: unbuild(decompile(compile(build(paints)))) differs for %s: got %r, generated %r" % (it, bad[:1], got.get(bad[0]) if bad else sorted(got), want[bad[0]] if bad else sorted(want)))
                got_v0 = {rec.BaseGlyph: [(l.LayerGlyph, l.PaletteIndex) for l in colr.table.LayerRecordArray.LayerRecord[rec.FirstLayerIndex:rec.FirstLayerIndex + rec.NumLayers]] for rec in (colr.table.BaseGlyphRecordArray.BaseGlyphRecord if colr.table.BaseGlyphRecordArray else [])}
                got_clips = {k: (c.xMin, c.yMin, c.xMax, c.yMax) for k, c in colr.table.ClipList.clips.items()} if colr.table.ClipList else {}
                if got_clips != clips:
                    r.fail("COLR font %d: decoded clip boxes %s, generated %s" % (it, got_clips, clips))
            else:
                got_v0 = {k: [(l.name, l.colorID) for l in v] for k, v in colr.ColorLayers.items()}
            if got_v0 != v0:
                r.fail("COLR font %d: decoded v0 layers %s, generated %s" % (it, got_v0, v0))
            got_pal = [[(c.red, c.green, c.blue, c.alpha) for c in p] for p in cpal.palettes]
            want_pal = [[tuple(round(v * 255) for v in c) for c in p] for p in palettes]
            if got_pal != want_pal:
                r.fail("CPAL font %d: decoded palettes %s, generated %s" % (it, got_pal, want_pal))
            hb, face, hfont = _hb(data)
            for gname in names:
                gid = font.getGlyphID(gname)
                layers = [(font.getGlyphName(l.glyph), l.color_index) for l in face.get_glyph_color_layers(gid)]
                if layers != v0.get(gname, []):
                    r.fail("COLR font %d: HarfBuzz lists layers %s for %s, generated %s" % (it, layers, gname, v0.get(gname, [])))
                if gid and bool(face.glyph_has_color_paint(gid)) != (gname in v1):      # (HarfBuzz answers True for glyph 0 in any v1 table)
                    r.fail("COLR font %d: HarfBuzz has_paint(%s) = %s, generated v1 base glyphs %s" % (it, gname, face.glyph_has_color_paint(gid), sorted(v1)))
            for i, p in enumerate(want_pal):
                hp = [(c.red, c.green, c.blue, c.alpha) for c in face.get_color_palette(i).colors]
                if hp != p:
                    r.fail("CPAL font %d: HarfBuzz reads palette %d as %s, generated %s" % (it, i, hp, p))
    r.sample({"v1": {"Format": 10, "Glyph": "g20", "Paint": {"Format": 2, "PaletteIndex": 3, "Alpha": 0.5}}})
    return r
