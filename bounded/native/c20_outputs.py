"""B-enum for C20 ('no value in a text input is allowed to direct output outside the requested
location'): `fonttools varLib` on designspace documents whose <variable-font> element tries to
leave --output-dir through its filename= or (when there is no filename) its name= attribute:
relative traversal, traversal behind a sub-directory, absolute paths, '//' paths.  After the run
nothing outside the output directory may have been created, changed or removed."""
import logging
import os
import shutil
import sys
import tempfile

from _common import REPO, check_tree, emit

check_tree()
from fontTools.fontBuilder import FontBuilder
from fontTools.pens.ttGlyphPen import TTGlyphPen
from fontTools import varLib

tier, seed = sys.argv[1], int(sys.argv[2])
logging.disable(logging.CRITICAL)


def build_master(path, weight, stem):
    fb = FontBuilder(unitsPerEm=1000, isTTF=True)
    order = [".notdef", "A"]
    fb.setupGlyphOrder(order)
    fb.setupCharacterMap({0x41: "A"})
    glyphs = {}
    for name in order:
        pen = TTGlyphPen(None)
        pen.moveTo((0, 0)); pen.lineTo((stem, 0)); pen.lineTo((stem, 700)); pen.lineTo((0, 700)); pen.closePath()
        glyphs[name] = pen.glyph()
    fb.setupGlyf(glyphs)
    fb.setupHorizontalMetrics({name: (stem + 100, 50) for name in order})
    fb.setupHorizontalHeader(ascent=800, descent=-200)
    fb.setupNameTable({"familyName": "Demo", "styleName": "W%d" % weight})
    fb.setupOS2(usWeightClass=weight)
    fb.setupPost()
    fb.save(path)


DS = """<?xml version='1.0' encoding='UTF-8'?>
<designspace format="5.0">
  <axes><axis tag="wght" name="Weight" minimum="300" maximum="700" default="300"/></axes>
  <sources>
    <source filename="masters/Light.ttf" name="Light"><location><dimension name="Weight" xvalue="300"/></location></source>
    <source filename="masters/Bold.ttf" name="Bold"><location><dimension name="Weight" xvalue="700"/></location></source>
  </sources>
  <variable-fonts>
    <variable-font %s>
      <axis-subsets><axis-subset name="Weight"/></axis-subsets>
    </variable-font>
  </variable-fonts>
</designspace>
"""


def snapshot(root, exclude):
    out = {}
    for dp, dn, fn in os.walk(root):
        if os.path.abspath(dp) == os.path.abspath(exclude):
            dn[:] = []
            continue
        for n in fn:
            p = os.path.join(dp, n)
            st = os.stat(p)
            out[p] = (st.st_size, st.st_mtime_ns)
    return out


root = tempfile.mkdtemp(prefix="c20out_")
violations, evaluations, distinct = [], 0, set()
try:
    project, outside = os.path.join(root, "project"), os.path.join(root, "outside")
    os.makedirs(os.path.join(project, "masters"))
    os.makedirs(outside)
    build_master(os.path.join(project, "masters", "Light.ttf"), 300, 60)
    build_master(os.path.join(project, "masters", "Bold.ttf"), 700, 180)
    victim = os.path.join(outside, "victim.ttf")
    open(victim, "wb").write(b"precious")
    targets = ["../outside/evil", "../../outside/evil", "sub/../../../outside/evil", "../outside/victim",
               os.path.join(outside, "evil"), os.path.join(outside, "victim"), "//" + outside.lstrip("/") + "/evil", "ok"]
    cases = []
    for t in targets:
        cases.append(("filename", 'name="DemoVF" filename="%s.ttf"' % t))
        cases.append(("name-only", 'name="%s"' % t))
        cases.append(("name-and-filename", 'name="%s" filename="inside.ttf"' % t))
    for i, (kind, attrs) in enumerate(cases):
        evaluations += 1
        outdir = os.path.join(project, "out%d" % i)
        os.makedirs(outdir)
        ds = os.path.join(project, "hostile%d.designspace" % i)
        open(ds, "w", encoding="utf-8").write(DS % attrs)
        before = snapshot(root, outdir)
        err = None
        try:
            varLib.main([ds, "--output-dir", outdir, "--master-finder", "{fullname}"])
        except SystemExit as e:
            err = "SystemExit"
        except Exception as e:      # refusing a hostile name cleanly is fine
            err = type(e).__name__
        after = snapshot(root, outdir)
        distinct.add((kind, "absolute" if os.path.isabs(attrs.split('"')[1 if kind != "filename" else 3]) else "relative", err or "built"))
        for p in sorted(set(after) - set(before)):
            violations.append({"what": "<variable-font %s>: file created outside --output-dir: %s" % (attrs, os.path.relpath(p, root)), "known_id": None})
        for p in sorted(q for q in before if q in after and before[q] != after[q]):
            violations.append({"what": "<variable-font %s>: existing file outside --output-dir overwritten: %s" % (attrs, os.path.relpath(p, root)), "known_id": None})
        for p in sorted(set(before) - set(after)):
            violations.append({"what": "<variable-font %s>: file outside --output-dir removed: %s" % (attrs, os.path.relpath(p, root)), "known_id": None})
        if "ok" in attrs and err is None and not os.listdir(outdir):
            violations.append({"what": "<variable-font %s>: nothing was written into --output-dir" % attrs, "known_id": None})
        for p in list(set(after) - set(before)):
            try:
                os.unlink(p)
            except OSError:
                pass
        open(victim, "wb").write(b"precious")
    # -- phase 2: UFO writing with glyph and layer names taken from untrusted text (GLIF / plist / TTX) ---------
    from fontTools.ufoLib import UFOWriter
    hostile = ["../../outside/evil", "../outside/victim.ttf", "a/../../../outside/evil", "/" + outside.lstrip("/") + "/evil",
               "..", "a/b", "x/../../y", "..\\outside\\evil", "ok", "a:b", "con/../..", "../OUTSIDE/e", "\u2215../outside/evil"]

    class _G:
        width = 500
        height = 0
        unicodes = []
        note = lib = image = guidelines = anchors = None

    for i, name in enumerate(hostile):
        for kind in ("glyph-name", "layer-name"):
            evaluations += 1
            ufo = os.path.join(project, "w%d_%s.ufo" % (i, kind))
            before = snapshot(root, ufo)
            err = None
            try:
                w = UFOWriter(ufo)
                if kind == "glyph-name":
                    gs = w.getGlyphSet()
                    gs.writeGlyph(name, _G(), lambda pen: None)
                    gs.writeContents()
                else:
                    gs = w.getGlyphSet(layerName=name, defaultLayer=False)
                    gs.writeGlyph("a", _G(), lambda pen: None)
                    gs.writeContents()
                w.writeLayerContents()
                w.close()
            except Exception as e:
                err = type(e).__name__
            after = snapshot(root, ufo)
            distinct.add((kind, "sep" if "/" in name else "other", err or "written"))
            for p in sorted(set(after) - set(before)):
                violations.append({"what": "UFOWriter %s %r: file created outside the UFO: %s" % (kind, name, os.path.relpath(p, root)), "known_id": None})
            for p in sorted(q for q in before if q in after and before[q] != after[q]):
                violations.append({"what": "UFOWriter %s %r: existing file outside the UFO overwritten: %s" % (kind, name, os.path.relpath(p, root)), "known_id": None})
            for p in sorted(set(before) - set(after)):
                violations.append({"what": "UFOWriter %s %r: file outside the UFO removed: %s" % (kind, name, os.path.relpath(p, root)), "known_id": None})
            if err is None and os.path.isdir(ufo):
                inside = [os.path.relpath(os.path.join(dp, n), ufo) for dp, _, fn in os.walk(ufo) for n in fn]
                deep = [q for q in inside if q.count(os.sep) > 1]
                if deep:
                    violations.append({"what": "UFOWriter %s %r: name used as a path inside the UFO: %s" % (kind, name, deep[0]), "known_id": None})
            for p in list(set(after) - set(before)):
                try:
                    os.unlink(p)
                except OSError:
                    pass
            open(victim, "wb").write(b"precious")
            shutil.rmtree(ufo, ignore_errors=True)
finally:
    shutil.rmtree(root, ignore_errors=True)
emit({"evaluations": evaluations, "distinct_nontrivial": len(distinct), "samples": [{"attrs": cases[0][1]}, {"attrs": cases[4][1]}],
      "rule": "13 hostile glyph / layer names through UFOWriter; 8 target paths (relative/absolute/'//'/harmless) x {filename=, name= without filename, name= with a harmless filename}; distinct = (attribute, path kind, outcome)",
      "violations": violations[:8]})
