"""C08: instancing a variable font (varLib.instancer) preserves the design space that remains.

Oracle = HarfBuzz (uharfbuzz) on the original and on the instance (both saved to bytes), at the
same user-space location inside the new limits: outlines, advances, font-wide metrics, GPOS
positions and substituted glyphs must agree within the rounding budget of the stored deltas
(0.5 for the new default + 0.5 per unit of active scalar of the instance's rounded deltas - at
least 0.5 per original tuple / non-zero item delta, because pieces that round to zero are dropped -
+0.5 more per unit when the instance's gvar is IUP-optimised with its 0.5 tolerance, + 1 where
HarfBuzz itself rounds a delta on both sides, + F2Dot14 quantisation of the limits; CFF2
charstring operands are relative, so there the budget is per operand along the path).  Preconditions
stated where used: advances never negative, HVAR consistent with the gvar phantom points, hhea in
sync with OS/2 for HarfBuzz's ascender/descender, MVAR records sorted.  Fonts: directly assembled glyf/gvar fonts with arbitrary tents,
varLib-built fonts (gvar/HVAR/MVAR/GDEF/GPOS/avar/STAT, CFF2), FeatureVariations added with
varLib.featureVars, and the corpus variable fonts.
"""
import io
import itertools
import os
from fractions import Fraction

from harness import check, Result
import h_c10 as G          # seeded master/designspace generator and HarfBuzz helpers (same directory)

F = Fraction
Q = 16384

AXPOOL = [("wght", 100, 400, 900), ("wdth", 50, 100, 200), ("opsz", 8, 8, 144), ("slnt", -15, 0, 0),
          ("XTRA", 0, 500, 1000), ("GRAD", -200, 0, 150)]
ALT = {"A": "A.alt", "B": "B.alt", "V": "V.alt"}
VAR_TABLES = ("fvar", "avar", "gvar", "cvar", "HVAR", "VVAR", "MVAR")
CFF2_MAX_STACK = 513
# genuine defects of the unchanged tree (see the final report of this harness file's author):
KNOWN_CFF2_STACK = "C08-cff2-instance-blend-exceeds-stack-limit"
KNOWN_FEATVARS = "C08-featurevars-record-true-on-pinned-axes-not-universal"


# ---------------------------------------------------------------------------------------------
# generator A: glyf/gvar font assembled directly, arbitrary (legal) tents, no HVAR
# ---------------------------------------------------------------------------------------------
def _q(v):
    return int(round(v * Q)) / Q


def _rand_tent(rnd, positive):
    """(lo, peak, hi) on the positive side (mirrored for the negative side), F2Dot14-exact,
    each flank at least 1/8 wide unless it ends at the peak."""
    k = rnd.random()
    if k < 0.35:
        t = (0.0, 1.0, 1.0)
    elif k < 0.5:
        t = (_q(rnd.choice([0.25, 0.5, 0.3, 0.6])), 1.0, 1.0)
    elif k < 0.8:
        pk = _q(rnd.choice([0.25, 0.5, 0.75, 0.4, rnd.uniform(0.2, 0.8)]))
        t = (0.0, pk, 1.0)
    else:
        pk = _q(rnd.uniform(0.25, 0.75))
        t = (_q(rnd.uniform(0, pk - 0.125)), pk, _q(rnd.uniform(pk + 0.125, 1)))
    return t if positive else (-t[2], -t[1], -t[0])


def _rand_avar(rnd, axes, mode):
    if mode is None:
        return None
    seg = {}
    for tag, lo, de, hi in axes:
        m = {-1.0: -1.0, 0.0: 0.0, 1.0: 1.0}
        if mode == "random" and rnd.random() < 0.8:
            for side in ((1,) if hi > de else ()) + ((-1,) if de > lo else ()):
                xs = sorted(rnd.sample(range(1, 8), rnd.randint(1, 2)))
                ys, prev = [], 0
                for i, x in enumerate(xs):
                    # keep slopes within [1/4, 4] so that quantisation stays negligible
                    lo_y = max(prev + (x - (xs[i - 1] if i else 0)) / 4.0, 8 - (8 - x) * 4.0)
                    hi_y = min(prev + (x - (xs[i - 1] if i else 0)) * 4.0, 8 - (8 - x) / 4.0)
                    y = rnd.uniform(lo_y, hi_y) if lo_y < hi_y else (lo_y + hi_y) / 2
                    ys.append(y)
                    prev = y
                for x, y in zip(xs, ys):
                    m[_q(side * x / 8.0)] = _q(side * y / 8.0)
        seg[tag] = m
    return seg


def make_gvar_font(rnd, n_axes, avar_mode=None, n_tuples=(0, 5)):
    """returns (bytes, info) of a TrueType variable font: simple, two-contour, composite, empty glyphs
    + .alt copies; per glyph 0..5 tuple variations over random axis subsets, some with sparse
    (IUP-inferred) deltas; advances vary through the phantom points (there is no HVAR)."""
    from fontTools.fontBuilder import FontBuilder
    from fontTools.pens.ttGlyphPen import TTGlyphPen
    from fontTools.ttLib import newTable
    from fontTools.ttLib.tables.TupleVariation import TupleVariation
    from fontTools.otlLib.builder import buildStatTable

    axes = rnd.sample(AXPOOL, n_axes)
    # 'AAnest' is a composite of the composite 'Aacute' and sorts BEFORE it by name
    order = list(G.ORDER) + list(ALT.values()) + ["AAnest"]
    fb = FontBuilder(1000, isTTF=True)
    fb.setupGlyphOrder(order)
    fb.setupCharacterMap(G.CMAP)
    glyphs, npts = {}, {}
    for g in order:
        src = g.split(".")[0] if g.endswith(".alt") else g
        struct = G.STRUCT[src] if g != "AAnest" else None
        pen = TTGlyphPen({n: None for n in order})
        if g == "AAnest":
            pen.addComponent("Aacute", (1, 0, 0, 1, rnd.randint(-60, 60), rnd.randint(-60, 60)))
            npts[g] = 1
        elif struct is None:
            pen.addComponent("A", (1, 0, 0, 1, 0, 0))
            pen.addComponent("acutecomb", (1, 0, 0, 1, rnd.randint(250, 420), rnd.randint(-40, 120)))
            npts[g] = 2
        else:
            pts = [[(x + rnd.randint(-30, 30) + (25 if g.endswith(".alt") else 0), y + rnd.randint(-30, 30)) for x, y in c]
                   for c in G._base_points(src, struct)]
            G._draw(pen, struct, pts, True)
            npts[g] = sum(len(c) for c in pts)
        glyphs[g] = pen.glyph()
    fb.setupGlyf(glyphs)
    glyf = fb.font["glyf"]
    metrics = {}
    for g in order:
        glyf[g].recalcBounds(glyf)
        metrics[g] = (0 if g == "acutecomb" else 700 + rnd.randint(0, 200), getattr(glyf[g], "xMin", 0) if glyf[g].numberOfContours else 0)
    fb.setupHorizontalMetrics(metrics)
    fb.setupHorizontalHeader(ascent=800, descent=-200)
    fb.setupNameTable({"familyName": "GV", "styleName": "Regular"})
    fb.setupOS2()
    fb.setupPost()
    instances = [dict(location={t: de for t, lo, de, hi in axes}, stylename="Default")]
    for _ in range(4):
        instances.append(dict(location={t: rnd.choice([lo, de, hi, (lo + hi) // 2]) for t, lo, de, hi in axes},
                              stylename="I%d" % len(instances)))
    fb.setupFvar([(t, lo, de, hi, t.upper()) for t, lo, de, hi in axes], instances)
    variations = {}
    for g in order:
        tvs = []
        shifted = rnd.random() < 0.2          # this glyph's left phantom point moves too
        for _ in range(rnd.randint(*n_tuples)):
            sub = rnd.sample(axes, rnd.randint(1, len(axes)))
            tent = {}
            for t, lo, de, hi in sub:
                sides = ([True] if hi > de else []) + ([False] if de > lo else [])
                tent[t] = _rand_tent(rnd, rnd.choice(sides))
            n = npts[g]
            deltas = [(rnd.randint(-150, 150), rnd.randint(-150, 150)) for _ in range(n)]
            if n > 2 and rnd.random() < 0.4:
                for i in rnd.sample(range(n), rnd.randint(1, n - 1)):
                    deltas[i] = None
            # (advances never become negative anywhere in the design space: that is not representable)
            phantoms = [(rnd.randint(-40, 40), 0) if shifted else (0, 0), (0 if g == "acutecomb" else rnd.randint(-100, 100), 0), (0, 0), (0, 0)]
            if g == "acutecomb":
                phantoms[0] = (0, 0)
            tvs.append(TupleVariation(tent, deltas + phantoms))
        variations[g] = tvs
    fb.setupGvar(variations)
    seg = _rand_avar(rnd, axes, avar_mode)
    if seg is not None:
        avar = newTable("avar")
        avar.segments = seg
        fb.font["avar"] = avar
    buildStatTable(fb.font, [dict(tag=t, name=t.upper(), values=[dict(value=v, name="%s%g" % (t, v)) for v in sorted({lo, de, hi, (lo + hi) // 2})])
                             for t, lo, de, hi in axes])
    buf = io.BytesIO()
    fb.font.save(buf)
    return buf.getvalue(), {"axes": axes, "avar": seg}


# ---------------------------------------------------------------------------------------------
# limits and locations
# ---------------------------------------------------------------------------------------------
def _uval(rnd, a, b):
    """a user value in [a, b]: an end, a 'nice' grid value or a random float"""
    k = rnd.random()
    if a == b or k < 0.2:
        return rnd.choice([a, b])
    if k < 0.7:
        return a + (b - a) * rnd.randint(0, 16) / 16.0
    v = int(rnd.uniform(a, b) * 64) / 64.0          # exactly representable in fvar's 16.16
    return min(max(v, a), b)


def gen_limits(rnd, axes, mode):
    """axes = [(tag, lo, de, hi)].  Returns the axisLimits dict handed to the instancer."""
    lim = {}
    for tag, lo, de, hi in axes:
        k = rnd.random()
        kind = mode
        if mode == "mix":
            kind = "keep" if k < 0.25 else "pin" if k < 0.5 else "range" if k < 0.75 else "moved"
        if kind == "keep":
            continue
        if kind in ("pin", "full"):
            r0 = rnd.random()
            lim[tag] = None if r0 < 0.25 else de if r0 < 0.35 else _uval(rnd, lo, hi)
        elif kind == "range":
            a, b = sorted((_uval(rnd, lo, hi), _uval(rnd, lo, hi)))
            if rnd.random() < 0.6:            # keep the old default inside
                a, b = min(a, de), max(b, de)
            lim[tag] = (a, b)
        else:                                   # moved default
            a, b = sorted((_uval(rnd, lo, hi), _uval(rnd, lo, hi)))
            if rnd.random() < 0.6 and lo < de < hi:
                a, b = min(a, _uval(rnd, lo, de)), max(b, _uval(rnd, de, hi))      # straddles the old default
            d = _uval(rnd, a, b)
            lim[tag] = (a, d, b)
    if not lim:
        tag, lo, de, hi = rnd.choice(axes)
        lim[tag] = (lo, _uval(rnd, lo, hi), hi)
    return lim


def expected_triples(axes, lim):
    """the user-space (min, default, max) every axis must have after instancing (None = removed)."""
    out = {}
    for tag, lo, de, hi in axes:
        if tag not in lim:
            out[tag] = (lo, de, hi)
            continue
        v = lim[tag]
        if v is None:
            out[tag] = ("pin", de)
            continue
        if isinstance(v, (int, float)):
            v = (v, v, v)
        if len(v) == 2:
            v = (v[0], None, v[1])
        a, d, b = v
        a, b = min(max(a, lo), hi), min(max(b, lo), hi)
        d = de if d is None else d
        d = min(max(d, a), b)
        out[tag] = ("pin", d) if a == b else (a, d, b)
    return out


def gen_locations(rnd, axes, exp, n):
    """n user-space locations inside the new limits (all axes; pinned ones at their pin)."""
    locs = []
    special = []
    for pick in ("min", "def", "max", "olddef"):
        loc = {}
        for tag, lo, de, hi in axes:
            e = exp[tag]
            if e[0] == "pin":
                loc[tag] = e[1]
            else:
                a, d, b = e
                loc[tag] = {"min": a, "def": d, "max": b, "olddef": min(max(de, a), b)}[pick]
        special.append(loc)
    locs.extend(special)
    while len(locs) < n:
        loc = {}
        for tag, lo, de, hi in axes:
            e = exp[tag]
            loc[tag] = e[1] if e[0] == "pin" else _uval(rnd, e[0], e[2])
        locs.append(loc)
    return locs[:max(n, 4)]


# ---------------------------------------------------------------------------------------------
# tolerance model
# ---------------------------------------------------------------------------------------------
def _tent_scalar(tent, loc):
    s = 1.0
    for tag, (lo, pk, hi) in tent.items():
        if pk == 0 or lo > pk or pk > hi or (lo < 0 < hi):
            continue
        v = loc.get(tag, 0.0)
        if v == pk:
            continue
        if v <= lo or v >= hi:
            return 0.0
        s *= (v - lo) / (pk - lo) if v < pk else (hi - v) / (hi - pk)
    return s


def _tent_slope(tent):
    s = 0.0
    for lo, pk, hi in tent.values():
        w = min([x for x in (pk - lo, hi - pk) if x > 0] or [1.0])
        s += 1.0 / w
    return s


def _ivs_budget(ostore, oidx, istore, iidx, itags, iloc, moved=()):
    """rounding budget multiplier of one ItemVariationStore item (idx None = any item of the store):
    every delta of the instance is rounded (0.5 x its region scalar).  Regions whose deltas all
    round to zero are dropped, so the budget is also bounded from below by the pieces the item's
    non-zero deltas of the original can turn into: one per delta, doubled for every axis of its
    region whose default was moved (there the tent splits into a constant part, which joins the
    lower-dimensional region, and a rebased tent).  `moved` = indices (original fvar order) of those
    axes.  Returns 0.5 * max(that count, sum of the instance's scalars)."""
    def rows(store, idx):
        if store is None or not store.VarData:
            return []
        if idx is None:
            return [(ri, 1) for ri in range(len(store.VarRegionList.Region))]
        if idx == 0xFFFFFFFF or (idx >> 16) >= len(store.VarData):
            return []
        vd = store.VarData[idx >> 16]
        if (idx & 0xFFFF) >= len(vd.Item):
            return []
        return list(zip(vd.VarRegionIndex, vd.Item[idx & 0xFFFF]))
    m = 0
    for ri, d in rows(ostore, oidx):
        if d:
            m += 2 ** sum(1 for ai, ax in enumerate(ostore.VarRegionList.Region[ri].VarRegionAxis) if ax.PeakCoord != 0 and ai in moved)
    floc = {t: F(v).limit_denominator(1 << 20) for t, v in iloc.items()}
    sc = sum(float(G._region_scalar(istore.VarRegionList.Region[ri], itags, floc)) for ri, d in rows(istore, iidx) if d)
    return 0.5 * max(m, sc)


_HVAR_OK = {}


def _hvar_consistent_gids(data, font):
    """glyph ids whose HVAR advance agrees (+-1) with the advance from the gvar phantom points at the
    default, every axis extreme and every corner of the original design space (<= 3 axes: all
    27 combinations).  Advances of other glyphs are not comparable: the instancer takes hmtx from
    gvar and deltas from HVAR."""
    key = hash(data)
    if key not in _HVAR_OK:
        from fontTools.ttLib import TTFont
        n = len(font.getGlyphOrder())
        if "HVAR" not in font or "gvar" not in font:
            _HVAR_OK[key] = set(range(n))
        else:
            f = TTFont(io.BytesIO(data))
            del f["HVAR"]
            buf = io.BytesIO()
            f.save(buf)
            h1, h2 = G._hb(data), G._hb(buf.getvalue())
            axes = [(a.axisTag, a.minValue, a.defaultValue, a.maxValue) for a in font["fvar"].axes]
            if len(axes) <= 3:
                probes = [dict(zip([a[0] for a in axes], vals)) for vals in itertools.product(*[sorted({a[1], a[2], a[3]}) for a in axes])]
            else:
                probes = [{}] + [{a[0]: v} for a in axes for v in (a[1], a[3])]
            ok = set(range(n))
            for loc in probes:
                h1.set_variations(loc)
                h2.set_variations(loc)
                ok = {g for g in ok if abs(h1.get_glyph_h_advance(g) - h2.get_glyph_h_advance(g)) <= 1}
            _HVAR_OK[key] = ok
    return _HVAR_OK[key]


class Pair:
    """original + instance, both through bytes, with HarfBuzz fonts and fontTools views."""

    def __init__(self, data, limits, **kw):
        from fontTools.ttLib import TTFont
        from fontTools.varLib import instancer
        G._quiet()
        self.data = data
        self.orig = TTFont(io.BytesIO(data))
        self.axes = [(a.axisTag, a.minValue, a.defaultValue, a.maxValue) for a in self.orig["fvar"].axes]
        self.optimize = kw.get("optimize", True)
        self.limits = dict(limits)
        self.exp = expected_triples(self.axes, self.limits)
        # axes that stay variable with a moved default
        self.moved = {t for t, lo, de, hi in self.axes if self.exp[t][0] != "pin" and self.exp[t][1] != de}
        self.moved_idx = {i for i, a in enumerate(self.axes) if a[0] in self.moved}
        if kw.pop("engine", None) == "mutator":      # the older full instancer: limits must pin every axis
            from fontTools.varLib import mutator
            inst = mutator.instantiateVariableFont(TTFont(io.BytesIO(data)), dict(limits))
        else:
            inst = instancer.instantiateVariableFont(TTFont(io.BytesIO(data)), dict(limits), **kw)
        buf = io.BytesIO()
        inst.save(buf)
        self.idata = buf.getvalue()
        self.inst = TTFont(io.BytesIO(self.idata))
        self.ho, self.hi = G._hb(data), G._hb(self.idata)
        self.itags = [a.axisTag for a in self.inst["fvar"].axes] if "fvar" in self.inst else []
        self.order = self.orig.getGlyphOrder()
        self._slack = {}
        seg = self.orig["avar"].segments if "avar" in self.orig else {}
        self.avar_slope = 1.0
        for m in seg.values():
            pts = sorted(m.items())
            for (a, b), (c, d) in zip(pts, pts[1:]):
                if c > a:
                    self.avar_slope = max(self.avar_slope, (d - b) / (c - a))

    def at(self, loc):
        self.ho.set_variations({t: float(v) for t, v in loc.items()})
        self.hi.set_variations({t: float(loc[t]) for t in self.itags})
        self.iloc = dict(zip(self.itags, self.hi.get_var_coords_normalized())) if self.itags else {}

    def hvar_ok(self, gid):
        return gid in _hvar_consistent_gids(self.data, self.orig)

    def gvar_tol(self, g, depth=0):
        """outline budget of glyph g at the current location: 0.5 for the rounded new default, 0.5 per
        unit of scalar of the instance's rounded tuples - but at least 0.5 per piece an original tuple
        can turn into (one, doubled per axis of the tuple whose default moved), since pieces whose
        deltas all round to zero are dropped - plus 0.5 per unit of scalar when the instance was
        IUP-optimised (tolerance 0.5), plus quantisation slack; composites add their worst
        component; doubled when the left phantom point (by which HarfBuzz shifts) varies."""
        tvs = self.inst["gvar"].variations.get(g, []) if "gvar" in self.inst else []
        otvs = self.orig["gvar"].variations.get(g, []) if "gvar" in self.orig else []
        s = sum(_tent_scalar(tv.axes, self.iloc) for tv in tvs)
        pieces = sum(2 ** sum(1 for t, tent in tv.axes.items() if tent[1] != 0 and t in self.moved) for tv in otvs)
        tol = 0.5 + 0.5 * max(s, pieces) + (0.5 * s if self.optimize else 0) + self.quant_slack(g)
        glyph = self.orig["glyf"][g]
        if glyph.isComposite() and depth < 4:
            tol += max([self.gvar_tol(c.glyphName, depth + 1) for c in glyph.components] or [0])
        if depth == 0 and any(tv.coordinates[-4] not in (None, (0, 0)) for tv in otvs):
            tol *= 2
        return tol

    def hvar_tol(self, g, gid):
        def idx(font):
            if "HVAR" not in font:
                return None
            m = font["HVAR"].table.AdvWidthMap
            return m.mapping[g] if m else gid
        return self.ivs_tol("HVAR", idx(self.orig), idx(self.inst))

    @staticmethod
    def _store(font, table):
        if table == "GDEF":
            return getattr(font["GDEF"].table, "VarStore", None) if "GDEF" in font else None
        if table == "CFF2":
            top = font["CFF2"].cff.topDictIndex[0] if "CFF2" in font else None
            vs = getattr(top, "VarStore", None)
            return vs.otVarStore if vs is not None else None
        return font[table].table.VarStore if table in font else None

    def ivs_tol(self, table, oidx=None, iidx=None):
        """0.5 (new default) + item budget of the named table's ItemVariationStore (see _ivs_budget)
        + quantisation slack of that store."""
        return 0.5 + _ivs_budget(self._store(self.orig, table), oidx, self._store(self.inst, table), iidx, self.itags, self.iloc, self.moved_idx) + self.ivs_slack(table)

    def ivs_slack(self, table):
        """F2Dot14 quantisation (<= 3/16384 per axis, times the avar slope) x steepest region x the
        largest sum of |deltas| of one item of the original store."""
        key = ("ivs", table)
        if key not in self._slack:
            store = self._store(self.orig, table)
            tot = 0.0
            if store is not None and store.VarData and store.VarRegionList.Region:
                slope = 0.0
                for reg in store.VarRegionList.Region:
                    sl = 0.0
                    for ax in reg.VarRegionAxis:
                        if ax.PeakCoord != 0:
                            w = min([x for x in (ax.PeakCoord - ax.StartCoord, ax.EndCoord - ax.PeakCoord) if x > 0] or [1.0])
                            sl += 1.0 / w
                    slope = max(slope, sl)
                big = max([sum(abs(d) for d in row) for vd in store.VarData for row in vd.Item] or [0])
                tot = big * slope * 3.0 / Q * (1 + self.avar_slope)
            self._slack[key] = 1e-3 + tot
        return self._slack[key]

    def quant_slack(self, g):
        """effect of the F2Dot14 quantisation of limits / coordinates (<= 3/16384 per axis, times the
        avar slope) on glyph g: sum over its original tuples of max|delta| x tent slope."""
        if g not in self._slack:
            tot = 0.0
            for tv in (self.orig["gvar"].variations.get(g, []) if "gvar" in self.orig else []):
                m = max([max(abs(c[0]), abs(c[1])) for c in tv.coordinates if c is not None] or [0])
                tot += m * _tent_slope(tv.axes)
            self._slack[g] = 1e-3 + tot * 3.0 / Q * (1 + self.avar_slope)
        return self._slack[g]


def compare_outlines(r, p, loc, glyphs, label, adv_from_gvar):
    p.at(loc)
    for g in glyphs:
        gid = p.order.index(g)
        oo, xo = G._outline(p.ho, gid)
        oi, xi = G._outline(p.hi, gid)
        tol = p.gvar_tol(g)
        if oo != oi or len(xo) != len(xi):
            r.fail("%s: glyph %s at %r: outline structure %s vs %s" % (label, g, loc, oo, oi))
            continue
        d = max([abs(a - b) for a, b in zip(xo, xi)] or [0])
        if d > tol:
            r.fail("%s: glyph %s at %r: outline differs by %.3f > budget %.3f" % (label, g, loc, d, tol))
        ao, ai = p.ho.get_glyph_h_advance(gid), p.hi.get_glyph_h_advance(gid)
        if not p.hvar_ok(gid):
            continue        # precondition: HVAR and the gvar phantom points of the original agree
        if adv_from_gvar:
            atol = 2 * tol + 1
        else:
            atol = 1 + p.hvar_tol(g, gid)      # 1 = HarfBuzz rounds the delta on both sides
        if abs(ao - ai) > atol:
            r.fail("%s: glyph %s at %r: advance %d vs %d in the instance (budget %.2f)" % (label, g, loc, ao, ai, atol))


def check_structure(r, p, limits, label):
    """fvar / avar / variation tables / STAT / named instances of the instance vs the request."""
    exp = expected_triples(p.axes, limits)
    remaining = [(t, e) for t, e in ((t, exp[t]) for t, _, _, _ in p.axes) if e[0] != "pin"]
    if not remaining:
        left = [t for t in VAR_TABLES if t in p.inst]
        if left:
            r.fail("%s: all axes pinned by %r but the instance still has %r" % (label, limits, left))
        if "GDEF" in p.inst and getattr(p.inst["GDEF"].table, "VarStore", None) is not None:
            r.fail("%s: all axes pinned but GDEF still has a VarStore" % label)
        for tag in ("GSUB", "GPOS"):
            if tag in p.inst and getattr(p.inst[tag].table, "FeatureVariations", None):
                r.fail("%s: all axes pinned but %s still has FeatureVariations" % (label, tag))
        if "CFF2" in p.inst:
            top = p.inst["CFF2"].cff.topDictIndex[0]
            if getattr(top, "VarStore", None) is not None:
                r.fail("%s: all axes pinned but CFF2 still has a VarStore" % label)
        return
    got = [(a.axisTag, (a.minValue, a.defaultValue, a.maxValue)) for a in p.inst["fvar"].axes] if "fvar" in p.inst else None
    want = [(t, tuple(float(x) for x in e)) for t, e in remaining]
    if got is None or [t for t, _ in got] != [t for t, _ in want] or any(abs(x - y) > 2.0 ** -15 for (_, g3), (_, w3) in zip(got, want) for x, y in zip(g3, w3)):
        r.fail("%s: limits %r: fvar axes of the instance %r, expected %r" % (label, limits, got, want))
        return
    if "avar" in p.inst:
        for t, m in p.inst["avar"].segments.items():
            if t not in p.itags:
                r.fail("%s: avar keeps a segment map for removed axis %s" % (label, t))
            pts = sorted(m.items())
            if m and (m.get(-1.0) != -1.0 or m.get(0.0) != 0.0 or m.get(1.0) != 1.0 or any(b[1] < a[1] for a, b in zip(pts, pts[1:]))):
                r.fail("%s: limits %r: instance avar map for %s is not a valid segment map: %r" % (label, limits, t, pts))
    # named instances: exactly those of the original that sit on the pins and inside the ranges
    pins = {t: e[1] for t, e in exp.items() if e[0] == "pin"}
    wanted = []
    for ni in p.orig["fvar"].instances:
        c = ni.coordinates
        if all(c[t] == v for t, v in pins.items()) and all(e[0] <= c[t] <= e[2] for t, e in remaining):
            wanted.append({t: c[t] for t, _ in remaining})
    have = [dict(ni.coordinates) for ni in p.inst["fvar"].instances]
    if sorted(map(sorted, (w.items() for w in wanted))) != sorted(map(sorted, (h.items() for h in have))):
        r.fail("%s: limits %r: named instances of the instance %r, expected %r" % (label, limits, have, wanted))
    if "STAT" in p.orig and p.orig["STAT"].table.AxisValueArray:
        if "STAT" not in p.inst:
            r.fail("%s: STAT was dropped" % label)
            return
        axes = [a.AxisTag for a in p.orig["STAT"].table.DesignAxisRecord.Axis]

        def vals(font):
            arr = font["STAT"].table.AxisValueArray
            out = []
            for av in (arr.AxisValue if arr else []):
                if av.Format in (1, 3):
                    out.append((axes[av.AxisIndex], av.Value))
                elif av.Format == 2:
                    out.append((axes[av.AxisIndex], av.NominalValue))
            return out
        lims = {t: ((e[1], e[1]) if e[0] == "pin" else (e[0], e[2])) for t, e in exp.items() if t in limits}
        want_vals = [(t, v) for t, v in vals(p.orig) if t not in lims or lims[t][0] <= v <= lims[t][1]]
        if sorted(vals(p.inst)) != sorted(want_vals):
            r.fail("%s: limits %r: STAT axis values of the instance %r, expected %r" % (label, limits, sorted(vals(p.inst)), sorted(want_vals)))


def _instantiate(r, data, limits, label, **kw):
    try:
        return Pair(data, limits, **kw)
    except Exception as e:
        r.fail("%s: instantiateVariableFont(%r) raised %s: %s" % (label, limits, type(e).__name__, str(e)[:200]))
        return None


# ---------------------------------------------------------------------------------------------
# checks
# ---------------------------------------------------------------------------------------------
@check("C08")
def gvar_tents_outlines_and_advances(tier, rnd):
    """glyf/gvar fonts with arbitrary legal tents (corner, intermediate, explicit start/end, sparse
    IUP deltas, composites, moving left phantom), optional avar: for pins, ranges, moved defaults and
    mixes the instance draws every glyph like the original at every sampled location of the new
    range (HarfBuzz), advances (from the phantom points) agree, fvar/avar/STAT/named instances
    describe exactly the requested space, and pinning all axes leaves no variation table."""
    r = Result("seeded gvar fonts (1-3 axes incl. asymmetric and one-sided axes; 0-5 random tents per glyph; avar none/identity/random) x seeded limits (keep/pin/range/moved default/full) x 6-8 user locations inside the new limits (corners, new default, old default, random) x 10 glyphs; distinct = (n axes, avar mode, limits mode, optimize, kinds of limit per axis)")
    n_fonts = 24 if tier == "quick" else 240
    modes = ["mix", "mix", "moved", "range", "full", "pin", "mix"]
    for fi in range(n_fonts):
        n_axes = [1, 2, 3, 2][fi % 4]
        avar_mode = [None, "identity", "random"][fi % 3]
        data, info = make_gvar_font(rnd, n_axes, avar_mode)
        axes = info["axes"]
        for li in range(7 if tier == "quick" else 10):
            mode = modes[li % len(modes)]
            limits = gen_limits(rnd, axes, mode)
            optimize = bool((fi + li) % 2)
            label = "gvar font #%d axes %r avar %s" % (fi, axes, avar_mode)
            kinds = tuple(sorted("none" if v is None else "pin" if isinstance(v, (int, float)) else str(len(v)) for v in limits.values()))
            r.case((n_axes, avar_mode, mode, optimize, kinds))
            p = _instantiate(r, data, limits, label, optimize=optimize)
            if p is None:
                continue
            check_structure(r, p, limits, label + " limits %r" % (limits,))
            exp = expected_triples(axes, limits)
            for loc in gen_locations(rnd, axes, exp, 6 if tier == "quick" else 8):
                compare_outlines(r, p, loc, p.order, label + " limits %r optimize=%s" % (limits, optimize), True)
        if fi == 0:
            r.sample({"axes": axes, "limits": {k: v for k, v in limits.items()}})
    return r


@check("C08")
def avar_asymmetric_axis_moved_default(tier, rnd):
    """One asymmetric axis (100/400/900 and others) with an avar table (identity or warped):
    every (min, default, max) restriction from a grid - including moved defaults whose range still
    straddles the old default, e.g. (200, 600, 900) - keeps outlines and advances at every user
    coordinate of the new range, and the instance's avar stays a valid map."""
    r = Result("axes 100/400/900, 50/100/200, 0/500/1000 x avar in {identity, 2 fixed warps, seeded random} x all (min, default, max) from a 6-value grid per axis x 9 user coordinates of the new range; second axis present and left alone or pinned; distinct = (axis, avar kind, position of new min/default/max relative to the old default)")
    from fontTools.ttLib import TTFont, newTable
    axes_list = [("wght", 100, 400, 900), ("wdth", 50, 100, 200), ("XTRA", 0, 500, 1000)]
    warps = {"identity": {-1.0: -1.0, 0.0: 0.0, 1.0: 1.0},
             "warp1": {-1.0: -1.0, -0.5: -0.75, 0.0: 0.0, 0.25: 0.5, 1.0: 1.0},
             "warp2": {-1.0: -1.0, -0.75: -0.25, 0.0: 0.0, 0.5: 0.125, 0.75: 0.5, 1.0: 1.0}}
    rounds = 1 if tier == "quick" else 8
    for rd in range(rounds):
        for ax in axes_list:
            tag, lo, de, hi = ax
            for wname in ["identity", "warp1", "warp2", "random"]:
                # a two-axis font whose first axis is the one under test
                data, info = make_gvar_font(rnd, 2, None, n_tuples=(2, 4))
                f = TTFont(io.BytesIO(data))
                # give the first fvar axis the triple under test (gvar is decompiled lazily, by axis
                # position, after this; tents live in normalized space, so the font stays legal)
                a0 = f["fvar"].axes[0]
                a0.axisTag, a0.minValue, a0.defaultValue, a0.maxValue = tag, lo, de, hi
                a1 = f["fvar"].axes[1]
                if a1.axisTag == tag:
                    a1.axisTag = "ZZZZ"
                for g, tvs in f["gvar"].variations.items():
                    for tv in tvs:
                        # one-sided source axes only have one-sided tents; mirror some to use both sides
                        if tag in tv.axes and rnd.random() < 0.5:
                            l, pk, h = tv.axes[tag]
                            tv.axes[tag] = (-h, -pk, -l)
                for ni in f["fvar"].instances:
                    ni.coordinates = {a.axisTag: a.defaultValue for a in f["fvar"].axes}
                del f["STAT"]
                seg = dict(warps[wname]) if wname != "random" else _rand_avar(rnd, [ax], "random")[tag]
                avar = newTable("avar")
                avar.segments = {tag: seg, f["fvar"].axes[1].axisTag: {}}
                f["avar"] = avar
                buf = io.BytesIO()
                f.save(buf)
                data = buf.getvalue()
                grid = sorted({lo, de, hi, lo + (de - lo) / 3.0, de + (hi - de) * 0.4, (lo + de) / 2.0, (de + hi) / 2.0})
                triples = [(a, d, b) for a in grid for d in grid for b in grid if a <= d <= b and a < b]
                if tier == "quick":
                    triples = [t for i, t in enumerate(triples) if (i + rd) % 3 == 0] + [(lo + (de - lo) / 3.0, de + (hi - de) * 0.4, hi)]
                other_tag = f["fvar"].axes[1].axisTag
                o = f["fvar"].axes[1]
                for ti, (a, d, b) in enumerate(triples):
                    limits = {tag: (a, d, b)}
                    if ti % 4 == 1:
                        limits[other_tag] = None
                    cls = (tag, wname, (a < de) - (a > de), (d < de) - (d > de), (b < de) - (b > de))
                    r.case(cls)
                    label = "axis %s avar %s %r" % (ax, wname, sorted(seg.items()))
                    p = _instantiate(r, data, limits, label, optimize=bool(ti % 2))
                    if p is None:
                        continue
                    check_structure(r, p, limits, label + " limits %r" % (limits,))
                    for k in range(9):
                        u = a + (b - a) * k / 8.0
                        loc = {tag: u, other_tag: o.defaultValue if other_tag in limits else rnd.choice([o.minValue, o.defaultValue, o.maxValue, (o.minValue + o.maxValue) / 2.0])}
                        compare_outlines(r, p, loc, ["A", "B", "Aacute", "space"], label + " limits %r" % (limits,), True)
    r.sample({"axis": (100, 400, 900), "avar": "identity", "limits": (200, 600, 900)})
    return r


def _condition_boxes(rnd, axes):
    """boxes (dict tag -> (min, max) normalized) for FeatureVariations, incl. boxes where two axes
    carry the identical range."""
    def rng(tag_axis):
        t, lo, de, hi = tag_axis
        side = rnd.choice(([1] if hi > de else []) + ([-1] if de > lo else []))
        a, b = sorted((rnd.choice([0.0, 0.25, 0.5, 0.75]), rnd.choice([0.25, 0.5, 0.75, 1.0, 1.0])))
        if a == b:
            a, b = 0.5, 1.0
        return (a, b) if side > 0 else (-b, -a)
    boxes = []
    for _ in range(rnd.randint(1, 3)):
        sub = rnd.sample(axes, rnd.randint(1, len(axes)))
        boxes.append({ta[0]: rng(ta) for ta in sub})
    if len(axes) >= 2:
        two = [ta for ta in axes if ta[3] > ta[2]][:2]
        if len(two) == 2:
            same = rnd.choice([(0.5, 1.0), (0.25, 0.75), (0.0, 0.5)])
            boxes.append({two[0][0]: same, two[1][0]: same})           # identical range on two axes
    return boxes


def _has_pinned_true_record(p):
    """the known defect's trigger: a partial instance, and some FeatureVariationRecord of the original
    whose conditions are all on pinned axes and all hold at the pins (it is then always true in the
    instance, but the instancer neither keeps it nor stops at it; the catch-all record it appends
    reinstates the old default features)."""
    pinned = [i for i, a in enumerate(p.axes) if p.exp[a[0]][0] == "pin"]
    if len(pinned) == len(p.axes) or "GSUB" not in p.orig or not getattr(p.orig["GSUB"].table, "FeatureVariations", None):
        return False
    tags = [a[0] for a in p.axes]
    on = dict(zip(tags, p.ho.get_var_coords_normalized()))
    for rec in p.orig["GSUB"].table.FeatureVariations.FeatureVariationRecord:
        conds = rec.ConditionSet.ConditionTable if rec.ConditionSet else []
        if conds and all(c.Format == 1 and c.AxisIndex in pinned and c.FilterRangeMinValue <= on[tags[c.AxisIndex]] <= c.FilterRangeMaxValue for c in conds):
            return True
    return False


@check("C08")
def feature_variations_substitutions(tier, rnd):
    """FeatureVariations (rvrn/rclt built by varLib.featureVars from condition boxes, incl. boxes
    with the identical normalized range on two axes): after pinning / restricting axes (also the
    earlier of two such axes, also at its default) HarfBuzz substitutes the same glyphs in the
    instance as in the original at every sampled location; a full instance has no FeatureVariations."""
    from fontTools.ttLib import TTFont
    from fontTools.varLib import featureVars
    r = Result("seeded gvar fonts (2-3 axes) + 1-3 substitution rules each over 1-4 condition boxes x seeded limits (every axis order position pinned at default / at a value inside or outside a box / restricted / moved default; full) x 8 locations (kept 4/16384 away from condition boundaries); HarfBuzz glyph sequence of 'ABV'; distinct = (n axes, limits kinds, identical-range box present, which axis index pinned)")
    n_fonts = 24 if tier == "quick" else 240
    for fi in range(n_fonts):
        n_axes = [2, 3, 2][fi % 3]
        data, info = make_gvar_font(rnd, n_axes, [None, "identity", "random"][fi % 3], n_tuples=(0, 2))
        axes = info["axes"]
        f = TTFont(io.BytesIO(data))
        rules, has_same = [], False
        alts = sorted(ALT.items())
        rnd.shuffle(alts)
        pos = [ta for ta in axes if ta[3] > ta[2]]
        if len(pos) >= 2 and fi % 4 != 3:
            # twin rules: different glyphs, different axes, the identical normalized range
            same = rnd.choice([(0.5, 1.0), (0.25, 0.75), (0.25, 1.0)])
            two = rnd.sample(pos, 2)
            for ta in two:
                g, alt = alts.pop()
                rules.append(([{ta[0]: same}], {g: alt}))
            has_same = True
        for g, alt in alts[:rnd.randint(1, len(alts))]:
            boxes = _condition_boxes(rnd, axes)
            has_same = has_same or any(len(set(b.values())) < len(b) for b in boxes)
            rules.append((boxes, {g: alt}))
        rnd.shuffle(rules)
        try:
            featureVars.addFeatureVariations(f, rules, featureTag=rnd.choice(["rvrn", "rclt"]))
        except Exception as e:
            r.case(("addFeatureVariations", fi))
            r.fail("varLib.featureVars.addFeatureVariations raised %s: %s for rules %r" % (type(e).__name__, str(e)[:100], rules))
            continue
        buf = io.BytesIO()
        f.save(buf)
        data = buf.getvalue()
        bounds = {t: sorted({v for boxes, _ in rules for b in boxes if t in b for v in b[t] if abs(v) != 1.0}) for t, _, _, _ in axes}
        lim_list = []
        for ai, (t, lo, de, hi) in enumerate(axes):       # pin each axis in turn: at default, at values
            lim_list.append(("pin-default-%d" % ai, {t: None}))
            lim_list.append(("pin-value-%d" % ai, {t: _uval(rnd, lo, hi)}))
            lim_list.append(("pin-max-%d" % ai, {t: hi if hi > de else lo}))
            if lo < de < hi:                              # trims that leave the other side's conditions untouched
                lim_list.append(("trim-neg-%d" % ai, {t: ((lo + de) / 2.0, de, hi)}))
                lim_list.append(("trim-pos-%d" % ai, {t: (lo, (de + hi) / 2.0)}))
        for mode in ("mix", "moved", "range", "full", "mix"):
            lim_list.append((mode, gen_limits(rnd, axes, mode)))
        if tier == "quick":
            lim_list = lim_list[fi % 2::2] + lim_list[-2:-1]
        for kind, limits in lim_list:
            r.case((n_axes, kind, has_same))
            label = "fvars font #%d axes %r rules %r" % (fi, axes, rules)
            p = _instantiate(r, data, limits, label)
            if p is None:
                continue
            exp = expected_triples(axes, limits)
            if all(e[0] == "pin" for e in exp.values()):
                check_structure(r, p, limits, label)
            for loc in gen_locations(rnd, axes, exp, 8):
                p.at(loc)
                on = dict(zip([a[0] for a in axes], p.ho.get_var_coords_normalized()))
                if any(abs(on[t] - b) <= 4.0 / Q for t in on for b in bounds[t]):
                    continue              # on a condition boundary: quantisation decides, not the instancer
                so = [p.order[x[0]] for x in G._shape(p.ho, "ABV")]
                si = [p.inst.getGlyphOrder()[x[0]] for x in G._shape(p.hi, "ABV")]
                if so != si:
                    r.fail("%s: limits %r at %r (normalized %r): original substitutes to %r, instance to %r" % (label, limits, loc, on, so, si),
                           known_id=KNOWN_FEATVARS if _has_pinned_true_record(p) else None)
        if fi == 0:
            r.sample({"axes": axes, "rules": rules})
    return r


HB_METRICS = {"X_HEIGHT": "xhgt", "CAP_HEIGHT": "cpht", "HORIZONTAL_ASCENDER": "hasc", "HORIZONTAL_DESCENDER": "hdsc",
              "HORIZONTAL_LINE_GAP": "hlgp", "STRIKEOUT_OFFSET": "stro", "STRIKEOUT_SIZE": "strs", "SUBSCRIPT_EM_Y_OFFSET": "sbyo",
              "SUPERSCRIPT_EM_Y_SIZE": "spys", "UNDERLINE_OFFSET": "undo", "UNDERLINE_SIZE": "unds",
              "HORIZONTAL_CLIPPING_ASCENT": "hcla", "HORIZONTAL_CLIPPING_DESCENT": "hcld"}


def _mvar_values(font, tags, nloc):
    """{MVAR tag: exact value of the target field at a normalized location} (own evaluation)."""
    from fontTools.varLib.mvar import MVAR_ENTRIES
    out = {}
    recs = {rec.ValueTag: rec.VarIdx for rec in font["MVAR"].table.ValueRecord} if "MVAR" in font else {}
    floc = {t: F(v).limit_denominator(1 << 20) for t, v in nloc.items()}
    for tag, (table, field) in MVAR_ENTRIES.items():
        if table not in font or not hasattr(font[table], field):
            continue
        v = F(getattr(font[table], field))
        if tag in recs:
            v += G._ivs_delta(font["MVAR"].table.VarStore, recs[tag], tags, floc)
        out[tag] = v
    return out


def compare_metrics_and_shaping(r, p, loc, label, texts):
    import uharfbuzz as hb
    from fontTools.varLib.mvar import MVAR_ENTRIES
    p.at(loc)
    orec = {rec.ValueTag: rec.VarIdx for rec in p.orig["MVAR"].table.ValueRecord} if "MVAR" in p.orig else {}
    irec = {rec.ValueTag: rec.VarIdx for rec in p.inst["MVAR"].table.ValueRecord} if "MVAR" in p.inst else {}

    def mtol(tag):
        return p.ivs_tol("MVAR", orec.get(tag, 0xFFFFFFFF), irec.get(tag, 0xFFFFFFFF)) + 0.01
    if "MVAR" in p.orig:
        # every MVAR-driven field, read from the tables and evaluated exactly on both sides
        otags = [a[0] for a in p.axes]
        oloc = dict(zip(otags, p.ho.get_var_coords_normalized()))
        vo, vi = _mvar_values(p.orig, otags, oloc), _mvar_values(p.inst, p.itags, p.iloc)
        for tag in sorted(vo):
            if tag not in vi or abs(vo[tag] - vi[tag]) > mtol(tag):
                r.fail("%s at %r: MVAR-driven metric %s is %s in the original, %s in the instance (budget %.2f)" % (label, loc, tag, float(vo[tag]), float(vi[tag]) if tag in vi else None, mtol(tag)))
    # HarfBuzz applies 'hasc'/'hdsc'/'hlgp' to hhea as well: comparable only if hhea == OS/2 typo metrics
    synced = "OS/2" in p.orig and [getattr(p.orig["OS/2"], a) for a in ("sTypoAscender", "sTypoDescender", "sTypoLineGap")] == \
        [getattr(p.orig["hhea"], a) for a in ("ascender", "descender", "lineGap")]
    tags_in_order = [rec.ValueTag for rec in p.orig["MVAR"].table.ValueRecord] if "MVAR" in p.orig else []
    for name in (HB_METRICS if tags_in_order == sorted(tags_in_order) else []):     # HarfBuzz bsearches the records
        if name in ("HORIZONTAL_ASCENDER", "HORIZONTAL_DESCENDER", "HORIZONTAL_LINE_GAP") and not synced:
            continue
        tag = getattr(hb.OTMetricsTag, name)
        a, b = p.ho.get_metric_position(tag), p.hi.get_metric_position(tag)
        budget = 1 + mtol(HB_METRICS[name])
        if (a is None) != (b is None) or (a is not None and abs(a - b) > budget):
            r.fail("%s at %r: metric %s is %r in the original, %r in the instance (budget %.2f)" % (label, loc, name, a, b, budget))
    # GPOS: each HarfBuzz-rounded component (kern value, base anchor, mark anchor) has the GDEF store budget
    comp = 1 + p.ivs_tol("GDEF") + 0.01
    for text in texts:
        so, si = G._shape(p.ho, text), G._shape(p.hi, text)
        if not all(p.hvar_ok(x[0]) for x in so):
            continue        # precondition: HVAR and the gvar phantom points of the original agree for these glyphs
        if [x[0] for x in so] != [y[0] for y in si]:
            r.fail("%s at %r: shaping %r gives glyphs %r in the original, %r in the instance" % (label, loc, text, [p.order[x[0]] for x in so], [p.order[y[0]] for y in si]),
                   known_id=KNOWN_FEATVARS if _has_pinned_true_record(p) else None)
            continue
        prev_adv = 0
        for x, y in zip(so, si):
            g = p.order[x[0]]
            if "HVAR" in p.orig:
                adv = 1 + p.hvar_tol(g, x[0])
            elif "gvar" in p.orig:
                adv = 2 * p.gvar_tol(g) + 1
            else:
                adv = 0
            tols = (adv + comp, prev_adv + 2 * comp, 2 * comp)
            if x[0] != y[0] or any(abs(u - v) > t for u, v, t in zip(x[1:], y[1:], tols)):
                r.fail("%s at %r: shaping %r gives %r in the original, %r in the instance (budgets of glyph %s: %r)" % (label, loc, text, so, si, g, tols))
                break
            prev_adv = adv


@check("C08")
def built_fonts_all_tables(tier, rnd):
    """varLib-built TrueType fonts (gvar + HVAR + MVAR + variable GPOS kerning / mark anchors in
    GDEF's VarStore + avar from axis maps + STAT): partial and full instances keep outlines,
    HVAR advances, MVAR-backed metrics and GPOS positions at every sampled location; fvar/avar/STAT
    describe the requested space; a full instance (L4) has no fvar/avar/gvar/HVAR/MVAR and no GDEF
    VarStore."""
    r = Result("seeded designspace families (h_c10 generator: 1-3 axes, axis maps, intermediate/corner/sparse masters) built with varLib x seeded limits (mix/moved/range/pin/full) x 6 locations; HarfBuzz outlines, advances, 13 metrics, shaping of 12 texts; distinct = (n axes, n masters, limits mode, kinds of limit)")
    n_fam = 16 if tier == "quick" else 160
    modes = ["mix", "full", "moved", "range", "pin", "mix"]
    for fi in range(n_fam):
        fam = G.make_family(rnd, ttf=True, n_axes=[1, 2, 3, 2][fi % 4], richness=fi % 3, sparse=bool(fi % 2))
        data, vf, _, _ = G.build_vf(fam, optimize=True)
        axes = [(a.axisTag, a.minValue, a.defaultValue, a.maxValue) for a in vf["fvar"].axes]
        for li in range(5 if tier == "quick" else 8):
            mode = modes[(fi + li) % len(modes)]
            limits = gen_limits(rnd, axes, mode)
            kinds = tuple(sorted("none" if v is None else "pin" if isinstance(v, (int, float)) else str(len(v)) for v in limits.values()))
            r.case((len(axes), len(fam.masters), mode, kinds))
            label = "built family %r" % (G._describe(fam),)
            p = _instantiate(r, data, limits, label, optimize=bool(li % 2))
            if p is None:
                continue
            check_structure(r, p, limits, label + " limits %r" % (limits,))
            exp = expected_triples(axes, limits)
            for loc in gen_locations(rnd, axes, exp, 6):
                compare_outlines(r, p, loc, G.ORDER, label + " limits %r" % (limits,), False)
                compare_metrics_and_shaping(r, p, loc, label + " limits %r" % (limits,), G.TEXTS)
        if fi == 0:
            r.sample({"family": G._describe(fam), "limits": limits})
    return r


def _cff2_stack_depth(font, glyph):
    """maximum operand stack depth of a CFF2 charstring (blend pops its operands, pushes n)."""
    top = font["CFF2"].cff.topDictIndex[0]
    cs = top.CharStrings[glyph]
    cs.decompile()
    vs = getattr(top, "VarStore", None)
    counts = [vd.VarRegionCount for vd in vs.otVarStore.VarData] if vs is not None else [0]
    vsindex = getattr(cs.private, "vsindex", 0) or 0
    depth = best = 0
    last = None
    for tok in cs.program:
        if isinstance(tok, str):
            if tok == "blend":
                n = last
                depth -= 1 + n * counts[vsindex]
            elif tok == "vsindex":
                vsindex = last
                depth = 0
            else:
                depth = 0
        else:
            depth += 1
            best = max(best, depth)
            last = tok
    return best


def _cff2_tol(p):
    return p.ivs_tol("CFF2") + 0.05


def compare_cff2(r, p, loc, label):
    p.at(loc)
    tol = _cff2_tol(p)
    iorder = p.inst.getGlyphOrder()
    for gid, g in enumerate(p.order):
        oo, xo = G._outline(p.ho, gid)
        oi, xi = G._outline(p.hi, iorder.index(g) if g in iorder else gid)
        if oo != oi:
            (oo, xo), (oi, xi) = G._align_closing_lines(oo, xo, oi, xi, 2 * tol * (len(xo) // 2 + 1))
        if oo != oi:
            (oo, xo), (oi, xi) = G._merge_collinear_lines(oo, xo), G._merge_collinear_lines(oi, xi)
        if oo != oi or len(xo) != len(xi):
            depth = _cff2_stack_depth(p.inst, g) if "CFF2" in p.inst else 0
            r.fail("%s: CFF2 glyph %s at %r: outline structure %s vs %s (operand stack depth of the instance's charstring: %d)" % (label, g, loc, oo[:60], oi[:60], depth),
                   known_id=KNOWN_CFF2_STACK if depth > CFF2_MAX_STACK else None)
            continue
        # charstring operands are relative and each one is rounded: the budget grows along the path
        bad = [(j // 2, abs(a - b)) for j, (a, b) in enumerate(zip(xo, xi)) if abs(a - b) > tol * (j // 2 + 1)]
        if bad:
            r.fail("%s: CFF2 glyph %s at %r: point %d differs by %.3f > budget %.3f per operand" % (label, g, loc, bad[0][0], bad[0][1], tol))
        ao, ai = p.ho.get_glyph_h_advance(gid), p.hi.get_glyph_h_advance(gid)
        atol = 1 + p.hvar_tol(g, gid)
        if abs(ao - ai) > atol:
            r.fail("%s: CFF2 glyph %s at %r: advance %d vs %d (budget %.2f)" % (label, g, loc, ao, ai, atol))


@check("C08")
def cff2_fonts(tier, rnd):
    """CFF2 variable fonts (varLib-built from generated CFF masters, and the corpus CFF2 fonts):
    partial instances keep charstring outlines / HVAR advances / metrics / shaping at every sampled
    location; the instance's charstrings stay within the CFF2 operand stack limit (513); full
    instances have no CFF2 VarStore, and with downgradeCFF2=True become CFF with the same outlines."""
    from _common import REPO
    from fontTools.ttLib import TTFont
    r = Result("seeded CFF families built with varLib (1-3 axes, axis maps) + corpus CFF2 fonts x seeded limits (mix/moved/range/pin/full, full+downgradeCFF2) x 6 locations; HarfBuzz outlines, advances, metrics, shaping; distinct = (source, n axes, limits mode, downgrade)")
    fonts = []
    n_fam = 8 if tier == "quick" else 80
    for fi in range(n_fam):
        fam = G.make_family(rnd, ttf=False, n_axes=[1, 2, 3, 2][fi % 4], richness=fi % 3, sparse=False)
        data, vf, _, _ = G.build_vf(fam, optimize=True)
        fonts.append(("built CFF family %r" % (G._describe(fam),), data, True))
    for _ in range(60):          # one rich 3-axis family (>= 12 masters, >= 2 two-sided axes)
        fam = G.make_family(rnd, ttf=False, n_axes=3, richness=2, sparse=False)
        if len(fam.masters) >= 12 and sum(1 for a in fam.axes if a[2][0] < a[2][1] < a[2][2]) >= 2:
            fonts.append(("built CFF family %r" % (G._describe(fam),), G.build_vf(fam, optimize=True)[0], True))
            break
    for rel in ["varLib/instancer/data/CFF2Instancer-VF-1.ttx", "varLib/instancer/data/CFF2Instancer-VF-2.ttx",
                "varLib/instancer/data/CFF2Instancer-VF-3.ttx", "varLib/data/master_ttx_varfont_otf/TestCFF2VF.ttx",
                "cffLib/data/TestSparseCFF2VF.ttx"]:
        path = os.path.join(REPO, "Tests", rel)
        if os.path.exists(path):
            f = TTFont(recalcTimestamp=False)
            f.importXML(path)
            buf = io.BytesIO()
            f.save(buf)
            fonts.append((rel, buf.getvalue(), False))
    modes = ["mix", "full", "moved", "range", "full-downgrade", "pin"]
    for fi, (label, data, generated) in enumerate(fonts):
        f = TTFont(io.BytesIO(data))
        axes = [(a.axisTag, a.minValue, a.defaultValue, a.maxValue) for a in f["fvar"].axes]
        n_lim = 6 if tier == "quick" else 12
        for li in range(n_lim + (1 if len(axes) >= 3 else 0)):
            mode = modes[(fi + li) % len(modes)] if li < n_lim else "moved-mid"
            down = mode == "full-downgrade"
            if mode == "moved-mid":
                # full ranges kept, every default moved to the middle of one side: every tent is split,
                # which multiplies the regions and with them the operands of every blend
                limits = {t: (lo, (de + hi) / 2.0 if hi > de else (lo + de) / 2.0, hi) for t, lo, de, hi in axes}
            else:
                limits = gen_limits(rnd, axes, "full" if down else mode)
            r.case((label[:24], len(axes), mode, down))
            p = _instantiate(r, data, limits, label, downgradeCFF2=down)
            if p is None:
                continue
            check_structure(r, p, limits, label + " limits %r" % (limits,))
            if "CFF2" in p.inst:
                deep = [(g, _cff2_stack_depth(p.inst, g)) for g in p.inst.getGlyphOrder()]
                deep = [(g, d) for g, d in deep if d > CFF2_MAX_STACK]
                if deep:
                    r.fail("%s limits %r: charstrings of the instance need an operand stack deeper than the CFF2 limit of %d: %r (regions: %d in the original, %d in the instance)"
                           % (label, limits, CFF2_MAX_STACK, deep[:3], len(Pair._store(p.orig, "CFF2").VarRegionList.Region), len(Pair._store(p.inst, "CFF2").VarRegionList.Region)),
                           known_id=KNOWN_CFF2_STACK)
            exp = expected_triples(axes, limits)
            if down and all(e[0] == "pin" for e in exp.values()):
                if "CFF " not in p.inst or "CFF2" in p.inst:
                    r.fail("%s: full instance with downgradeCFF2 has tables %r" % (label, sorted(p.inst.keys())))
                    continue
            for loc in gen_locations(rnd, axes, exp, 6):
                compare_cff2(r, p, loc, label + " limits %r" % (limits,))
                cm = (p.orig.getBestCmap() or {}) if "cmap" in p.orig else {}
                texts = G.TEXTS if generated else ["".join(chr(c) for c in sorted(cm)[:12])]
                compare_metrics_and_shaping(r, p, loc, label + " limits %r" % (limits,), texts)
    r.sample({"fonts": [f[0][:40] for f in fonts]})
    return r


CORPUS_VFS = [
    "varLib/instancer/data/PartialInstancerTest-VF.ttx", "varLib/instancer/data/PartialInstancerTest2-VF.ttx",
    "varLib/instancer/data/PartialInstancerTest3-VF.ttx", "varLib/instancer/data/PartialInstancerTest4-VF.ttx",
    "varLib/instancer/data/3634-VF.ttx", "varLib/instancer/data/SinglePos.ttx",
    "varLib/data/master_ttx_varfont_ttf/Mutator_IUP.ttx", "varLib/data/master_ttx_varfont_ttf/SparseMasters-VF.ttx",
    "varLib/instancer/data/STATInstancerTest.ttx", "varLib/data/MutatorSans_All_Variable.ttx", "ttLib/data/I.ttf",
]


@check("C08")
def corpus_truetype_fonts(tier, rnd):
    """The corpus TrueType variable fonts (gvar/cvar/HVAR/MVAR/avar/GDEF/GPOS/STAT): seeded pins,
    ranges, moved defaults, mixes and full instances keep outlines, advances, metrics and shaping of
    the cmapped characters at every sampled location; tables describe the requested space."""
    from _common import REPO
    from fontTools.ttLib import TTFont
    r = Result("11 corpus variable fonts x seeded limits (mix/moved/range/pin/full) x 5 locations x all glyphs (max 60); distinct = (font, limits mode, kinds of limit)")
    modes = ["mix", "full", "moved", "range", "pin", "mix", "moved"]
    for fi, rel in enumerate(CORPUS_VFS):
        path = os.path.join(REPO, "Tests", rel)
        if not os.path.exists(path):
            continue
        if rel.endswith(".ttx"):
            f = TTFont(recalcTimestamp=False)
            f.importXML(path)
        else:
            f = TTFont(path)
        buf = io.BytesIO()
        f.save(buf)
        data = buf.getvalue()
        f = TTFont(io.BytesIO(data))
        axes = [(a.axisTag, a.minValue, a.defaultValue, a.maxValue) for a in f["fvar"].axes]
        cm = (f.getBestCmap() or {}) if "cmap" in f else {}
        text = "".join(chr(c) for c in sorted(cm)[:14])
        glyphs = f.getGlyphOrder()[:60]
        for li in range(6 if tier == "quick" else 40):
            mode = modes[(fi + li) % len(modes)]
            sub = axes if len(axes) <= 4 else rnd.sample(axes, 3)
            limits = gen_limits(rnd, sub, mode)
            if mode == "full":
                limits.update({t: None for t, _, _, _ in axes if t not in limits})
            kinds = tuple(sorted("none" if v is None else "pin" if isinstance(v, (int, float)) else str(len(v)) for v in limits.values()))
            r.case((rel, mode, kinds))
            p = _instantiate(r, data, limits, rel, optimize=bool(li % 2))
            if p is None:
                continue
            check_structure(r, p, limits, rel + " limits %r" % (limits,))
            exp = expected_triples(axes, limits)
            for loc in gen_locations(rnd, axes, exp, 5):
                if "glyf" in p.orig:
                    compare_outlines(r, p, loc, glyphs, rel + " limits %r" % (limits,), "HVAR" not in p.orig)
                compare_metrics_and_shaping(r, p, loc, rel + " limits %r" % (limits,), [text] if text else [])
    r.sample({"fonts": CORPUS_VFS})
    return r


@check("C08")
def mutator_full_instances(tier, rnd):
    """varLib.mutator.instantiateVariableFont (the older full instancer, still shipped and used by
    `fonttools varLib.mutator`): at random and corner locations of generated gvar fonts (sparse
    IUP-inferred deltas, several tents active at once, composites, avar) the static instance draws
    every glyph as the original does at that location and has no variation tables."""
    r = Result("seeded gvar fonts (1-3 axes, 0-5 random tents per glyph incl. sparse tuples, avar none/identity/random) x 6 full locations (corners, random interior); HarfBuzz outlines and advances of all glyphs; distinct = (n axes, avar mode, corner/interior)")
    n_fonts = 16 if tier == "quick" else 160
    for fi in range(n_fonts):
        n_axes = [2, 1, 3, 2][fi % 4]
        avar_mode = [None, "identity", "random"][fi % 3]
        data, info = make_gvar_font(rnd, n_axes, avar_mode)
        axes = info["axes"]
        for li in range(6):
            corner = li < 2
            loc = {t: (rnd.choice((lo, hi)) if corner else _uval(rnd, lo, hi)) for t, lo, de, hi in axes}
            label = "mutator, gvar font #%d axes %r avar %s" % (fi, axes, avar_mode)
            r.case((n_axes, avar_mode, corner))
            try:
                p = Pair(data, loc, engine="mutator", optimize=False)
            except Exception as e:
                r.fail("%s: mutator.instantiateVariableFont(%r) raised %s: %s" % (label, loc, type(e).__name__, str(e)[:200]))
                continue
            left = [t for t in ("fvar", "gvar", "avar", "HVAR", "MVAR", "cvar") if t in p.inst]
            if left:
                r.fail("%s: instance at %r still has %r" % (label, loc, left))
            compare_outlines(r, p, loc, p.order, label, True)
    return r
