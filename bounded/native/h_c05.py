"""C05: glyph outlines and advances reported through the glyph set are the font's true ones.

Oracle: HarfBuzz (uharfbuzz: draw_glyph_with_pen, get_glyph_h_advance, normalised coordinates),
an independent OpenType implementation, run on the same font bytes.  Both pen streams are reduced
by `canon` (written here, independent of fontTools.pens.basePen) to closed contours made of
elementary line / quadratic / cubic segments with explicit implied on-curve points and closing
lines; zero-length lines and contours without any segment are dropped, contours are compared
cyclically (the start point is representation).  TrueType outlines may differ from HarfBuzz by one
common horizontal shift of at most half a unit (fontTools rounds the left side bearing it aligns
xMin to) - everything else must agree to 0.02 units; advances must be within half a unit."""
import io
import os
from fractions import Fraction

from harness import check, Result
from _common import REPO

TOL = 0.02


# ------------------------------------------------------------------ canonical outlines
def _mid(a, b):
    return ((a[0] + b[0]) / 2, (a[1] + b[1]) / 2)


def canon(recording):
    """Pen recording -> list of contours; contour = list of segments (kind, p0, ..., pn)."""
    contours, segs, cur, start = [], None, None, None

    def flush(close):
        nonlocal segs
        if segs is not None:
            if close and cur != start:
                segs.append(("L", cur, start))
            # zero-length lines are representation; "zero" includes the 1e-5 residue that summing 16.16 operands in
            # float64 vs float32 leaves between the last point and the start point
            kept = [s for s in segs if not (s[0] == "L" and abs(s[1][0] - s[2][0]) < 1e-3 and abs(s[1][1] - s[2][1]) < 1e-3)]
            if kept:
                contours.append(kept)
        segs = None

    for op, args in recording:
        if op == "moveTo":
            flush(True)
            start = cur = args[0]
            segs = []
        elif op == "lineTo":
            segs.append(("L", cur, args[0]))
            cur = args[0]
        elif op == "curveTo":
            if len(args) != 3:
                raise ValueError("curveTo with %d points" % len(args))
            segs.append(("C", cur) + tuple(args))
            cur = args[2]
        elif op == "qCurveTo":
            pts = list(args)
            if pts[-1] is None:                       # closed contour without on-curve points
                flush(True)
                offs = pts[:-1]
                start = cur = _mid(offs[-1], offs[0])
                segs, pts = [], offs + [start]
            offs, end = pts[:-1], pts[-1]
            if not offs:
                segs.append(("L", cur, end))
            for i, o in enumerate(offs):
                nxt = end if i == len(offs) - 1 else _mid(o, offs[i + 1])
                segs.append(("Q", cur, o, nxt))
                cur = nxt
            cur = end
        elif op in ("closePath", "endPath"):
            flush(True)
        else:
            raise ValueError("unexpected pen call %s" % op)
    flush(True)
    return contours


def _seg_close(a, b, sh, tol):
    if a[0] != b[0] or len(a) != len(b):
        return False
    return all(abs(p[0] - sh[0] - q[0]) <= tol and abs(p[1] - sh[1] - q[1]) <= tol for p, q in zip(a[1:], b[1:]))


def outline_diff(A, B, tol=TOL, max_shift=0.0, free_y=False):
    """None if canonical outlines A (fontTools) and B (oracle) agree, else a short description.
    max_shift: A may be translated as a whole by up to that much horizontally (and, with free_y,
    by anything vertically) - only used for the lsb alignment and to classify known findings."""
    if len(A) != len(B):
        return "%d contours, oracle has %d" % (len(A), len(B))
    if not A:
        return None
    shifts = [(0.0, 0.0)]
    if max_shift:
        p = A[0][0][1]
        shifts = sorted({(round(p[0] - s[1][0], 6), round(p[1] - s[1][1], 6) if free_y else 0.0) for s in B[0]
                         if abs(p[0] - s[1][0]) <= max_shift + tol}) or shifts
    last = None
    for sh in shifts:
        last = None
        for ci, (a, b) in enumerate(zip(A, B)):
            if len(a) != len(b):
                last = "contour %d has %d segments, oracle %d" % (ci, len(a), len(b))
                break
            n = len(a)
            if not any(all(_seg_close(a[i], b[(i + k) % n], sh, tol) for i in range(n)) for k in range(n)):
                last = "contour %d differs: %r vs oracle %r" % (ci, a[:3], b[:3])
                break
        if last is None:
            return None
    return last


class Oracle:
    """HarfBuzz view of a font given as bytes."""

    def __init__(self, data):
        import uharfbuzz as hb
        self.hb = hb
        self.face = hb.Face(data)
        self.font = hb.Font(self.face)

    def at(self, location):
        self.font.set_variations(dict(location or {}))
        return self

    def normalized(self):
        """normalised coordinates in 2.14 units (uharfbuzz reports them as floats k/16384)"""
        return [round(c * 16384) for c in self.font.get_var_coords_normalized()]

    def outline(self, gid):
        from fontTools.pens.recordingPen import RecordingPen
        pen = RecordingPen()
        self.font.draw_glyph_with_pen(gid, pen)
        return canon(pen.value)

    def advance(self, gid):
        return self.font.get_glyph_h_advance(gid)

    def v_advance(self, gid):
        return -self.font.get_glyph_v_advance(gid)


def ft_outline(glyphSet, name):
    from fontTools.pens.recordingPen import DecomposingRecordingPen
    pen = DecomposingRecordingPen(glyphSet)
    glyphSet[name].draw(pen)
    return canon(pen.value)


def exact_phantom_advance(font, name, coords):
    """Exact (Fraction) unrounded advance = hmtx advance + gvar deltas of the two horizontal phantom points at the
    normalised location {tag: Fraction}; None if the advance does not come from gvar.  Only used to recognise a
    rounding tie: float32 (HarfBuzz) and float64 (fontTools) may legitimately round x.4999/x.5001 differently."""
    from fractions import Fraction as F
    if "gvar" not in font or "HVAR" in font:
        return None
    adv = F(font["hmtx"][name][0])
    for tv in font["gvar"].variations.get(name, []):
        s = F(1)
        for tag, (lo, pk, hi) in tv.axes.items():
            v, lo, pk, hi = coords.get(tag, F(0)), F(lo), F(pk), F(hi)
            if pk == 0 or v == pk:
                continue
            if v <= lo or v >= hi:
                s = F(0)
                break
            s *= (v - lo) / (pk - lo) if v < pk else (hi - v) / (hi - pk)
        dl, dr = tv.coordinates[-4], tv.coordinates[-3]
        adv += s * ((dr[0] if dr else 0) - (dl[0] if dl else 0))
    return adv


def compare_glyph(glyphSet, font, oracle, name, tol=TOL, max_shift=0.0, vertical=False, quantised=False, exact_adv=None):
    """Problems for one glyph of `glyphSet` (fontTools) against the oracle already set to the same
    location.  The advance is read before and after drawing; both must be right: within half a unit
    (+tol) of HarfBuzz's rounded advance.  quantised=True (user-space locations, which HarfBuzz
    quantises to 2.14 before use): two ROUNDED advances may differ by one unit, because a sub-unit
    difference before rounding can straddle .5 - the exact rounding is pinned by the normalised pass."""
    P = []
    gid = font.getGlyphID(name)
    g = glyphSet[name]
    before = g.width
    try:
        A = ft_outline(glyphSet, name)
    except Exception as ex:
        anchored = "glyf" in font and font["glyf"][name].isComposite() and any(hasattr(c, "firstPt") for c in font["glyf"][name].components)
        known = "[known:C05-point-matched-component-draw-fails]" if anchored and isinstance(ex, AttributeError) else ""
        return [known + "draw raised %s: %s" % (type(ex).__name__, ex)]
    d = outline_problem(font, name, A, oracle.outline(gid), tol, max_shift)
    if d:
        P.append(d)
    g2 = glyphSet[name]
    g2.draw(_NullPen())
    want = oracle.advance(gid)
    if quantised and g2.width == int(g2.width) and before == int(before):
        tol = tol + 0.5
    if exact_adv is not None and abs(g2.width - want) == 1 and abs(exact_adv - (min(g2.width, want) + 0.5)) < 2e-3:
        want = g2.width                    # the exact advance is a rounding tie (x.5 +- 0.002): either neighbour is right
    if abs(g2.width - want) > 0.5 + tol:
        P.append("advance after draw %r, oracle %r" % (g2.width, want))
    elif abs(before - want) > 0.5 + tol:
        # known finding: without HVAR a glyf glyph reports the DEFAULT hmtx advance until it has been drawn once
        known = "[known:C05-advance-before-draw-is-default]" if before == font["hmtx"][name][0] and "HVAR" not in font else ""
        P.append("%sadvance before draw %r, oracle %r (after drawing: %r)" % (known, before, want, g2.width))
    if vertical and g2.height is not None and abs(g2.height - oracle.v_advance(gid)) > 0.5 + tol:
        P.append("vertical advance %r, oracle %r" % (g2.height, oracle.v_advance(gid)))
    return P


def outline_problem(font, name, A, B, tol, max_shift):
    """'' if fontTools' outline A equals the oracle's B, else a message, prefixed with '[known:<id>]' when the
    difference is exactly an instance of a known finding."""
    d = outline_diff(A, B, tol, max_shift)
    if not d:
        return ""
    composite = "glyf" in font and font["glyf"][name].isComposite()
    known = ""
    if composite and outline_diff(A, B, tol, 1e9) is None:
        # right except for ONE common horizontal shift: fontTools aligns xMin to the left side bearing for simple
        # glyphs only (Glyph.draw ignores `offset` for composites)
        known = "[known:C05-composite-not-shifted-to-lsb]"
    return known + "outline: " + d


def drawable(font, name):
    """False for composites with point-matched components: fontTools cannot draw them at all (known finding,
    reported by the location checks)."""
    g = font["glyf"][name]
    return not (g.isComposite() and any(hasattr(c, "firstPt") for c in g.components))


class _NullPen:
    def moveTo(self, *a): pass
    def lineTo(self, *a): pass
    def curveTo(self, *a): pass
    def qCurveTo(self, *a): pass
    def closePath(self): pass
    def endPath(self): pass
    def addComponent(self, *a, **k): pass


# ------------------------------------------------------------------ font sources
def _ttx_bytes(path):
    from fontTools.ttLib import TTFont
    if not path.endswith(".ttx"):
        return open(path, "rb").read()
    f = TTFont(recalcTimestamp=False)
    f.importXML(path)
    buf = io.BytesIO()
    f.save(buf)
    return buf.getvalue()


STATIC_TT = ["Tests/ttx/data/TestTTF.ttf", "Tests/ttLib/data/Test-Regular.ttf", "Tests/ttLib/data/issue2824.ttf",
             "Tests/qu2cu/data/NotoSansArabic-Regular.quadratic.subset.ttf", "Tests/voltLib/data/Nutso.ttf",
             "Tests/ttLib/data/bogus_post_format_1.ttf", "Tests/ttLib/tables/data/graphite/graphite_tests.ttf",
             "Tests/ttLib/data/I.ttf"]
STATIC_CFF = ["Tests/ttx/data/TestOTF.otf", "Tests/subset/data/Lobster.subset.otf", "Tests/ttLib/data/IBMPlexSans-Bold.subset.otf",
              "Tests/ttLib/tables/data/aots/base.otf", "Tests/ttLib/data/TestVGID-Regular.otf", "Tests/cffLib/data/CFFToCFF2-1.otf",
              "Tests/ttLib/data/I.otf", "Tests/cffLib/data/LinLibertine_RBI.otf"]
VAR_TT = ["Tests/varLib/instancer/data/PartialInstancerTest-VF.ttx", "Tests/varLib/instancer/data/PartialInstancerTest2-VF.ttx",
          "Tests/varLib/instancer/data/PartialInstancerTest3-VF.ttx", "Tests/varLib/instancer/data/PartialInstancerTest4-VF.ttx",
          "Tests/varLib/data/master_ttx_varfont_ttf/Mutator_IUP.ttx", "Tests/varLib/data/master_ttx_varfont_ttf/SparseMasters-VF.ttx",
          "Tests/subset/data/TestGVAR.ttx", "Tests/subset/data/TestHVVAR.ttx", "Tests/fontBuilder/data/test_var.ttf.ttx",
          "Tests/varLib/instancer/data/3634-VF.ttx", "Tests/varLib/data/MutatorSans_All_Variable.ttx", "Tests/ttLib/data/I.ttf",
          "Tests/ttLib/tables/data/Amstelvar-avar2.subset.ttf"]
VAR_CFF2 = ["Tests/varLib/data/master_ttx_varfont_otf/TestCFF2VF.ttx", "Tests/varLib/instancer/data/CFF2Instancer-VF-1.ttx",
            "Tests/varLib/instancer/data/CFF2Instancer-VF-2.ttx", "Tests/varLib/instancer/data/CFF2Instancer-VF-3.ttx",
            "Tests/cffLib/data/TestSparseCFF2VF.ttx", "Tests/cffLib/data/TestCFF2Widths.ttx",
            "Tests/fontBuilder/data/test_var.otf.ttx", "Tests/ttLib/data/I.otf"]


def _paths(lst):
    return [os.path.join(REPO, p) for p in lst if os.path.exists(os.path.join(REPO, p))]


def locations_for(font, rnd, n):
    """User-space locations: default, each axis extreme, all-min / all-max corners, out of range on
    both sides (must clamp), and n random ones (some leaving axes out)."""
    axes = font["fvar"].axes
    locs = [{}, {a.axisTag: a.defaultValue for a in axes}, {a.axisTag: a.minValue for a in axes}, {a.axisTag: a.maxValue for a in axes},
            {a.axisTag: a.maxValue + 1000 for a in axes}, {a.axisTag: a.minValue - 1000 for a in axes}]
    for a in axes:
        locs.append({a.axisTag: a.minValue})
        locs.append({a.axisTag: a.maxValue})
    for _ in range(n):
        loc = {}
        for a in axes:
            if rnd.random() < .85:
                loc[a.axisTag] = rnd.choice((rnd.uniform(a.minValue, a.maxValue), rnd.uniform(a.minValue, a.maxValue),
                                             round(rnd.uniform(a.minValue, a.maxValue)), (a.minValue + a.defaultValue) / 2,
                                             (a.maxValue + a.defaultValue) / 2))
        locs.append(loc)
    return locs


def gen_tt_font(rnd, variable=True, lsb_is_xmin=True, naxes=None, with_avar=None):
    """Random TrueType font as bytes: simple glyphs whose contours start off-curve / have no on-curve
    point / have one or two points, composites (shifted, scaled, 2x2, nested, USE_MY_METRICS with
    consistent metrics, SCALED_COMPONENT_OFFSET, point-matched); if variable: 1..3 axes, optional avar,
    gvar tuples on corners / intermediates with explicit and inferred (None) deltas, deltas on the
    component offsets and on the phantom points."""
    from fontTools.fontBuilder import FontBuilder
    from fontTools.ttLib import newTable
    from fontTools.ttLib.tables._g_l_y_f import Glyph, GlyphComponent, GlyphCoordinates
    from fontTools.ttLib.tables.TupleVariation import TupleVariation
    from fontTools.ttLib.tables import ttProgram

    glyphs, order = {}, []

    def simple(contours):
        g = Glyph()
        pts = [p for c in contours for p in c]
        g.numberOfContours = len(contours)
        g.coordinates = GlyphCoordinates([(x, y) for x, y, _ in pts])
        g.flags = bytearray(int(on) for _, _, on in pts)
        g.endPtsOfContours, n = [], 0
        for c in contours:
            n += len(c)
            g.endPtsOfContours.append(n - 1)
        g.program = ttProgram.Program()
        g.program.fromBytecode(b"")
        return g

    def comp(base, x=0, y=0, m=None, flags=0x4, pts=None):
        c = GlyphComponent()
        c.glyphName, c.flags = base, flags
        if pts:
            c.firstPt, c.secondPt = pts
        else:
            c.x, c.y = x, y
        if m:
            c.transform = [[m[0] / 16384, m[1] / 16384], [m[2] / 16384, m[3] / 16384]]
        return c

    def composite(*cs):
        g = Glyph()
        g.numberOfContours, g.components = -1, list(cs)
        return g

    def add(name, g):
        glyphs[name] = g
        order.append(name)

    rc = lambda: rnd.randint(-200, 900)
    add(".notdef", simple([[(50, 0, 1), (50, 700, 1), (450, 700, 1), (450, 0, 1)]]))
    add("space", Glyph())
    add("s0", simple([[(rc(), rc(), 1) for _ in range(rnd.randint(3, 6))]]))
    add("s1", simple([[(rc(), rc(), i % 2) for i in range(rnd.choice((4, 6, 8)))],               # starts off-curve
                      [(rc(), rc(), 0) for _ in range(rnd.randint(3, 5))]]))                     # no on-curve point
    add("s2", simple([[(rc(), rc(), rnd.random() < .5) for _ in range(rnd.randint(2, 9))] for _ in range(rnd.randint(1, 3))]))
    add("s3", simple([[(rc(), rc(), 1), (rc(), rc(), 1)], [(rc(), rc(), 1)],                      # two-point, one-point contours
                      [(rc(), rc(), 1), (rc(), rc(), 0), (rc(), rc(), 0), (rc(), rc(), 1)]]))
    f2 = lambda: rnd.choice((16384, 8192, -16384, 12000, rnd.randint(-20000, 20000)))
    add("c_shift", composite(comp("s0", rc(), rc()), comp("s1", rc(), rc())))
    add("c_scale", composite(comp("s2", rc(), rc(), (lambda s: (s, 0, 0, s))(f2())), comp("s0", rc(), rc(), (f2(), 0, 0, f2()))))
    add("c_2x2", composite(comp("s1", rc(), rc(), (f2(), f2(), f2(), f2()))))
    add("c_nest", composite(comp("c_shift", rc(), rc()), comp("s3", rc(), rc(), (lambda s: (s, 0, 0, s))(f2()))))
    add("c_nest2", composite(comp("c_nest", rc(), rc(), (f2(), f2(), f2(), f2())), comp("c_scale", 10, -10)))
    add("c_mym", composite(comp("s0", 0, 0, flags=0x204), comp("s2", rc(), rc())))
    add("c_unscaledoff", composite(comp("s0", rc(), rc(), (f2(), 0, 0, f2()), flags=0x1004)))
    add("c_scaledoff", composite(comp("s0", rc(), rc(), (f2(), 0, 0, f2()), flags=0x804)))
    add("c_anchor", composite(comp("s0", rc(), rc()), comp("s2", pts=(rnd.randrange(len(glyphs["s0"].coordinates)), 0))))

    fb = FontBuilder(unitsPerEm=1000, isTTF=True)
    fb.setupGlyphOrder(order)
    fb.setupCharacterMap({0x41 + i: n for i, n in enumerate(order[1:])})
    fb.setupGlyf(glyphs)
    hm = {}
    for n in order:
        g = glyphs[n]
        xmin = g.xMin if g.numberOfContours else 0
        hm[n] = (rnd.randint(200, 1200), xmin if lsb_is_xmin or not g.numberOfContours else xmin + rnd.randint(-80, 80))
    hm["c_mym"] = hm["s0"] if lsb_is_xmin else (hm["s0"][0], hm["c_mym"][1])
    fb.setupHorizontalMetrics(hm)
    fb.setupHorizontalHeader(ascent=800, descent=-200)
    fb.setupVerticalMetrics({n: (rnd.randint(500, 1200), rnd.randint(-50, 100)) for n in order})
    fb.setupVerticalHeader(ascent=500, descent=-500)
    fb.setupNameTable({"familyName": "C05", "styleName": "Gen"})
    fb.setupOS2()
    fb.setupPost()
    if variable:
        naxes = naxes or rnd.randint(1, 3)
        axes = [("wght", 100, 400, 900, "Weight"), ("wdth", 50, 100, 200, "Width"), ("ZZZZ", 0, 0, 1000, "Z")][:naxes]
        fb.setupFvar(axes, [])
        tags = [a[0] for a in axes]
        if with_avar if with_avar is not None else rnd.random() < .6:
            avar = fb.font["avar"] = newTable("avar")
            for t in tags:
                seg = {-1.0: -1.0, 0.0: 0.0, 1.0: 1.0}
                for _ in range(rnd.randint(0, 3)):
                    k = rnd.choice((-12288, -8192, -4096, 4096, 8192, 12288)) / 16384
                    seg[k] = max(-1.0, min(1.0, k + rnd.choice((-2048, 2048, -3000, 1000)) / 16384))
                ks = sorted(seg)
                if all(seg[a] <= seg[b] for a, b in zip(ks, ks[1:])):
                    avar.segments[t] = seg
                else:
                    avar.segments[t] = {-1.0: -1.0, 0.0: 0.0, 1.0: 1.0}

        def region():
            reg = {}
            for t, (lo, hi) in zip(tags, ((-1, 1), (-1, 1), (0, 1))):
                kind = rnd.random()
                if kind < .45:
                    reg[t] = rnd.choice(((0.0, 1.0, 1.0), (0.0, 0.5, 1.0), (0.5, 1.0, 1.0)) if lo == 0 or rnd.random() < .5
                                        else ((-1.0, -1.0, 0.0), (-1.0, -0.5, 0.0)))
            if not reg:
                reg[tags[0]] = (0.0, 1.0, 1.0)
            return reg

        def deltas(n, sparse, zero=()):
            out = [(rnd.randint(-60, 60), rnd.randint(-60, 60)) if not sparse or rnd.random() < .5 else None for _ in range(n)]
            if out and all(d is None for d in out):
                out[0] = (rnd.randint(-60, 60), rnd.randint(-60, 60))
            ph = [(rnd.randint(-30, 30), 0), (rnd.randint(-80, 80), 0), (0, rnd.randint(-20, 20)), (0, rnd.randint(-20, 20))]
            return out + [p if rnd.random() < .7 else None for p in ph]

        variations = {}
        for n in order:
            g = glyphs[n]
            npts = len(g.components) if g.isComposite() else (len(g.coordinates) if g.numberOfContours > 0 else 0)
            variations[n] = [TupleVariation(region(), deltas(npts, sparse=(not g.isComposite()) and rnd.random() < .6))
                             for _ in range(rnd.randint(1, 3))]
        # USE_MY_METRICS: keep the composite's phantom deltas equal to those of the component it takes its metrics from
        variations["c_mym"] = [TupleVariation(dict(tv.axes), [(rnd.randint(-40, 40), rnd.randint(-40, 40)) for _ in range(2)] +
                                              [d if d is not None else (0, 0) for d in tv.coordinates[-4:]]) for tv in variations["s0"]]
        for tv in variations["s0"]:
            tv.coordinates[-4:] = [d if d is not None else (0, 0) for d in tv.coordinates[-4:]]
        fb.setupGvar(variations)
    fb.font.recalcTimestamp = False
    buf = io.BytesIO()
    fb.font.save(buf)
    return buf.getvalue()


# ------------------------------------------------------------------ checks
def _report(r, what, name, problems):
    for msg in problems:
        kid = None
        if msg.startswith("[known:"):
            kid, msg = msg[7:msg.index("]")], msg[msg.index("]") + 1:]
        r.fail("%s glyph %s: %s" % (what, name, msg), known_id=kid)


@check("C05")
def truetype_default_location(tier, rnd):
    """TrueType fonts (static, and variable ones at their default location): outline through the
    pen protocol equals HarfBuzz's up to representation (and the common lsb shift), hmtx advance and
    vmtx advance equal HarfBuzz's.  Cubic-glyf and VARC fonts are not covered (HarfBuzz oracle)."""
    from fontTools.ttLib import TTFont
    r = Result("every glyph of corpus TrueType fonts + generated fonts (off-curve starts, no on-curve contours, 1/2-point "
               "contours, scaled / 2x2 / nested / USE_MY_METRICS / scaled-offset / point-matched composites, lsb == or != xMin); "
               "distinct = (font, glyph kind)")
    sources = [(os.path.basename(p), _ttx_bytes(p)) for p in _paths(STATIC_TT)]
    for i in range(60 if tier == "quick" else 1000):
        data = gen_tt_font(rnd, variable=False, lsb_is_xmin=bool(i % 2))
        sources.append(("gen-%d-%s" % (i, "lsb=xMin" if i % 2 else "lsb!=xMin"), data))
    for name, data in sources:
        font = TTFont(io.BytesIO(data))
        oracle = Oracle(data)
        gs = font.getGlyphSet()
        for gn in font.getGlyphOrder():
            g = font["glyf"][gn]
            r.case((name.split("-")[0] if name.startswith("gen") else name, gn if name.startswith("gen") else g.numberOfContours < 0))
            _report(r, name, gn, compare_glyph(gs, font, oracle, gn, max_shift=0.5, vertical="vmtx" in font))
    r.sample({"fonts": len(sources)})
    return r


@check("C05")
def truetype_variable_locations(tier, rnd):
    """Variable TrueType fonts at default, axis extremes, corners, out-of-range (clamped) and random
    user-space locations, with and without avar (incl. avar 2): (1) TTFont.normalizeLocation agrees
    with HarfBuzz's normalised coordinates to the 2.14 quantum times the steepest avar slope,
    (2) every glyph's outline and advance from getGlyphSet(location=...) equal HarfBuzz's.  A fresh
    glyph set is taken for every location from ONE TTFont object."""
    from fontTools.ttLib import TTFont
    r = Result("corpus variable TrueType fonts (gvar with IUP, HVAR, avar 1/2, composites) and generated ones (1..3 axes, "
               "random avar, intermediate and corner regions, sparse deltas, component-offset and phantom deltas) x ~14+ "
               "locations; distinct = (font, location class, composite?)")
    sources = [(os.path.basename(p), _ttx_bytes(p)) for p in _paths(VAR_TT)]
    for i in range(36 if tier == "quick" else 200):
        data = gen_tt_font(rnd, variable=True, lsb_is_xmin=bool(i % 3))
        sources.append(("gen-%d" % i, data))
    nloc = 8 if tier == "quick" else 20
    for name, data in sources:
        font = TTFont(io.BytesIO(data))
        oracle = Oracle(data)
        tags = [a.axisTag for a in font["fvar"].axes]
        slope = 1.0
        if "avar" in font:
            for seg in font["avar"].segments.values():
                ks = sorted(seg)
                slope = max([slope] + [(seg[b] - seg[a]) / (b - a) for a, b in zip(ks, ks[1:]) if b > a])
        big = "MutatorSans" in name
        for li, loc in enumerate(locations_for(font, rnd, nloc)):
            oracle.at(loc)
            hbn = oracle.normalized()
            hbn = hbn + [0] * (len(tags) - len(hbn))
            ftn = font.normalizeLocation(loc)
            cls = "default" if li < 2 else "extreme" if li < 4 else "clamped" if li < 6 else "axis-end" if li < 6 + 2 * len(tags) else "random"
            r.case((name.split("-")[0], cls, "norm"))
            avar2 = "avar" in font and getattr(font["avar"], "majorVersion", 1) >= 2
            for t, h in zip(tags, hbn):
                if abs(ftn.get(t, 0) * 16384 - h) > (1.0 + 0.5 * slope + (2 if avar2 else 0)):
                    r.fail("%s: normalizeLocation(%r)[%s] = %r (%.2f/16384), HarfBuzz %d/16384" % (name, loc, t, ftn.get(t, 0), ftn.get(t, 0) * 16384, h))
            # outlines at exactly HarfBuzz's normalised location (no quantisation noise) and through the user-space path
            gsN = font.getGlyphSet(location={t: h / 16384 for t, h in zip(tags, hbn)}, normalized=True)
            gsU = font.getGlyphSet(location=loc)
            names = font.getGlyphOrder()
            if big and tier == "quick":
                names = rnd.sample(names, 12)
            for gn in names:
                comp = font["glyf"][gn].isComposite()
                r.case((name.split("-")[0], cls, comp))
                exact = exact_phantom_advance(font, gn, {t: Fraction(h, 16384) for t, h in zip(tags, hbn)})
                _report(r, "%s @%r (normalised)" % (name, loc), gn, compare_glyph(gsN, font, oracle, gn, max_shift=0.5, exact_adv=exact))
                _report(r, "%s @%r (user space)" % (name, loc), gn,
                        compare_glyph(gsU, font, oracle, gn, tol=0.25 if not avar2 else 0.6, max_shift=0.75, quantised=True))
    r.sample({"fonts": len(sources), "locations_per_font": nloc + 6})
    return r


@check("C05")
def variable_composites_history_independence(tier, rnd):
    """Drawing must not depend on history: from ONE TTFont object, glyphs (composites whose component
    offsets have gvar deltas, their components, simple glyphs) are drawn repeatedly at several
    locations in shuffled order, re-using glyph sets and glyph objects; every single result must equal
    (a) the result from a freshly opened font and (b) HarfBuzz.  Afterwards the default-location
    outlines and the compiled glyf/gvar tables must be unchanged."""
    from fontTools.ttLib import TTFont
    r = Result("generated variable fonts + corpus fonts with variable composites; per font a shuffled schedule of "
               "(location, glyph) draws with repeats, interleaving locations; distinct = (font, glyph, position of the draw in "
               "the schedule mod 4)")
    sources = [(os.path.basename(p), _ttx_bytes(p)) for p in _paths(VAR_TT) if "MutatorSans" not in p]
    for i in range(30 if tier == "quick" else 300):
        data = gen_tt_font(rnd, variable=True, lsb_is_xmin=True)
        sources.append(("gen-%d" % i, data))
    for name, data in sources:
        shared = TTFont(io.BytesIO(data))
        oracle = Oracle(data)
        names = [n for n in shared.getGlyphOrder() if drawable(shared, n)]
        locs = locations_for(shared, rnd, 3)
        locs = [locs[0]] + rnd.sample(locs[2:], min(4, len(locs) - 2))
        before = {n: ft_outline(shared.getGlyphSet(), n) for n in names}
        sets = {}
        schedule = [(li, n) for li in range(len(locs)) for n in names] * 2
        rnd.shuffle(schedule)
        schedule = schedule[: (60 if tier == "quick" else 400)]
        for k, (li, gn) in enumerate(schedule):
            loc = locs[li]
            r.case((name.split("-")[0], gn if name.startswith("gen") else shared["glyf"][gn].isComposite(), k % 4))
            if k % 3 == 0 or li not in sets:
                sets[li] = shared.getGlyphSet(location=loc)          # sometimes a new glyph set, sometimes a re-used one
            got = ft_outline(sets[li], gn)
            fresh_font = TTFont(io.BytesIO(data))
            fresh = ft_outline(fresh_font.getGlyphSet(location=loc), gn)
            d = outline_diff(got, fresh, 1e-9)
            if d:
                r.fail("%s: draw #%d of %s at %r differs from the same draw on a freshly opened font: %s" % (name, k, gn, loc, d))
            oracle.at(loc)
            d = outline_problem(shared, gn, got, oracle.outline(shared.getGlyphID(gn)), 0.25, 0.75)
            _report(r, "%s: draw #%d at %r vs HarfBuzz," % (name, k, loc), gn, [d] if d else [])
        for n in names:
            d = outline_diff(ft_outline(shared.getGlyphSet(), n), before[n], 1e-9)
            if d:
                r.fail("%s: default outline of %s changed after drawing at other locations: %s" % (name, n, d))
        if _font_state(shared) != _font_state(TTFont(io.BytesIO(data))):
            r.fail("%s: glyf / gvar / hmtx content of the shared TTFont changed after drawing variable glyphs" % name)
    r.sample({"fonts": len(sources)})
    return r


def _font_state(font):
    """Outline-relevant in-memory content of a TrueType font, for 'drawing has no side effects'."""
    st = {"hmtx": dict(font["hmtx"].metrics)}
    for n in font.getGlyphOrder():
        g = font["glyf"][n]
        if g.isComposite():
            st[n] = [(c.glyphName, getattr(c, "x", None), getattr(c, "y", None), getattr(c, "firstPt", None),
                      getattr(c, "secondPt", None), repr(getattr(c, "transform", None)), c.flags) for c in g.components]
        elif g.numberOfContours > 0:
            st[n] = (list(g.coordinates), list(g.endPtsOfContours), bytes(g.flags))
        if g.numberOfContours:             # (an empty glyph may acquire a 0,0,0,0 box when drawn: harmless, never compiled)
            st[n, "box"] = tuple(getattr(g, a, None) for a in ("xMin", "yMin", "xMax", "yMax"))
    if "gvar" in font:
        for n, tvs in font["gvar"].variations.items():
            st[n, "gvar"] = [(sorted(tv.axes.items()), list(tv.coordinates)) for tv in tvs]
    return st


def gen_cff_font(rnd, nglyphs, tier):
    """CFF font as bytes whose charstrings are written operator by operator (not through a pen): every
    path operator incl. the alternating and multi-curve forms, flex / hflex / hflex1 / flex1 with
    |dx| == |dy|, |dx| > |dy| and |dx| < |dy|, fractional operands, local and global subroutines."""
    from fontTools.fontBuilder import FontBuilder
    from fontTools.misc.psCharStrings import T2CharString

    v = lambda: rnd.choice((rnd.randint(-120, 120), rnd.randint(-120, 120), rnd.randint(-1200, 1200) / 8, 0, rnd.randint(-3, 3)))

    def flex1():
        d = [v() for _ in range(10)]
        mode = rnd.choice(("eq", "eq-neg", "gt", "lt", "any"))
        sx, sy = sum(d[0::2][:4]), sum(d[1::2][:4])       # first four deltas; choose the fifth to force the case
        if mode.startswith("eq"):
            d[8] = rnd.randint(-50, 50) - sx
            tot = sx + d[8]
            d[9] = (tot if mode == "eq" else -tot) - sy      # |dx| == |dy|
        elif mode == "gt":
            d[8], d[9] = 300 - sx, 10 - sy
        elif mode == "lt":
            d[8], d[9] = 10 - sx, -300 - sy
        return d + [v(), "flex1"]

    def ops():
        k = rnd.randrange(16)
        n = rnd.randint(1, 3)
        if k == 0:
            return [x for _ in range(n) for x in (v(), v())] + ["rlineto"]
        if k == 1:
            return [v() for _ in range(rnd.randint(1, 5))] + ["hlineto"]
        if k == 2:
            return [v() for _ in range(rnd.randint(1, 5))] + ["vlineto"]
        if k == 3:
            return [v() for _ in range(6 * n)] + ["rrcurveto"]
        if k == 4:
            return ([v()] if rnd.random() < .5 else []) + [v() for _ in range(4 * n)] + ["hhcurveto"]
        if k == 5:
            return ([v()] if rnd.random() < .5 else []) + [v() for _ in range(4 * n)] + ["vvcurveto"]
        if k in (6, 7):
            return [v() for _ in range(4 * n)] + ([v()] if rnd.random() < .5 else []) + [("hvcurveto", "vhcurveto")[k - 6]]
        if k == 8:
            return [v() for _ in range(6 * n + 2)] + ["rcurveline"]
        if k == 9:
            return [v() for _ in range(2 * n + 6)] + ["rlinecurve"]
        if k == 10:
            return [v() for _ in range(12)] + [rnd.randint(0, 100), "flex"]
        if k == 11:
            return [v() for _ in range(7)] + ["hflex"]
        if k == 12:
            return [v() for _ in range(9)] + ["hflex1"]
        if k in (13, 14):
            return flex1()
        return ["SUBR"]

    gsubrs = [T2CharString(program=[v(), v(), "rlineto", v(), v(), v(), v(), v(), v(), "rrcurveto", "return"]),
              T2CharString(program=flex1() + ["return"])]
    lsubrs = [T2CharString(program=[v() for _ in range(7)] + ["hflex", "return"]),
              T2CharString(program=[v(), "hlineto", -107, "callgsubr", "return"])]
    order = [".notdef", "space"] + ["g%d" % i for i in range(nglyphs)]
    cs = {}
    for name in order:
        prog = [rnd.randint(-100, 300)] if rnd.random() < .5 else []          # width (relative to nominalWidthX)
        if name != "space":
            for c in range(rnd.randint(1, 3)):
                prog += rnd.choice(([v(), v(), "rmoveto"], [v(), "hmoveto"], [v(), "vmoveto"]))
                for _ in range(rnd.randint(1, 4)):
                    o = ops()
                    if o == ["SUBR"]:
                        o = rnd.choice(([-107, "callsubr"], [-106, "callsubr"], [-107, "callgsubr"], [-106, "callgsubr"]))
                    prog += o
        cs[name] = T2CharString(program=prog + ["endchar"])
    fb = FontBuilder(unitsPerEm=1000, isTTF=False)
    fb.setupGlyphOrder(order)
    fb.setupCharacterMap({0x41 + i: n for i, n in enumerate(order[1:])})
    fb.setupCFF("C05-Gen", {"FullName": "C05 Gen"}, cs, {"defaultWidthX": 500, "nominalWidthX": 400})
    top = fb.font["CFF "].cff.topDictIndex[0]
    from fontTools.cffLib import SubrsIndex
    top.Private.Subrs = SubrsIndex()
    for s in lsubrs:
        top.Private.Subrs.append(s)
    for s in gsubrs:
        fb.font["CFF "].cff.GlobalSubrs.append(s)
    for c in list(cs.values()) + lsubrs + gsubrs:
        c.private, c.globalSubrs = top.Private, fb.font["CFF "].cff.GlobalSubrs
    fb.setupHorizontalMetrics({n: (rnd.randint(0, 1200), rnd.randint(-50, 50)) for n in order})
    fb.setupHorizontalHeader(ascent=800, descent=-200)
    fb.setupNameTable({"familyName": "C05", "styleName": "Gen"})
    fb.setupOS2()
    fb.setupPost()
    buf = io.BytesIO()
    fb.font.save(buf)
    return buf.getvalue()


@check("C05")
def cff_charstring_operators(tier, rnd):
    """CFF (Type 2) charstrings: outline equals HarfBuzz's CFF interpreter for every path operator,
    the four flex operators (flex1 with |dx| == |dy|, >, <), subroutine calls and fractional
    operands; advance equals hmtx (HarfBuzz).  Corpus CFF fonts at the default location as well."""
    from fontTools.ttLib import TTFont
    r = Result("generated charstrings: random sequences over 15 operator forms x operand classes (ints, eighths, zeros) x "
               "engineered flex1 sums; corpus CFF/CFF2 fonts; distinct = (source, operators used in the glyph)")
    sources = []
    for p in _paths(STATIC_CFF):
        if "LinLibertine" in p and tier == "quick":
            continue
        sources.append((os.path.basename(p), _ttx_bytes(p)))
    for i in range(200 if tier == "quick" else 3000):
        sources.append(("gen-%d" % i, gen_cff_font(rnd, 12, tier)))
    for name, data in sources:
        font = TTFont(io.BytesIO(data))
        oracle = Oracle(data)
        gs = font.getGlyphSet()
        table = font["CFF2"] if "CFF2" in font else font["CFF "]
        css = table.cff.topDictIndex[0].CharStrings
        for gn in font.getGlyphOrder():
            if name.startswith("gen"):
                css[gn].decompile()
                key = ("gen", tuple(sorted({t for t in css[gn].program if isinstance(t, str)})))
            else:
                key = (name, gn)
            r.case(key)
            _report(r, name, gn, compare_glyph(gs, font, oracle, gn))
    r.sample({"fonts": len(sources)})
    return r


def gen_cff2_var_font(rnd):
    """CFF2 variable font as bytes: 1..2 axes (optionally avar), 2..4 regions (corners, intermediates, negative side),
    charstrings written by hand in which every operand group goes through 'blend'."""
    from fontTools.fontBuilder import FontBuilder
    from fontTools.misc.psCharStrings import T2CharString
    from fontTools.ttLib import newTable

    naxes = rnd.randint(1, 2)
    axes = [("wght", 100, 400, 900, "Weight"), ("wdth", 50, 100, 200, "Width")][:naxes]
    tags = [a[0] for a in axes]
    pool = [{"wght": (0.0, 1.0, 1.0)}, {"wght": (-1.0, -1.0, 0.0)}, {"wght": (0.0, 0.5, 1.0)}, {"wght": (0.5, 1.0, 1.0)}]
    if naxes == 2:
        pool += [{"wdth": (0.0, 1.0, 1.0)}, {"wdth": (-1.0, -1.0, 0.0)}, {"wght": (0.0, 1.0, 1.0), "wdth": (0.0, 1.0, 1.0)},
                 {"wght": (-1.0, -1.0, 0.0), "wdth": (0.0, 0.5, 1.0)}]
    regions = rnd.sample(pool, rnd.randint(2, min(4, len(pool))))
    k = len(regions)
    v = lambda: rnd.choice((rnd.randint(-150, 150), rnd.randint(-150, 150), rnd.randint(-1200, 1200) / 8))
    dl = lambda: rnd.choice((0, rnd.randint(-40, 40), rnd.randint(-320, 320) / 8))

    def blended(n, op):
        return [v() for _ in range(n)] + [dl() for _ in range(n * k)] + [n, "blend", op]

    order = [".notdef", "space"] + ["g%d" % i for i in range(8)]
    cs = {}
    for name in order:
        prog = []
        if name != "space":
            for _ in range(rnd.randint(1, 2)):
                prog += blended(2, "rmoveto")
                for _ in range(rnd.randint(1, 4)):
                    prog += rnd.choice((lambda: blended(2 * rnd.randint(1, 2), "rlineto"), lambda: blended(6, "rrcurveto"),
                                        lambda: blended(rnd.randint(1, 3), "hlineto"), lambda: blended(4, "hhcurveto"),
                                        lambda: blended(4, "vhcurveto"), lambda: [v(), v(), "rlineto"]))()
        cs[name] = T2CharString(program=prog)
    fb = FontBuilder(unitsPerEm=1000, isTTF=False)
    fb.setupGlyphOrder(order)
    fb.setupCharacterMap({0x41 + i: n for i, n in enumerate(order[1:])})
    fb.setupNameTable({"familyName": "C05", "styleName": "GenCFF2"})
    fb.setupFvar(axes, [])
    if rnd.random() < .5:
        avar = fb.font["avar"] = newTable("avar")
        for t in tags:
            avar.segments[t] = {-1.0: -1.0, -0.5: -0.75, 0.0: 0.0, 0.25: 0.5, 1.0: 1.0} if rnd.random() < .7 else {-1.0: -1.0, 0.0: 0.0, 1.0: 1.0}
    fb.setupCFF2(cs, regions=regions)
    fb.setupHorizontalMetrics({n: (rnd.randint(0, 1200), rnd.randint(-50, 50)) for n in order})
    fb.setupHorizontalHeader(ascent=800, descent=-200)
    fb.setupOS2()
    fb.setupPost()
    buf = io.BytesIO()
    fb.font.save(buf)
    return buf.getvalue()


@check("C05")
def cff2_variable_locations(tier, rnd):
    """CFF2 variable fonts: at default, extremes, clamped and random user-space locations the blended
    outline and the advance (hmtx + HVAR) equal HarfBuzz's; normalizeLocation agrees with HarfBuzz;
    glyph sets for all locations come from ONE TTFont and are revisited in shuffled order."""
    from fontTools.ttLib import TTFont
    r = Result("corpus CFF2 variable fonts + generated ones (hand-written blend operands over 2..4 regions, 1..2 axes, avar) "
               "x (6 + 2 per axis + random) locations, each location visited twice in shuffled order; "
               "distinct = (font, location class)")
    nloc = 8 if tier == "quick" else 40
    sources = [(os.path.basename(p), _ttx_bytes(p)) for p in _paths(VAR_CFF2)]
    for i in range(30 if tier == "quick" else 300):
        sources.append(("gen-%d" % i, gen_cff2_var_font(rnd)))
    for name, data in sources:
        font = TTFont(io.BytesIO(data))
        oracle = Oracle(data)
        tags = [a.axisTag for a in font["fvar"].axes]
        locs = locations_for(font, rnd, nloc)
        visits = list(enumerate(locs)) * 2
        rnd.shuffle(visits)
        for li, loc in visits:
            cls = "default" if li < 2 else "extreme" if li < 4 else "clamped" if li < 6 else "axis-end" if li < 6 + 2 * len(tags) else "random"
            oracle.at(loc)
            hbn = oracle.normalized() + [0] * len(tags)
            ftn = font.normalizeLocation(loc)
            for t, h in zip(tags, hbn):
                if abs(ftn.get(t, 0) * 16384 - h) > 2.5:
                    r.fail("%s: normalizeLocation(%r)[%s] = %r, HarfBuzz %d/16384" % (name, loc, t, ftn.get(t, 0), h))
            gsN = font.getGlyphSet(location={t: h / 16384 for t, h in zip(tags, hbn)}, normalized=True)
            gsU = font.getGlyphSet(location=loc)
            for gn in font.getGlyphOrder():
                r.case((name.split("-")[0], cls))
                _report(r, "%s @%r (normalised)" % (name, loc), gn, compare_glyph(gsN, font, oracle, gn, tol=0.03))
                _report(r, "%s @%r (user space)" % (name, loc), gn, compare_glyph(gsU, font, oracle, gn, tol=0.25, quantised=True))
    r.sample({"fonts": len(sources), "locations": nloc + 6})
    return r
