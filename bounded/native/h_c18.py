"""C18: merging fonts (fontTools.merge.Merger) preserves each input's characters.  The merged
TTFont is saved to bytes; HarfBuzz nominal glyphs, outlines, advances and shaping per character
are compared with each input font on its own."""
import io
import os
import shutil
import tempfile

from harness import check, Result
from _common import REPO

TESTS = os.path.join(REPO, "Tests")


# ----------------------------------------------------------------------------- font helpers

def _save(font):
    b = io.BytesIO()
    font.save(b)
    return b.getvalue()


def _open(data):
    from fontTools.ttLib import TTFont

    return TTFont(io.BytesIO(data))


_BYTES = {}


def _corpus_bytes(rel):
    from fontTools.ttLib import TTFont

    if rel not in _BYTES:
        path = os.path.join(TESTS, rel)
        if rel.endswith(".ttx"):
            f = TTFont()
            f.importXML(path)
            _BYTES[rel] = _save(f)
        else:
            # binaries are recompiled table by table as well: HarfBuzz rejects the GPOS of
            # Test-Regular.ttf as stored, and would accept it only once the merger has rewritten it
            f = TTFont(path)
            f.ensureDecompiled()
            _BYTES[rel] = _save(f)
    return _BYTES[rel]


def _merge(datas, drop=()):
    """Merger().merge on files in a scratch directory -> (merged TTFont, its bytes)."""
    from fontTools.merge import Merger, Options

    d = tempfile.mkdtemp(prefix="c18_")
    try:
        paths = []
        for i, data in enumerate(datas):
            p = os.path.join(d, "in%d.%s" % (i, "otf" if data[:4] == b"OTTO" else "ttf"))
            with open(p, "wb") as fh:
                fh.write(data)
            paths.append(p)
        opts = Options()
        if drop:
            opts.drop_tables = list(drop)
        merged = Merger(options=opts).merge(paths)
        return merged, _save(merged)
    finally:
        shutil.rmtree(d, ignore_errors=True)


class _HB:
    """HarfBuzz view of one font: nominal glyph, outline, advance, shaping."""

    def __init__(self, data):
        import uharfbuzz as hb

        self.data = data
        self.face = hb.Face(hb.Blob(data))
        self.font = hb.Font(self.face)
        self._outl = {}

    def chars(self):
        return set(self.face.unicodes)

    def outline(self, gid):
        from fontTools.pens.recordingPen import RecordingPen

        if gid not in self._outl:
            pen = RecordingPen()
            self.font.draw_glyph_with_pen(gid, pen)
            self._outl[gid] = tuple((op, tuple(pts)) for op, pts in pen.value)
        return self._outl[gid]

    def glyph(self, gid):
        """What the glyph looks like: (outline, advance) - the identity used across fonts."""
        return (self.outline(gid), self.font.get_glyph_h_advance(gid))

    def char(self, u):
        gid = self.font.get_nominal_glyph(u)
        return None if gid is None else self.glyph(gid)

    def shape(self, text, feats, script="latn", direction="ltr"):
        import uharfbuzz as hb

        buf = hb.Buffer()
        buf.add_codepoints(list(text))
        buf.direction = direction
        buf.script = hb.ot_tag_to_script(script) if script != "DFLT" else "Zyyy"
        buf.language = "und"
        hb.shape(self.font, buf, feats)
        return [(self.glyph(i.codepoint), i.cluster, p.x_advance, p.y_advance, p.x_offset, p.y_offset)
                for i, p in zip(buf.glyph_infos, buf.glyph_positions)]


def _cff_widths(data):
    """{glyph name: advance encoded in the CFF charstring} (None for non-CFF fonts)."""
    from fontTools.misc.psCharStrings import T2WidthExtractor

    f = _open(data)
    if "CFF " not in f:
        return None
    td = f["CFF "].cff.topDictIndex[0]
    out = {}
    for name in td.charset:
        c = td.CharStrings[name]
        c.decompile()
        ex = T2WidthExtractor(getattr(c.private, "Subrs", []), td.GlobalSubrs, c.private.nominalWidthX, c.private.defaultWidthX)
        ex.execute(c)
        out[name] = ex.width
    return out


_CONSISTENT = {}


def _cff_consistent(data):
    """CFF input whose charstring-encoded advances agree with its hmtx (AOTS fonts do not)."""
    key = hash(data)
    if key not in _CONSISTENT:
        w = _cff_widths(data)
        hm = _open(data)["hmtx"]
        _CONSISTENT[key] = w is not None and all(w[n] == hm[n][0] for n in w)
    return _CONSISTENT[key]


# ------------------------------------------------------------------------- generated fonts

def _build(spec):
    """spec: flavour 'ttf'|'cff', glyphs [(name, code point|None, (x0, y0, x1, y1)|('comp', base, dx, dy)|None, advance)],
    fea (feature file text or None), nominal/default (CFF widths), upem."""
    from fontTools.fontBuilder import FontBuilder
    from fontTools.pens.ttGlyphPen import TTGlyphPen
    from fontTools.pens.t2CharStringPen import T2CharStringPen

    ttf = spec["flavour"] == "ttf"
    glyphs = [(".notdef", None, (50, 0, 450, 700), 500)] + list(spec["glyphs"])
    order = [g[0] for g in glyphs]
    fb = FontBuilder(spec.get("upem", 1000), isTTF=ttf)
    fb.setupGlyphOrder(order)
    fb.setupCharacterMap({g[1]: g[0] for g in glyphs if g[1] is not None})
    nominal, default = spec.get("nominal", 0), spec.get("default", 0)
    drawn = {}
    for name, _, shape, adv in glyphs:
        if ttf:
            pen = TTGlyphPen(dict.fromkeys(order))
        else:
            pen = T2CharStringPen(None if adv == default and not spec.get("explicit_width") else adv - nominal, None)
        if shape is not None and shape[0] == "comp":
            if ttf:
                pen.addComponent(shape[1], (1, 0, 0, 1, shape[2], shape[3]))
            else:       # CFF has no components: draw the base rectangle shifted
                x0, y0, x1, y1 = dict((g[0], g[2]) for g in glyphs)[shape[1]]
                shape = (x0 + shape[2], y0 + shape[3], x1 + shape[2], y1 + shape[3])
        if shape is not None and shape[0] != "comp":
            x0, y0, x1, y1 = shape
            pen.moveTo((x0, y0))
            pen.lineTo((x0, y1))
            pen.lineTo((x1, y1))
            pen.lineTo((x1, y0))
            pen.closePath()
        drawn[name] = pen
    if ttf:
        glyf = {}
        for name in order:
            glyf[name] = drawn[name].glyph()
        fb.setupGlyf(glyf)
    else:
        fb.setupCFF("C18-%s" % spec.get("family", "X"), {}, {n: drawn[n].getCharString() for n in order},
                    {"nominalWidthX": nominal, "defaultWidthX": default})
    fb.setupHorizontalMetrics({g[0]: (g[3], 0) for g in glyphs})
    fb.setupHorizontalHeader(ascent=800, descent=-200)
    fb.setupNameTable({"familyName": "C18 " + spec.get("family", "X"), "styleName": "Regular"})
    fb.setupOS2(sTypoAscender=800, sTypoDescender=-200, usWinAscent=900, usWinDescent=250)
    fb.setupPost()
    if spec.get("fea"):
        from fontTools.feaLib.builder import addOpenTypeFeaturesFromString

        addOpenTypeFeaturesFromString(fb.font, spec["fea"])
    return _save(fb.font)


def _shape_for(font_index, k, rnd):
    """A rectangle that no other (font, glyph) pair uses."""
    return (10 + font_index, -3 * (k % 5), 60 + 11 * k + font_index, 120 + 9 * k + 2 * font_index)


def _check_chars(r, label, inputs, merged_font, merged_data, known=None):
    """The contract on characters: unique names, union cmap, first-supporting-input outline+advance,
    CFF charstring width == hmtx."""
    order = merged_font.getGlyphOrder()
    if len(set(order)) != len(order):
        dup = sorted(n for n in set(order) if order.count(n) > 1)
        r.fail("%s: merged glyph order has duplicate names %r" % (label, dup[:4]), known_id=known)
    reloaded = _open(merged_data)
    stores_names = "CFF " in reloaded or reloaded["post"].formatType == 2
    if stores_names and reloaded.getGlyphOrder() != order:
        r.fail("%s: glyph names of the saved font differ from the merger's glyph order (a duplicate was renamed on reading): %r" % (
            label, [(a, b) for a, b in zip(order, reloaded.getGlyphOrder()) if a != b][:4]), known_id=known)
    m = _HB(merged_data)
    views = [_HB(d) for d in inputs]
    union = set()
    for v in views:
        union |= v.chars()
    if m.chars() != union:
        r.fail("%s: merged cmap has %d characters, union of inputs %d (missing %r, extra %r)" % (
            label, len(m.chars()), len(union), sorted(union - m.chars())[:4], sorted(m.chars() - union)[:4]), known_id=known)
    for u in sorted(union & m.chars()):
        first = next(i for i, v in enumerate(views) if u in v.chars())
        want, got = views[first].char(u), m.char(u)
        if want != got:
            what = "advance" if want[0] == got[0] else "outline"
            r.fail("%s: U+%04X has the %s %r in the merged font but %r in input %d, the first that supports it" % (
                label, u, what, got[1] if what == "advance" else got[0][:2], want[1] if what == "advance" else want[0][:2], first), known_id=known)
            break
    if len(set(order)) == len(order):       # (with duplicate names the tables below cannot even be addressed)
        w = _cff_widths(merged_data)
        if w is not None and all(_cff_consistent(d) for d in inputs):
            hm = reloaded["hmtx"]
            bad = [n for n in w if n not in hm.metrics or w[n] != hm[n][0]]
            if bad:
                r.fail("%s: charstring of %s encodes advance %r, hmtx says %r" % (label, bad[0], w[bad[0]], hm.metrics.get(bad[0])), known_id=known)
    return m, views


def _char_scenario(rnd, flavour, n_fonts, disjoint):
    """Specs of n fonts over a-z: disjoint or independently drawn character sets; glyph names
    'g<k>' / single letters that clash between fonts; earlier fonts also own glyphs literally named
    '<name>.1' / '<name>.2' / '<name>.1.1'; duplicates of a character are identical (outline and
    advance) or different; TrueType fonts contain composites of clashing glyphs."""
    pool = list(range(0x61, 0x7B))
    rnd.shuffle(pool)
    first_look = {}
    specs = []
    for fi in range(n_fonts):
        if disjoint:
            chars = [pool.pop() for _ in range(rnd.randint(2, 6))]
        else:
            chars = rnd.sample(range(0x61, 0x70), rnd.randint(3, 8))
        style = rnd.choice(("g", "letter", "mixed"))
        glyphs, used = [], set()
        for k, u in enumerate(chars):
            name = "g%d" % k if style == "g" or (style == "mixed" and k % 2) else chr(u)
            if name in used:
                name = "uni%04X" % u
            used.add(name)
            look = (_shape_for(fi, k, rnd), rnd.choice((300, 500, 600, 640)) + fi)
            if u in first_look and rnd.random() < 0.5:
                look = first_look[u]            # identical duplicate
            first_look.setdefault(u, look)
            glyphs.append((name, u, look[0], look[1]))
        # unencoded glyphs whose names look like the merger's own renaming scheme
        base_names = [g[0] for g in glyphs]
        for j, suffix in enumerate(rnd.sample([".1", ".2", ".1.1", ".3"], rnd.randint(0, 3))):
            name = rnd.choice(base_names) + suffix
            if name not in used:
                used.add(name)
                glyphs.append((name, None, _shape_for(fi, 20 + j, rnd), 410 + j))
        for j in range(rnd.randint(0, 2)):      # a composite / shifted copy of a clashing glyph, encoded in the PUA
            base = rnd.choice([g for g in glyphs if g[2] is not None and g[2][0] != "comp"])
            name = "comp%d" % j
            glyphs.append((name, 0xE000 + 16 * fi + j, ("comp", base[0], 30 + j, 15), 700 + fi))
        rnd.shuffle(glyphs)
        nominal, default = rnd.choice(((0, 0), (500, 600), (107, 1000), (630, 500)))
        if rnd.random() < 0.5:                   # the default width is the advance of some glyphs of THIS font
            default = rnd.choice([g[3] for g in glyphs])
        # explicit_width: charstrings spell their width out even when it equals defaultWidthX (legal, and common
        # in fonts whose Private dict was edited after the charstrings were written)
        specs.append({"flavour": flavour, "glyphs": glyphs, "family": "F%d" % fi, "nominal": nominal, "default": default,
                      "explicit_width": rnd.random() < 0.5})
    return specs


@check("C18")
def merged_characters_keep_first_input_glyph(tier, rnd):
    """For 2..4 generated fonts of one flavour (TrueType with composites, or CFF with differing
    nominalWidthX/defaultWidthX), with disjoint or overlapping character sets, clashing glyph
    names (also against glyphs literally named '<name>.1', '<name>.2', '<name>.1.1' in any input)
    and identical or differing duplicates: the merged font, saved and read back, has unique glyph
    names that survive the round trip, its cmap is the union of the inputs', every character maps
    (HarfBuzz nominal glyph) to a glyph with the outline and advance it has in the FIRST input
    supporting it, and CFF charstrings encode the hmtx advance."""
    r = Result("seeded scenarios: flavour x 2..4 fonts x disjoint/overlapping cmaps x name styles x dotted names x duplicates; distinct = (flavour, n fonts, disjoint, name multiset class)")
    n = 60 if tier == "quick" else 600
    for i in range(n):
        flavour = ("ttf", "cff")[i % 2]
        n_fonts = 2 + (i // 2) % 3
        disjoint = bool((i // 6) % 2)
        specs = _char_scenario(rnd, flavour, n_fonts, disjoint)
        names = [g[0] for s in specs for g in s["glyphs"]]
        r.case((flavour, n_fonts, disjoint, sum(1 for x in names if "." in x), len(names) - len(set(names))))
        datas = [_build(s) for s in specs]
        label = "scenario %d (%s, %d fonts, %s): glyph names %s" % (i, flavour, n_fonts, "disjoint" if disjoint else "overlapping", [[g[0] for g in s["glyphs"]] for s in specs])
        try:
            merged, mdata = _merge(datas)
        except Exception as e:
            r.fail("%s: merge raised %s: %s" % (label, type(e).__name__, str(e)[:200]))
            continue
        _check_chars(r, label, datas, merged, mdata)
    r.sample({"scenarios": n, "last_names": [[g[0] for g in s["glyphs"]] for s in specs]})
    return r


@check("C18")
def merged_names_unique_with_dotted_names(tier, rnd):
    """Exhaustive over the name patterns that interfere with the merger's '<name>.<n>' renaming:
    every input owns a non-empty subset of {X, X.1, X.2, X.1.1} (15 subsets), every ordered pair
    of inputs (and triples: all in the thorough tier, a seeded sample otherwise), disjoint
    characters, alternating TrueType / CFF.  Names in the merged font must be unique (also after
    save + reload) and every character must keep the outline and advance of its own glyph."""
    import itertools

    r = Result("all ordered pairs of the 15 non-empty subsets of {X, X.1, X.2, X.1.1} (exhaustive) + triples (all / sample); distinct = tuple of subsets")
    names = ["X", "X.1", "X.2", "X.1.1"]
    subsets = [c for k in range(1, 5) for c in itertools.combinations(names, k)]
    combos = list(itertools.product(subsets, repeat=2))
    triples = list(itertools.product(subsets, repeat=3))
    combos += triples if tier != "quick" else rnd.sample(triples, 120)
    built = {}
    for i, combo in enumerate(combos):
        r.case(combo)
        flavour = ("ttf", "cff")[i % 2]
        datas = []
        for fi, subset in enumerate(combo):
            key = (flavour, fi, subset)
            if key not in built:
                glyphs = [(n, 0x61 + 4 * fi + names.index(n), _shape_for(fi, names.index(n), rnd), 400 + 10 * names.index(n) + fi) for n in subset]
                built[key] = _build({"flavour": flavour, "glyphs": glyphs, "family": "N%d" % fi, "nominal": 100 * fi, "default": 400})
            datas.append(built[key])
        label = "inputs with glyph names %r (%s)" % (combo, flavour)
        try:
            merged, mdata = _merge(datas)
        except Exception as e:
            r.fail("%s: merge raised %s: %s" % (label, type(e).__name__, str(e)[:200]))
            continue
        _check_chars(r, label, datas, merged, mdata)
    r.exhaustive = tier != "quick"
    r.sample({"combos": len(combos), "example": combos[37]})
    return r


def _layout_spec(rnd, fi, flavour, first_char, layout="both"):
    """A font over its own 10 letters + 2 combining marks, glyph names that clash with every other
    generated font, and a random feature file: single / ligature / chained-context substitutions,
    pair kerning, mark attachment with a mark filtering set, and a chained-context positioning
    lookup inside `useExtension` that calls helper lookups which no feature references."""
    bases = ["g%d" % k for k in range(10)]
    glyphs = [(n, first_char + k, _shape_for(fi, k, rnd), rnd.choice((400, 520, 610)) + fi) for k, n in enumerate(bases)]
    marks = ["mk0", "mk1"]
    for k, n in enumerate(marks):
        glyphs.append((n, 0x300 + 2 * fi + k, _shape_for(fi, 12 + k, rnd), 0))
    for k, n in enumerate(("lig", "alt0", "alt1")):
        glyphs.append((n, None, _shape_for(fi, 15 + k, rnd), 700 + 10 * k + fi))
    rnd.shuffle(glyphs)
    b = rnd.sample(bases, 10)
    v = lambda: rnd.choice((-90, -40, -15, 20, 55, 130))
    an = lambda: "<anchor %d %d>" % (rnd.randrange(0, 500), rnd.randrange(300, 800))
    L = ["languagesystem DFLT dflt;", "languagesystem latn dflt;"]
    L.append("markClass mk0 %s @TOP; markClass mk1 %s @TOP;" % (an(), an()))
    L.append("table GDEF { GlyphClassDef [%s alt0 alt1], [lig], [mk0 mk1], ; } GDEF;" % " ".join(bases))
    sub = layout in ("both", "gsub")
    pos = layout in ("both", "gpos")
    if sub:
        L.append("lookup SS { sub %s by alt0; sub %s by alt1; } SS;" % (b[0], b[1]))
        L.append("feature liga { sub %s %s by lig; sub %s %s %s by lig; } liga;" % (b[2], b[3], b[2], b[4], b[5]))
        L.append("feature calt { lookup CSUB%s { sub %s' lookup SS %s; sub %s %s' lookup SS; } CSUB; } calt;" % (
            rnd.choice(("", " useExtension")), b[0], b[6], b[7], b[1]))
        L.append("feature ss01 { sub %s by %s; } ss01;" % (b[8], b[9]))
    if pos:
        L.append("lookup POSA%s { pos %s <%d 0 %d 0>; pos %s <0 %d 0 0>; } POSA;" % (rnd.choice(("", " useExtension")), b[4], v(), v(), b[5], v()))
        L.append("lookup POSB { pos %s <0 %d %d 0>; } POSB;" % (b[5], v(), v()))
        L.append("feature kern { pos %s %s %d; pos %s %s %d; pos %s %s %d; pos [%s %s] [%s %s] %d; } kern;" % (
            b[0], b[1], v(), b[2], b[3], v(), b[0], b[4], v(), b[6], b[7], b[8], b[9], v()))
        L.append("feature kern { lookup CPOS useExtension { pos %s' lookup POSA %s' lookup POSB; pos %s %s' lookup POSA; } CPOS; } kern;" % (b[4], b[5], b[9], b[4]))
        L.append("feature mark { lookup MK { lookupflag UseMarkFilteringSet [mk0 mk1]; pos base %s %s mark @TOP; pos base %s %s mark @TOP; } MK; } mark;" % (b[0], an(), b[5], an()))
        L.append("feature mkmk { pos mark mk0 %s mark @TOP; } mkmk;" % an())
    nominal, default = rnd.choice(((0, 0), (500, 600), (107, 1000)))
    return {"flavour": flavour, "glyphs": glyphs, "family": "L%d" % fi, "fea": "\n".join(L) if layout != "none" else None,
            "nominal": nominal, "default": default,
            # marks are only put into test texts of fonts with their own GPOS mark feature: without
            # one HarfBuzz synthesizes mark positions, which is shaper fallback and not font data
            "chars": [first_char + k for k in range(10)] + ([0x300 + 2 * fi, 0x301 + 2 * fi] if pos else []),
            "triggers": [[first_char + bases.index(x) for x in t] for t in (
                b[0:2], b[2:4], [b[2], b[4], b[5]], [b[0], b[6]], [b[7], b[1]], [b[4], b[5]], [b[9], b[4]], [b[0], b[4]], [b[6], b[8]], [b[7], b[9]])]
            + ([[first_char + bases.index(b[0]), 0x300 + 2 * fi], [first_char + bases.index(b[5]), 0x301 + 2 * fi, 0x300 + 2 * fi]] if pos else [])}


def _feature_tags(data):
    f = _open(data)
    tags = set()
    for t in ("GSUB", "GPOS"):
        if t in f and f[t].table.FeatureList:
            tags |= {str(fr.FeatureTag) for fr in f[t].table.FeatureList.FeatureRecord}
    return {t: True for t in sorted(tags)}


def _texts_for(spec, rnd, n_random):
    chars = spec["chars"]
    texts = [[c] for c in chars] + [list(t) for t in spec["triggers"]]
    texts += [[x, y] for x in chars[:10] for y in chars[:10]]
    for _ in range(n_random):
        texts.append([rnd.choice(chars) for _ in range(rnd.randint(3, 6))])
        texts.append(rnd.choice(spec["triggers"]) + rnd.choice(spec["triggers"]))
    return texts


def _check_shaping(r, label, specs, datas, m, views, rnd, n_random, known=None):
    """Text in one input's characters shapes in the merged font as in that input alone."""
    for i, (spec, data, view) in enumerate(zip(specs, datas, views)):
        feats = _feature_tags(data)
        for direction in ("ltr", "rtl"):
            for t in _texts_for(spec, rnd, n_random):
                want = view.shape(t, feats, direction=direction)
                got = m.shape(t, feats, direction=direction)
                if want != got:
                    r.fail("%s: text %s of input %d (%s) shapes to %r alone but %r in the merged font" % (
                        label, ["U+%04X" % c for c in t], i, direction, [(x[0][1],) + x[1:] for x in want], [(x[0][1],) + x[1:] for x in got]), known_id=known)
                    return


@check("C18")
def merged_disjoint_inputs_shape_alone(tier, rnd):
    """2..4 generated fonts (TrueType or CFF) with DISJOINT character sets, clashing glyph names
    and independent random feature files - or no layout tables, or only GSUB, or only GPOS - among
    them chained-context positioning lookups wrapped in Extension (type 9) subtables that call
    helper lookups no feature references, mark filtering sets and extension GSUB lookups: the
    character contract of merged_characters_keep_first_input_glyph holds and every text in one
    input's characters (all singles and pairs, lookup triggers, random strings; both directions;
    all of that input's features on) gets the same glyphs (by outline), clusters, advances and
    offsets from the merged font as from that input alone."""
    r = Result("seeded scenarios: flavour x 2..4 fonts x per-font layout in {both, gsub, gpos, none} x random rules; distinct = (flavour, layouts)")
    n = 30 if tier == "quick" else 200
    for i in range(n):
        flavour = ("ttf", "cff")[i % 2]
        n_fonts = 2 + (i // 2) % 3
        layouts = [rnd.choice(("both", "both", "both", "gpos", "gsub", "none")) for _ in range(n_fonts)]
        if i < 4:
            layouts = ["both"] * n_fonts
        r.case((flavour, tuple(layouts)))
        specs = [_layout_spec(rnd, fi, flavour, 0x61 + 12 * fi if fi < 2 else 0x100 + 12 * fi, layouts[fi]) for fi in range(n_fonts)]
        datas = [_build(s) for s in specs]
        label = "scenario %d (%s, layouts %s)" % (i, flavour, layouts)
        try:
            merged, mdata = _merge(datas)
        except Exception as e:
            r.fail("%s: merge raised %s: %s" % (label, type(e).__name__, str(e)[:200]))
            continue
        m, views = _check_chars(r, label, datas, merged, mdata)
        _check_shaping(r, label, specs, datas, m, views, rnd, 15 if tier == "quick" else 60)
    r.sample({"scenarios": n, "feature_file": specs[-1]["fea"] or specs[0]["fea"]})
    return r


@check("C18")
def merged_font_merges_again(tier, rnd):
    """An input that is itself the saved result of an earlier merge (its glyph names already carry
    the merger's '.1' suffixes, its lookups and features are already renumbered): for generated
    fonts A, B, C with disjoint characters and clashing names, merge([merge([A, B]), C]) and
    merge([C, merge([A, B])]) satisfy the character contract with respect to their direct inputs
    AND with respect to A, B, C themselves, and A's, B's and C's texts shape as in A, B, C alone."""
    r = Result("seeded scenarios: flavour x layout per font x position of the pre-merged input; distinct = (flavour, layouts, position)")
    n = 12 if tier == "quick" else 100
    for i in range(n):
        flavour = ("ttf", "cff")[i % 2]
        layouts = ["both"] * 3 if i < 4 else [rnd.choice(("both", "both", "gpos", "gsub", "none")) for _ in range(3)]
        specs = [_layout_spec(rnd, fi, flavour, 0x61 + 12 * fi if fi < 2 else 0x100 + 12 * fi, layouts[fi]) for fi in range(3)]
        datas = [_build(s) for s in specs]
        label = "scenario %d (%s, layouts %s)" % (i, flavour, layouts)
        try:
            _, ab = _merge(datas[:2])
        except Exception as e:
            r.fail("%s: merge([A, B]) raised %s: %s" % (label, type(e).__name__, str(e)[:200]))
            continue
        for position in ("first", "last"):
            r.case((flavour, tuple(layouts), position))
            direct = [ab, datas[2]] if position == "first" else [datas[2], ab]
            flat = [0, 1, 2] if position == "first" else [2, 0, 1]
            lab = "%s, merge([%s])" % (label, "merge([A, B]), C" if position == "first" else "C, merge([A, B])")
            try:
                merged, mdata = _merge(direct)
            except Exception as e:
                r.fail("%s raised %s: %s" % (lab, type(e).__name__, str(e)[:200]))
                continue
            _check_chars(r, lab + " vs direct inputs", direct, merged, mdata)
            m, views = _check_chars(r, lab + " vs A, B, C", [datas[j] for j in flat], merged, mdata)
            _check_shaping(r, lab, [specs[j] for j in flat], [datas[j] for j in flat], m, views, rnd, 10 if tier == "quick" else 40)
    r.sample({"scenarios": n})
    return r


CORPUS_LISTS = [
    ["merge/data/CFFFont1.ttx", "merge/data/CFFFont2.ttx"],
    ["merge/data/CFFFont2.ttx", "merge/data/CFFFont1.ttx"],
    ["ttx/data/TestOTF.otf", "subset/data/Lobster.subset.otf", "subset/data/TestOTF-Regular.ttx"],
    ["subset/data/Lobster.subset.otf", "merge/data/CFFFont2.ttx", "subset/data/layout_scripts.ttx"],
    ["ttx/data/TestTTF.ttf", "ttLib/data/Test-Regular.ttf", "subset/data/TestTTF-Regular.ttx"],
    ["ttLib/data/Test-Regular.ttf", "varLib/data/master_ttx_interpolatable_ttf/TestFamily3-Regular.ttx", "subset/data/TestContextSubstFormat3.ttx",
     "subset/data/GPOS_SinglePos_no_value_issue_2312.ttx"],
    ["varLib/data/master_ttx_interpolatable_ttf/TestFamily-Master0.ttx", "varLib/data/master_ttx_interpolatable_ttf/TestFamily2-Master0.ttx",
     "varLib/data/master_ttx_interpolatable_ttf/SparseMasters-Regular.ttx"],
    ["varLib/data/master_vpal_test/master_vpal_test_0.ttx", "varLib/data/master_cff2/TestCFF2_Regular.ttx", "subset/data/test_cntrmask_CFF.ttx"],
]


def _merge_crash_id(e, datas):
    """GDEF version >= 1.2 without a MarkGlyphSetsDef (NULL offset) in some input, together with
    GSUB/GPOS lookups: layoutPostMerge dereferences the missing table."""
    if isinstance(e, AttributeError) and "'NoneType' object has no attribute 'Coverage'" in str(e):
        for d in datas:
            f = _open(d)
            if "GDEF" in f and f["GDEF"].table.Version >= 0x00010002 and getattr(f["GDEF"].table, "MarkGlyphSetsDef", None) is None:
                return "C18-gdef-1.2-without-markglyphsets"
    return None


_SCRIPTS = {}


def _scripts(data):
    """{'GSUB': script tags, 'GPOS': script tags} of a font."""
    key = hash(data)
    if key not in _SCRIPTS:
        f = _open(data)
        _SCRIPTS[key] = {t: ({str(sr.ScriptTag) for sr in f[t].table.ScriptList.ScriptRecord} if t in f and f[t].table.ScriptList else set())
                         for t in ("GSUB", "GPOS")}
    return _SCRIPTS[key]


def _shift_cmap(data, index):
    """The same corpus font with its characters renumbered into a block of its own (U+4E00 +
    0x1000 * index, in code point order), so that corpus fonts covering the same script can be
    merged as inputs with disjoint character sets."""
    f = _open(data)
    keep = [t for t in f["cmap"].tables if t.isUnicode() and t.format in (4, 12)]
    allchars = sorted({u for t in keep for u in t.cmap})
    new = {u: 0x4E00 + 0x1000 * index + k for k, u in enumerate(allchars[:0x1000])}
    for t in keep:
        t.cmap = {new[u]: g for u, g in t.cmap.items() if u in new}
    f["cmap"].tables = keep
    return _save(f)


@check("C18")
def merged_corpus_fonts(tier, rnd):
    """Ordered lists of 2..4 corpus fonts with 1000 units per em (the merge test fonts, CFF and
    TrueType test fonts, static masters with GDEF/GSUB/GPOS, AOTS lookup fonts): the character
    contract as they are (their character sets overlap), and - with the characters of input i
    renumbered into a block of its own so that the sets are disjoint - also the shaping contract: random texts in
    one input's characters, all its features on, shape as in that input alone."""
    r = Result("fixed corpus lists + seeded AOTS pairs/triples; distinct = tuple of fonts")
    lists = list(CORPUS_LISTS)
    d = os.path.join(TESTS, "ttLib", "tables", "data", "aots")
    aots = sorted("ttLib/tables/data/aots/" + f for f in os.listdir(d) if f.endswith(".otf") and f.startswith(("gsub", "gpos", "lookupflag")))
    for _ in range(6 if tier == "quick" else 80):
        lists.append(rnd.sample(aots, rnd.randint(2, 3)))
    for rels in lists:
        r.case(tuple(rels))
        datas = [_corpus_bytes(rel) for rel in rels]
        label = "merge(%s)" % [os.path.basename(x) for x in rels]
        try:
            merged, mdata = _merge(datas)
        except Exception as e:
            r.fail("%s raised %s: %s" % (label, type(e).__name__, str(e)[:200]), known_id=_merge_crash_id(e, datas))
            continue
        _check_chars(r, label, datas, merged, mdata)
        shifted = [_shift_cmap(dt, i) for i, dt in enumerate(datas)]
        try:
            merged, mdata = _merge(shifted)
        except Exception as e:
            r.fail("%s (disjoint characters) raised %s: %s" % (label, type(e).__name__, str(e)[:200]))
            continue
        m, views = _check_chars(r, label + " (disjoint characters)", shifted, merged, mdata)
        for i, (dt, view) in enumerate(zip(shifted, views)):
            feats = _feature_tags(dt)
            chars = sorted(view.chars())
            own = _scripts(dt)
            scripts = sorted((own["GSUB"] | own["GPOS"]) - {"DFLT"})[:2] or ["DFLT", "latn"]
            texts = [[c] for c in chars[:60]] + [[rnd.choice(chars) for _ in range(rnd.randint(2, 5))] for _ in range(150 if tier == "quick" else 600)]
            for script in scripts:
                # An input that reaches its lookups for this script only through the DFLT script
                # loses them when another input brings a real ScriptRecord for the script: the
                # merged ScriptList does not copy DFLT features into it.
                kid = None
                for tag in ("GSUB", "GPOS"):
                    if script not in own[tag] and "DFLT" in own[tag] and any(script in _scripts(o)[tag] for o in shifted if o is not dt):
                        kid = "C18-dflt-script-features-shadowed"
                # An input without GPOS gets HarfBuzz' fallback mark placement (offsets) only as long as
                # no other input brings a GPOS: shaper fallback, not font data - offsets not compared.
                no_gpos = "GPOS" not in _open(dt) and "GPOS" in merged
                for t in texts:
                    want, got = view.shape(t, feats, script=script), m.shape(t, feats, script=script)
                    if no_gpos:
                        want, got = [x[:4] for x in want], [x[:4] for x in got]
                    if want != got:
                        r.fail("%s (disjoint characters): text %s of input %d (script %s) shapes to %r alone but %r merged" % (
                            label, ["U+%04X" % c for c in t], i, script, [(x[0][1],) + x[1:] for x in want], [(x[0][1],) + x[1:] for x in got]), known_id=kid)
                        break
    r.sample({"lists": len(lists)})
    return r
