"""C01: recompiling any readable font is lossless and reaches a fixed point.

Every check runs the real TTFont / SFNTReader / SFNTWriter / TTCollection code on vendored corpus
fonts (Tests/**/data), on their container flavours and on fonts assembled from them.

Observables and conventions used by all checks
* "content" of a table = its canonical TTX dump (TTFont._tableToXML) plus the font's glyph order.
  Two file-level / encoding-level items are not content: head.checkSumAdjustment (a checksum of the
  whole file, recomputed by every writer) and the format-2 'post' string pool (<extraNames>, rebuilt
  from the glyph names, which ARE compared through the glyph order and the psNames mapping).
* fonts are opened with recalcBBoxes=False, recalcTimestamp=False: the property is about
  decompile/compile, not about the optional recalculation services.
* lazy modes: None, True (tables touched with font[tag] only), True followed by
  font.ensureDecompiled(), False.

Known findings on the pinned tree (tagged, not silenced):
* C01-Silf-linear-classes-generator: S__i_l_f.Classes.decompile stores generator objects in
  .linear; compile() does len() on them -> TypeError, so a loaded Graphite 'Silf' table can never
  be saved (Tests/ttLib/tables/data/graphite/graphite_tests.ttf).
* (not a finding) table_O_S_2f_2.compile rewrites usFirstCharIndex / usLastCharIndex from the cmap:
  these are redundant derived fields (cf. C04), so a difference confined to them is accepted.
"""
import contextlib
import io
import logging
import os
import re
import struct
import traceback

from harness import check, Result
from _common import REPO

FONT_EXT = (".ttf", ".otf", ".ttc", ".otc", ".woff", ".woff2")
MODES = (("None", None, False), ("True", True, False), ("True+ensure", True, True), ("False", False, False))

K_OS2 = "C01-OS2-char-index-recalc"
K_SILF = "C01-Silf-linear-classes-generator"

_CSA = re.compile(r'<checkSumAdjustment value="[^"]*"/>')
_OS2IDX = re.compile(r'<us(?:First|Last)CharIndex value="[^"]*"/>')
_EXTRA = re.compile(r"<extraNames>.*?</extraNames>", re.S)


@contextlib.contextmanager
def _quiet():
    prev = logging.root.manager.disable
    logging.disable(logging.CRITICAL)
    try:
        yield
    finally:
        logging.disable(prev)


def _corpus():
    """[(relative path, bytes, number of member fonts)] for every binary font under Tests/**/data."""
    out = []
    root = os.path.join(REPO, "Tests")
    for dp, dn, fn in os.walk(root):
        dn.sort()
        if "data" not in os.path.relpath(dp, root).split(os.sep):
            continue
        for f in sorted(fn):
            if f.lower().endswith(FONT_EXT):
                p = os.path.join(dp, f)
                with open(p, "rb") as fh:
                    data = fh.read()
                n = struct.unpack(">L", data[8:12])[0] if data[:4] == b"ttcf" else 1
                out.append((os.path.relpath(p, root), data, n))
    return out


def _select(corpus, tier, rnd, every):
    """all non-AOTS fonts + every k-th AOTS font (quick) / everything (thorough)."""
    if tier != "quick":
        return list(corpus)
    aots = [c for c in corpus if "aots" in c[0]]
    off = rnd.randrange(every)
    return [c for c in corpus if "aots" not in c[0]] + aots[off::every]


def _open(data, lazy=None, n=0):
    from fontTools.ttLib import TTFont
    return TTFont(io.BytesIO(data), lazy=lazy, fontNumber=n, recalcBBoxes=False, recalcTimestamp=False)


def _tags(font):
    return [t for t in font.keys() if t != "GlyphOrder"]


def _dump(font, tag):
    from fontTools.misc.xmlWriter import XMLWriter
    buf = io.StringIO()
    w = XMLWriter(buf, newlinestr="\n")
    font._tableToXML(w, tag)
    s = buf.getvalue()
    if tag == "head":
        s = _CSA.sub("", s)
    elif tag == "post":
        s = _EXTRA.sub("", s)
    return s


def _content(data, n=0):
    """{tag: dump} + glyph order of a file, decoded by a fresh non-lazy-recursing TTFont."""
    f = _open(data, None, n)
    d = {t: _dump(f, t) for t in _tags(f)}
    d["GlyphOrder"] = "\n".join(f.getGlyphOrder())
    return d


def _recompile(data, lazy, ensure, n=0):
    """load every table into its object form, save; returns the written bytes."""
    f = _open(data, lazy, n)
    if ensure:
        f.ensureDecompiled()
    for t in f.keys():
        f[t]
    out = io.BytesIO()
    f.save(out)
    f.close()
    return out.getvalue()


def _known_exc(e):
    tb = traceback.extract_tb(e.__traceback__)
    if isinstance(e, TypeError) and "generator" in str(e) and any(fr.filename.endswith("S__i_l_f.py") and fr.name == "compile" for fr in tb):
        return K_SILF
    return None


def _exc_text(e):
    tb = traceback.extract_tb(e.__traceback__)
    where = "%s:%d" % (os.path.basename(tb[-1].filename), tb[-1].lineno) if tb else "?"
    return "%s: %s @ %s" % (type(e).__name__, str(e)[:120], where)


def _compare_content(r, want, got, label):
    """want/got: {tag: dump}.  Reports every table whose decoded content differs."""
    ok = True
    if set(want) != set(got):
        r.fail("%s: table set changed: %s" % (label, sorted(set(want) ^ set(got))))
        ok = False
    for tag in want:
        if tag in got and want[tag] != got[tag]:
            if tag == "OS/2" and _OS2IDX.sub("", want[tag]) == _OS2IDX.sub("", got[tag]):
                # usFirstCharIndex/usLastCharIndex are REDUNDANT fields the library recomputes from the
                # cmap on every compile (like the fields C04 lists): not table content - accepted.
                pass
            else:
                ok = False
                a, b = want[tag].splitlines(), got[tag].splitlines()
                i = next((i for i, (x, y) in enumerate(zip(a, b)) if x != y), min(len(a), len(b)))
                r.fail("%s: table %r decodes differently after recompilation: line %d %r -> %r" % (label, tag, i, a[i:i + 1], b[i:i + 1]))
    return ok


def _head_neutral(data, woff2=False):
    """head bytes with checkSumAdjustment neutralised.  Through WOFF2 the writer itself has to
    decode and re-encode head (it must set flags bit 11), so there head is compared by its decoded
    fields, flags bit 11 aside, instead of byte for byte."""
    if woff2:
        from fontTools.ttLib import newTable
        t = newTable("head")
        t.decompile(data, None)
        d = dict(t.__dict__)
        d.pop("checkSumAdjustment", None)
        d["flags"] = d["flags"] & ~0x0800
        return sorted(d.items())
    d = bytearray(data)
    d[8:12] = b"\0\0\0\0"
    return bytes(d)


def _raw_tables(data, n=0):
    from fontTools.ttLib.sfnt import SFNTReader
    rd = SFNTReader(io.BytesIO(data), fontNumber=n) if data[:4] == b"ttcf" else SFNTReader(io.BytesIO(data))
    return rd, {t: rd[t] for t in rd.keys()}


# ------------------------------------------------------------------------------------------------

@check("C01")
def corpus_recompile_lossless_and_fixed_point(tier, rnd):
    """For every corpus file / TTC member x lazy mode: gen1 = save(load all tables) decodes to the same
    content as the original, for every table; gen2 = save(load all tables of gen1) == gen1 byte for
    byte.  Thorough tier repeats the fixed-point part with the default recalcBBoxes=True."""
    from fontTools.ttLib import TTFont
    r = Result("every binary font under Tests/**/data (sfnt, WOFF, WOFF2, each TTC member) x lazy in {None, True, True+ensureDecompiled, False} (quick tier: the ensureDecompiled mode on all non-AOTS and a third of the AOTS fonts); distinct = (file, member, mode)")
    with _quiet():
        for fi, (rel, data, members) in enumerate(_corpus()):
            for n in range(members):
                try:
                    want = _content(data, n)
                except Exception as e:
                    r.case((rel, n, "unreadable"))
                    continue            # not a file the library can open: outside the property
                verified = {}
                for mname, lazy, ensure in MODES:
                    if tier == "quick" and ensure and "aots" in rel and fi % 3:
                        continue        # quick tier: the 4th mode on every 3rd AOTS font only (time budget)
                    label = "%s#%d lazy=%s" % (rel, n, mname)
                    r.case((rel, n, mname))
                    try:
                        g1 = _recompile(data, lazy, ensure, n)
                    except Exception as e:
                        r.fail("%s: saving the fully loaded font raised %s" % (label, _exc_text(e)), known_id=_known_exc(e))
                        continue
                    if g1 not in verified:
                        try:
                            verified[g1] = _compare_content(r, want, _content(g1), label)
                        except Exception as e:
                            r.fail("%s: first-generation file cannot be decoded: %s" % (label, _exc_text(e)))
                            continue
                    try:
                        g2 = _recompile(g1, lazy, ensure)
                    except Exception as e:
                        r.fail("%s: second-generation save raised %s" % (label, _exc_text(e)), known_id=_known_exc(e))
                        continue
                    if g2 != g1:
                        _, t1 = _raw_tables(g1)
                        _, t2 = _raw_tables(g2)
                        bad = sorted(t for t in set(t1) | set(t2) if t1.get(t) != t2.get(t))
                        r.fail("%s: second generation differs from first generation (%d vs %d bytes; tables %s)" % (label, len(g1), len(g2), bad))
                if tier != "quick":
                    label = "%s#%d recalcBBoxes=True" % (rel, n)
                    r.case((rel, n, "recalc"))
                    try:
                        gens = []
                        src = data
                        for _ in range(3):
                            f = TTFont(io.BytesIO(src), fontNumber=n if src is data else 0, recalcTimestamp=False)
                            for t in f.keys():
                                f[t]
                            out = io.BytesIO()
                            f.save(out)
                            src = out.getvalue()
                            gens.append(src)
                        if gens[1] != gens[2]:
                            r.fail("%s: no fixed point after two generations" % label)
                    except Exception as e:
                        r.fail("%s: raised %s" % (label, _exc_text(e)), known_id=_known_exc(e))
    r.sample({"file": "ttx/data/TestTTF.ttf", "modes": [m[0] for m in MODES]})
    return r


@check("C01")
def table_level_compile_decompile_fixed_point(tier, rnd):
    """Per table of every corpus font (in the context of its own font): d1 = compile(decompile(raw));
    decompile(d1) has the same content as decompile(raw); compile(decompile(d1)) == d1.  Tables the
    library cannot decode (DefaultTable, also the fallback after a decompile error) must compile to
    exactly their raw bytes.  Isolates the table at fault when a whole-font save fails."""
    from fontTools.ttLib import newTable
    from fontTools.ttLib.tables.DefaultTable import DefaultTable
    from fontTools.misc.xmlWriter import XMLWriter
    r = Result("every table of every corpus font / TTC member (quick: all non-AOTS + every 4th AOTS font) x lazy in {None, True}; distinct = (tag, table class, lazy)")

    def xml(table, font):
        buf = io.StringIO()
        w = XMLWriter(buf, newlinestr="\n")
        table.toXML(w, font)
        s = buf.getvalue()
        return _EXTRA.sub("", _CSA.sub("", s))

    with _quiet():
        for rel, data, members in _select(_corpus(), tier, rnd, 4):
            for n in range(members):
                for lazy in (None, True):
                    try:
                        f = _open(data, lazy, n)
                        raw = {t: f.reader[t] for t in f.reader.keys()}
                    except Exception:
                        continue
                    for tag in _tags(f):
                        label = "%s#%d %s lazy=%s" % (rel, n, tag, lazy)
                        try:
                            t = f[tag]
                        except Exception as e:
                            r.fail("%s: cannot load: %s" % (label, _exc_text(e)))
                            continue
                        r.case((tag, type(t).__name__, lazy))
                        try:
                            d1 = t.compile(f)
                            if type(t) is DefaultTable:
                                if d1 != raw[tag]:
                                    r.fail("%s: undecoded table not carried verbatim" % label)
                                continue
                            t2 = newTable(tag)
                            t2.decompile(d1, f)
                            x1 = xml(t, f)
                            x2 = xml(t2, f)
                            d2 = t2.compile(f)
                        except Exception as e:
                            r.fail("%s: compile/decompile raised %s" % (label, _exc_text(e)), known_id=_known_exc(e))
                            continue
                        if x1 != x2:
                            if tag == "OS/2" and _OS2IDX.sub("", x1) == _OS2IDX.sub("", x2):
                                pass        # compile() rewrote the object's own fields before both dumps; see whole-font check
                            else:
                                r.fail("%s: decompile(compile(t)) has different content than t" % label)
                        if d2 != d1:
                            r.fail("%s: compile(decompile(d1)) != d1 (%d vs %d bytes)" % (label, len(d2), len(d1)))
                    f.close()
    r.sample({"file": "ttLib/tables/data/graphite/graphite_tests.ttf", "table": "Silf"})
    return r


# tables whose object form can be loaded and recompiled without the library loading or modifying
# any other table (no glyph names, no derived fields elsewhere)
_INDEPENDENT = {"name", "gasp", "DSIG", "meta", "cvt ", "fpgm", "prep", "LTSH"}
_UNKNOWN_TAGS = ("zzzz", "Zq01", "TEST", "x+y ", "Qq/2", "fooB")


@check("C01")
def untouched_and_undecodable_tables_verbatim(tier, rnd):
    """Corpus fonts extended with tables of unknown tags (random bytes, lengths 0..1001, odd lengths):
    open with lazy in {None, True, False}, touch a random subset S of tables, save as sfnt / WOFF /
    WOFF2.  SFNTReader(saved)[tag] == SFNTReader(source)[tag] for every table that was never loaded
    (font.isLoaded(tag) false at save time; tables the library must load itself to serve S - glyph
    order from post/CFF, maxp, loca for glyf - count as touched) and for every unknown-tag table even
    if touched.  If S only contains self-contained tables (name, gasp, DSIG, meta, cvt, fpgm, prep,
    unknown tags) then EVERY table outside S must be verbatim.  head is compared modulo
    checkSumAdjustment.  WOFF2 output: glyf/loca are re-encoded by the mandatory transform, head
    flags bit 11 is set and DSIG is dropped, as the WOFF2 format requires; those are compared only
    for presence (DSIG: absence)."""
    from fontTools.ttLib import newTable
    r = Result("corpus fonts (quick: all non-AOTS + every 6th AOTS) + 2-4 unknown-tag tables each x lazy {None,True,False} x output flavour {sfnt,woff,woff2} x random touched subset; distinct = (file, lazy, flavour, |S| class)")
    with _quiet():
        for rel, data, members in _select(_corpus(), tier, rnd, 6):
            if members > 1:
                continue
            unknown = {}
            r.case((rel, "add-unknown"))
            try:
                f = _open(data)
                for tg in rnd.sample(_UNKNOWN_TAGS, rnd.randint(2, 4)):
                    if tg in f:
                        continue
                    # random bytes, often with leading / trailing NULs (indistinguishable from padding if mishandled)
                    unknown[tg] = rnd.choice((b"", b"\0", b"\0\0\0\0")) + bytes(rnd.randrange(256) for _ in range(rnd.choice((0, 1, 2, 3, 5, 17, 255, 1001)))) + rnd.choice((b"", b"\0", b"\0\0", b"\0\0\0\0\0"))
                    f[tg] = newTable(tg)
                    f[tg].data = unknown[tg]
                out = io.BytesIO()
                f.save(out)
                src = out.getvalue()
                _, before = _raw_tables(data)
                _, base = _raw_tables(src)
            except Exception as e:
                r.fail("%s: adding unknown-tag tables %s and saving raised %s" % (rel, sorted(unknown), _exc_text(e)), known_id=_known_exc(e))
                continue
            for tg, d in unknown.items():
                if base.get(tg) != d:
                    r.fail("%s: unknown table %r (%d bytes) not stored verbatim" % (rel, tg, len(d)))
            for tg in before:
                if tg not in ("head", "glyf", "loca") and base.get(tg) != before[tg] and not (tg == "DSIG" and src[:4] == b"wOF2"):
                    r.fail("%s: adding unknown tables changed untouched table %r" % (rel, tg))
            combos = [(lazy, fl) for lazy in (None, True, False) for fl in (None, "woff", "woff2")]
            if tier == "quick":
                combos = rnd.sample(combos, 4)
            for lazy, fl in combos:
                tags = list(base)
                k = rnd.choice((0, 1, 1, 2, 3, len(tags)))
                if rnd.random() < 0.4:
                    pool = [t for t in tags if t in _INDEPENDENT or t in unknown]
                    S = set(rnd.sample(pool, min(len(pool), max(1, k))))
                else:
                    S = set(rnd.sample(tags, min(k, len(tags))))
                label = "%s lazy=%s -> %s touched=%s" % (rel, lazy, fl or "sfnt", sorted(S))
                r.case((rel, lazy, fl, min(len(S), 3)))
                try:
                    g = _open(src, lazy)
                    for t in sorted(S):
                        g[t]
                    g.flavor = fl
                    out = io.BytesIO()
                    g.save(out)
                    loaded = {t for t in tags if g.isLoaded(t)}
                    g.close()
                    _, after = _raw_tables(out.getvalue())
                except Exception as e:
                    r.fail("%s: raised %s" % (label, _exc_text(e)), known_id=_known_exc(e))
                    continue
                w2 = fl == "woff2"
                expect_tags = set(tags) - ({"DSIG"} if w2 else set())
                if set(after) != expect_tags:
                    r.fail("%s: table set changed: %s" % (label, sorted(set(after) ^ expect_tags)))
                strict = lazy is not False and S <= (_INDEPENDENT | set(unknown))
                for t in expect_tags & set(after):
                    must = t in unknown or (t not in S if strict else t not in loaded)
                    if not must or (w2 and t in ("glyf", "loca")):
                        continue
                    a, b = base[t], after[t]
                    if t == "head":
                        a, b = _head_neutral(a, w2), _head_neutral(b, w2)
                    if a != b:
                        r.fail("%s: table %r (%s) not carried through byte for byte" % (label, t, "unknown tag" if t in unknown else "never loaded"))
    r.sample({"file": "ttx/data/TestOTF.otf", "unknown": {"zzzz": 5, "x+y ": 1001}, "touched": ["name"], "flavour": "woff2"})
    return r


@check("C01")
def container_flavours_and_collections(tier, rnd):
    """(a) chains sfnt -> woff -> woff2 -> sfnt (random order, no table touched; also on variants of
    the TrueType fonts whose glyph headers carry a box larger than the outline): the final sfnt's
    tables equal the original's byte for byte (head modulo checksum/WOFF2 flag; glyf/loca, which
    WOFF2 re-encodes, by decoded content) and a fully loaded recompile of every intermediate file
    has the original's content.  (b) TTCollection built from 2-4 corpus fonts (duplicates allowed)
    x shareTables x lazy: every member read back with fontNumber=i has exactly the source font's
    tables; saving the reloaded collection reproduces the file byte for byte; a member that is
    fully loaded and saved on its own decodes to the source font's content.  (c) the corpus TTCs
    themselves through TTCollection load/save (version-2 DSIG header included)."""
    from fontTools.ttLib import TTFont, TTCollection
    r = Result("flavour chains over corpus fonts (quick: non-AOTS + every 12th AOTS) and seeded TTC assemblies (quick 12, thorough 120) + corpus TTCs; distinct = (kind, file(s), flavour order / share / lazy)")
    corpus = _corpus()
    singles = [c for c in corpus if c[2] == 1]
    with _quiet():
        # (a) flavour chains
        for rel, data, _ in _select(singles, tier, rnd, 12):
            if len(data) > 200000 and tier == "quick":
                continue
            order = rnd.sample(["woff", "woff2", None], 3) + [None]
            loose = False
            try:
                f = _open(data)
                if "glyf" in f and rnd.random() < 0.6:
                    # variant whose simple glyphs carry a bounding box larger than their outline (legal; WOFF2 must keep it)
                    for nm in rnd.sample(f.getGlyphOrder(), min(4, len(f.getGlyphOrder()))):
                        g = f["glyf"][nm]
                        if g.numberOfContours > 0:
                            fld = rnd.choice(("xMin", "yMin", "xMax", "yMax"))
                            setattr(g, fld, getattr(g, fld) + rnd.randint(1, 40) * (-1 if fld.endswith("Min") else 1))
                            loose = True
                    if loose:
                        out = io.BytesIO()
                        f.save(out)
                        data = out.getvalue()
                f.close()
            except Exception as e:
                r.fail("%s: preparing a loose-bounding-box variant raised %s" % (rel, _exc_text(e)), known_id=_known_exc(e))
                continue
            r.case(("chain", rel, tuple(order), loose))
            label = "%s%s via %s" % (rel, " (loose glyph boxes)" if loose else "", "->".join(o or "sfnt" for o in order))
            try:
                _, orig = _raw_tables(data)
                want = _content(data)
                cur = data
                lazy = rnd.choice((None, True, False))
                for fl in order:
                    g = _open(cur, lazy)
                    g.flavor = fl
                    out = io.BytesIO()
                    g.save(out)
                    g.close()
                    cur = out.getvalue()
                _, fin = _raw_tables(cur)
            except Exception as e:
                r.fail("%s: raised %s" % (label, _exc_text(e)), known_id=_known_exc(e))
                continue
            for t in orig:
                if t == "DSIG":
                    continue            # WOFF2 drops DSIG by specification
                if t not in fin:
                    r.fail("%s: table %r lost" % (label, t))
                elif t in ("glyf", "loca"):
                    continue            # compared by content below
                else:
                    a, b = (_head_neutral(orig[t], True), _head_neutral(fin[t], True)) if t == "head" else (orig[t], fin[t])
                    if a != b:
                        r.fail("%s: table %r changed by container conversion" % (label, t))
            try:
                got = _content(_recompile(cur, None, False))
                want.pop("DSIG", None), got.pop("DSIG", None)
                if "head" in want:      # WOFF2 sets head.flags bit 11
                    fix = lambda s: re.sub(r'<flags value="([01 ]+)"/>', lambda m: '<flags value="%s"/>' % (m.group(1)[:4] + "0" + m.group(1)[5:]), s)
                    want["head"], got["head"] = fix(want["head"]), fix(got["head"])
                _compare_content(r, want, got, label + " then recompiled")
            except Exception as e:
                r.fail("%s: recompiling the converted font raised %s" % (label, _exc_text(e)), known_id=_known_exc(e))

        # (b) assembled collections
        pool = [c for c in singles if c[1][:4] in (b"\0\1\0\0", b"OTTO", b"true") and len(c[1]) < 60000]
        for it in range(12 if tier == "quick" else 120):
            picks = [rnd.choice(pool) for _ in range(rnd.randint(2, 4))]
            if rnd.random() < 0.5:
                picks.append(picks[0])
            share, lazy_w, lazy_r = rnd.choice((True, False)), rnd.choice((None, True, False)), rnd.choice((None, True, False))
            label = "TTC[%s] share=%s lazy=%s/%s" % (",".join(os.path.basename(p[0]) for p in picks), share, lazy_w, lazy_r)
            r.case(("ttc", tuple(p[0] for p in picks), share, lazy_w, lazy_r))
            try:
                tc = TTCollection()
                tc.fonts = [_open(p[1], lazy_w) for p in picks]
                out = io.BytesIO()
                tc.save(out, shareTables=share)
                blob = out.getvalue()
                for i, p in enumerate(picks):
                    _, want_t = _raw_tables(p[1])
                    _, got_t = _raw_tables(blob, i)
                    if set(want_t) != set(got_t):
                        r.fail("%s: member %d table set changed" % (label, i))
                    for t in want_t:
                        if t in got_t and (want_t[t] != got_t[t] if t != "head" else _head_neutral(want_t[t]) != _head_neutral(got_t[t])):
                            r.fail("%s: member %d table %r differs from the source font's" % (label, i, t))
                tc2 = TTCollection(io.BytesIO(blob), lazy=lazy_r, recalcBBoxes=False, recalcTimestamp=False)
                out2 = io.BytesIO()
                tc2.save(out2, shareTables=share)
                if out2.getvalue() != blob:
                    r.fail("%s: re-saving the reloaded collection is not byte-identical" % label)
                i = rnd.randrange(len(picks))
                mode = rnd.choice(MODES)
                try:
                    got = _content(_recompile(blob, mode[1], mode[2], i))
                    _compare_content(r, _content(picks[i][1]), got, "%s member %d recompiled lazy=%s" % (label, i, mode[0]))
                except Exception as e:
                    r.fail("%s: recompiling member %d raised %s" % (label, i, _exc_text(e)), known_id=_known_exc(e))
            except Exception as e:
                r.fail("%s: raised %s" % (label, _exc_text(e)), known_id=_known_exc(e))

        # (c) corpus collections
        for rel, data, members in corpus:
            if members < 2:
                continue
            for lazy in (None, True, False):
                for share in (True, False):
                    r.case(("corpus-ttc", rel, lazy, share))
                    label = "%s lazy=%s share=%s" % (rel, lazy, share)
                    try:
                        tc = TTCollection(io.BytesIO(data), lazy=lazy, shareTables=share, recalcBBoxes=False, recalcTimestamp=False)
                        out = io.BytesIO()
                        tc.save(out, shareTables=share)
                        blob = out.getvalue()
                        if blob[:12] != data[:12]:
                            r.fail("%s: TTC header (tag, version, numFonts) changed" % label)
                        for i in range(members):
                            _, want_t = _raw_tables(data, i)
                            _, got_t = _raw_tables(blob, i)
                            bad = sorted(t for t in set(want_t) | set(got_t) if (want_t.get(t) != got_t.get(t) if t != "head" else _head_neutral(want_t[t]) != _head_neutral(got_t[t])))
                            if bad:
                                r.fail("%s: member %d tables %s not carried verbatim" % (label, i, bad))
                        tc2 = TTCollection(io.BytesIO(blob), lazy=lazy, shareTables=share, recalcBBoxes=False, recalcTimestamp=False)
                        out2 = io.BytesIO()
                        tc2.save(out2, shareTables=share)
                        if out2.getvalue() != blob:
                            r.fail("%s: second-generation collection differs from first generation" % label)
                    except Exception as e:
                        r.fail("%s: raised %s" % (label, _exc_text(e)), known_id=_known_exc(e))
    r.sample({"chain": ["woff2", "woff", "sfnt"], "ttc": ["TestTTF.ttf", "TestOTF.otf", "TestTTF.ttf"], "shareTables": True})
    return r


# ------------------------------------------------------------------------------------------------
# FeatureParams

_PLAIN_GSUB = ("aalt", "calt", "dlig", "liga", "salt", "smcp", "swsh", "zero", "c2sc", "hist", "onum", "titl")


def _base_font():
    from fontTools.fontBuilder import FontBuilder
    from fontTools.ttLib.tables._g_l_y_f import Glyph
    names = [".notdef", "a", "b", "c", "d", "a.alt", "b.alt", "c.alt", "d.alt", "a_b"]
    fb = FontBuilder(1000, isTTF=True)
    fb.setupGlyphOrder(names)
    fb.setupCharacterMap({0x61: "a", 0x62: "b", 0x63: "c", 0x64: "d"})
    fb.setupGlyf({n: Glyph() for n in names})
    fb.setupHorizontalMetrics({n: (500, 0) for n in names})
    fb.setupHorizontalHeader(ascent=800, descent=-200)
    fb.setupNameTable({"familyName": "C01", "styleName": "Regular"})
    fb.setupOS2()
    fb.setupPost()
    return fb.font


def _gen_feature_font(rnd, i):
    """feaLib source with > 8 GSUB features mixing ssXX / cvXX (random optional name fields,
    characters incl. supplementary planes) with parameterless features, and GPOS 'size' + kern.
    Returns (font bytes, {(table, tag): expected decoded parameters with name IDs resolved to strings})."""
    from fontTools.feaLib.builder import addOpenTypeFeaturesFromString
    exp, fea = {}, []
    uid = [0]

    def s(kind):
        uid[0] += 1
        return "%s %d.%d" % (kind, i, uid[0])

    tags = set(rnd.sample(_PLAIN_GSUB, rnd.randint(2, 8)))
    tags |= {"ss%02d" % k for k in rnd.sample(range(1, 21), rnd.randint(1, 6))}
    tags |= {"cv%02d" % k for k in rnd.sample(range(1, 100), rnd.randint(1, 6))}
    subs = ["sub a by a.alt;", "sub b by b.alt;", "sub c by c.alt;", "sub d by d.alt;", "sub a b by a_b;"]
    order = sorted(tags)
    rnd.shuffle(order)
    for tag in order:
        body = rnd.choice(subs)
        if tag == "aalt":
            body = "sub a from [a.alt];"
        if tag.startswith("ss"):
            if rnd.random() < 0.85:
                nm = s("set")
                extra = ' name 1 "%s mac";' % nm if rnd.random() < 0.4 else ""
                body = 'featureNames { name "%s";%s };\n %s' % (nm, extra, body)
                exp[("GSUB", tag)] = ("ss", nm)
            else:
                exp[("GSUB", tag)] = None
        elif tag.startswith("cv"):
            e = {"label": None, "tooltip": None, "sample": None, "params": [], "chars": []}
            parts = []
            if rnd.random() < 0.7:
                e["label"] = s("label")
                parts.append('FeatUILabelNameID { name "%s"; };' % e["label"])
            if rnd.random() < 0.5:
                e["tooltip"] = s("tip")
                parts.append('FeatUITooltipTextNameID { name "%s"; };' % e["tooltip"])
            if rnd.random() < 0.5:
                e["sample"] = s("sample")
                parts.append('SampleTextNameID { name "%s"; };' % e["sample"])
            for _ in range(rnd.choice((0, 0, 1, 2, 5))):
                e["params"].append(s("param"))
                parts.append('ParamUILabelNameID { name "%s"; };' % e["params"][-1])
            for _ in range(rnd.choice((0, 1, 2, 9))):
                e["chars"].append(rnd.choice((0x61, 0x62, 0xFFFF, 0x10000, 0x1F600, 0x10FFFF, rnd.randrange(0x20, 0x110000))))
                parts.append("Character 0x%X;" % e["chars"][-1])
            if not (e["label"] or e["tooltip"] or e["sample"] or e["params"]):
                # feaLib only emits FeatureParamsCharacterVariants when at least one name block is present
                e["tooltip"] = s("tip")
                parts.insert(0, 'FeatUITooltipTextNameID { name "%s"; };' % e["tooltip"])
            body = "cvParameters { %s };\n %s" % (" ".join(parts), body)
            exp[("GSUB", tag)] = ("cv", e["label"], e["tooltip"], e["sample"], tuple(e["params"]), tuple(e["chars"]))
        else:
            exp[("GSUB", tag)] = None
        fea.append("feature %s {\n %s\n} %s;" % (tag, body, tag))
    fea.append("feature kern { pos a b -%d; } kern;" % rnd.randint(1, 90))
    exp[("GPOS", "kern")] = None
    if rnd.random() < 0.8:
        ds, sub = rnd.randint(40, 300), rnd.choice((0, 0, 3, 7))
        if sub:
            lo = rnd.randint(10, ds)
            hi = rnd.randint(ds, 900)
            nm = s("sizemenu")
            fea.append('feature size { parameters %.1f %d %.1f %.1f; sizemenuname "%s"; sizemenuname 1 "%s mac"; } size;' % (ds / 10, sub, lo / 10, hi / 10, nm, nm))
            exp[("GPOS", "size")] = ("size", ds / 10, sub, nm, lo / 10, hi / 10)
        else:
            fea.append("feature size { parameters %.1f 0; } size;" % (ds / 10))
            exp[("GPOS", "size")] = ("size", ds / 10, 0, None, 0, 0)
    font = _base_font()
    addOpenTypeFeaturesFromString(font, "\n".join(fea))
    out = io.BytesIO()
    font.save(out)
    return out.getvalue(), exp, "\n".join(fea)


def _decode_params(font, tag, fp):
    """FeatureParams object -> the same shape as the generator's expectation (strings via 'name')."""
    from fontTools.ttLib.tables import otTables as ot

    def nm(nid):
        if nid in (0, 0xFFFF, None):
            return None
        rec = font["name"].getName(nid, 3, 1, 0x409)
        return rec.toUnicode() if rec is not None else "<missing name %d>" % nid

    if fp is None:
        return None
    if tag.startswith("ss") and type(fp) is ot.FeatureParamsStylisticSet:
        return ("ss", nm(fp.UINameID))
    if tag.startswith("cv") and type(fp) is ot.FeatureParamsCharacterVariants:
        first = fp.FirstParamUILabelNameID
        params = tuple(nm(first + k) for k in range(fp.NumNamedParameters))
        if len(fp.Character) != fp.CharCount:
            return ("cv-bad-count", fp.CharCount, len(fp.Character))
        return ("cv", nm(fp.FeatUILabelNameID), nm(fp.FeatUITooltipTextNameID), nm(fp.SampleTextNameID), params, tuple(fp.Character))
    if tag == "size" and type(fp) is ot.FeatureParamsSize:
        return ("size", fp.DesignSize, fp.SubfamilyID, nm(fp.SubfamilyNameID), fp.RangeStart, fp.RangeEnd)     # sizes decode to points = decipoints / 10
    return ("wrong-class", type(fp).__name__)


@check("C01")
def feature_params_all_kinds_all_lazy_modes(tier, rnd):
    """Fonts compiled by feaLib whose GSUB has > 8 features mixing stylistic sets (ssXX names),
    character variants (cvXX: every optional name field present/absent, 0-9 characters up to
    U+10FFFF) and parameterless features, and whose GPOS has 'size' (+ kern): for every lazy mode
    and every order of visiting the FeatureRecords (forward, reverse, shuffled, params first /
    lookups first) each Feature decodes to the FeatureParams class of ITS tag with the values of
    the source; the recompiled font still does, has identical content, and is a fixed point."""
    r = Result("seeded feaLib sources (quick 20, thorough 150 fonts; 4-20 GSUB features each) x 4 lazy modes x 3 visiting orders; distinct = (kind of params, lazy mode, order)")
    n_fonts = 20 if tier == "quick" else 150
    with _quiet():
        for i in range(n_fonts):
            try:
                data, exp, fea = _gen_feature_font(rnd, i)
            except Exception as e:
                r.fail("generator font %d does not build: %s" % (i, _exc_text(e)))
                continue
            want = _content(data)

            def verify(font, label, order):
                ok = True
                for tb in ("GSUB", "GPOS"):
                    recs = font[tb].table.FeatureList.FeatureRecord
                    idx = list(range(len(recs)))
                    if order == "reverse":
                        idx.reverse()
                    elif order == "shuffled":
                        rnd.shuffle(idx)
                    seen = set()
                    held = [(recs[k].FeatureTag, recs[k].Feature) for k in idx]     # fetch all records first, decode afterwards
                    if order == "shuffled":
                        rnd.shuffle(held)
                    for tag, feat in held:
                        seen.add(tag)
                        if order == "reverse":
                            feat.LookupListIndex
                        got = _decode_params(font, tag, feat.FeatureParams)
                        r.case(((exp.get((tb, tag)) or ("none",))[0], label.split(" ")[-1], order))
                        if got != exp.get((tb, tag), "<unexpected feature>"):
                            ok = False
                            r.fail("font %d %s %s/%s (order %s): FeatureParams decode to %r, source says %r" % (i, label, tb, tag, order, got, exp.get((tb, tag))), fea=fea[:600])
                    if seen != {t for (b, t) in exp if b == tb}:
                        ok = False
                        r.fail("font %d %s: %s feature set %s != source %s" % (i, label, tb, sorted(seen), sorted(t for (b, t) in exp if b == tb)))
                return ok

            for mname, lazy, ensure in MODES:
                for order in ("forward", "reverse", "shuffled"):
                    label = "lazy=%s" % mname
                    try:
                        f = _open(data, lazy)
                        if ensure:
                            f.ensureDecompiled()
                        verify(f, "loaded " + label, order)
                        for t in f.keys():
                            f[t]
                        out = io.BytesIO()
                        f.save(out)
                        g1 = out.getvalue()
                        f.close()
                        g = _open(g1, lazy)
                        verify(g, "recompiled " + label, order)
                        g.close()
                        _compare_content(r, want, _content(g1), "feature font %d %s" % (i, label))
                        if _recompile(g1, lazy, ensure) != g1:
                            r.fail("feature font %d %s: second generation differs from first" % (i, label), fea=fea[:600])
                    except Exception as e:
                        r.fail("feature font %d %s order %s: raised %s" % (i, label, order, _exc_text(e)), fea=fea[:600])
            if i == 0:
                r.sample({"fea": fea[:500], "expected": {"%s/%s" % k: v for k, v in list(exp.items())[:6]}})
    return r


# ------------------------------------------------------------------------------------------------

# tables that can be moved between fonts without making the font structurally inconsistent: they
# refer to other tables only through glyph IDs (out-of-range IDs decode to 'glyphNNNNN' names)
_TRANSPLANTABLE = ("GSUB", "GPOS", "GDEF", "BASE", "JSTF", "MATH", "name", "OS/2", "cmap", "kern", "gasp", "STAT", "meta", "CPAL", "DSIG", "cvt ", "fpgm", "prep")


@check("C01")
def transplanted_tables_recompile(tier, rnd):
    """Fonts assembled with SFNTWriter from the raw tables of corpus font A with 1-3 tables replaced
    by / added from other corpus fonts (layout, cmap, name, OS/2, kern, ... - tables that reference
    the rest of the font only by glyph ID, so the assembly stays loadable; glyph IDs beyond A's glyph
    count are legal and decode to glyphNNNNN), optionally re-wrapped as WOFF/WOFF2: same contract as
    for corpus files - first generation has the same content per table, second generation is
    byte-identical - in a random lazy mode."""
    from fontTools.ttLib.sfnt import SFNTWriter
    r = Result("seeded assemblies (quick 100, thorough 1500): base font x 1-3 donor tables from other corpus fonts x flavour x lazy mode; distinct = (transplanted tags, base sfntVersion, flavour, mode)")
    with _quiet():
        fonts = []
        for rel, data, members in _corpus():
            for n in range(members):
                try:
                    rd, tabs = _raw_tables(data, n)
                    fonts.append((rel, rd.sfntVersion, tabs, len(data)))
                except Exception:
                    pass
        bases = [f for f in fonts if f[3] < 100000 and "graphite" not in f[0]]
        for it in range(100 if tier == "quick" else 1500):
            rel, version, tabs, _ = rnd.choice(bases)
            tabs = dict(tabs)
            moved = []
            for _ in range(rnd.choice((1, 1, 2, 3))):
                donor = rnd.choice(fonts)
                cand = [t for t in donor[2] if t in _TRANSPLANTABLE]
                if not cand:
                    continue
                t = rnd.choice(cand)
                tabs[t] = donor[2][t]
                moved.append((t, os.path.basename(donor[0])))
            if not moved:
                continue
            buf = io.BytesIO()
            w = SFNTWriter(buf, len(tabs), version)
            for t in sorted(tabs):
                w[t] = tabs[t]
            w.close()
            data = buf.getvalue()
            fl = rnd.choice((None, None, "woff", "woff2"))
            mname, lazy, ensure = rnd.choice(MODES)
            label = "%s + %s as %s lazy=%s" % (rel, moved, fl or "sfnt", mname)
            r.case((tuple(sorted(t for t, _ in moved)), version, fl, mname))
            try:
                if fl:
                    g = _open(data)
                    g.flavor = fl
                    out = io.BytesIO()
                    g.save(out)
                    data = out.getvalue()
                want = _content(data)
            except Exception as e:
                r.fail("%s: the assembly cannot be opened/dumped: %s" % (label, _exc_text(e)))
                continue
            try:
                g1 = _recompile(data, lazy, ensure)
                _compare_content(r, want, _content(g1), label)
                g2 = _recompile(g1, lazy, ensure)
                if g2 != g1:
                    r.fail("%s: second generation differs from first generation" % label)
            except Exception as e:
                r.fail("%s: raised %s" % (label, _exc_text(e)), known_id=_known_exc(e))
            if it == 0:
                r.sample({"base": rel, "transplanted": moved, "flavour": fl, "lazy": mname})
    return r
